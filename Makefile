# builds the fact extractor (clang-14 plugin); everything else is Python (stdlib only)
CXX = clang++
LLVM_CXXFLAGS := $(shell llvm-config-14 --cxxflags)

all: build/vfacts.so

build/vfacts.so: vfacts/vfacts.cc
	mkdir -p build
	$(CXX) $(LLVM_CXXFLAGS) -fPIC -shared -O1 vfacts/vfacts.cc -o build/vfacts.so.tmp
	mv build/vfacts.so.tmp build/vfacts.so

clean:
	rm -rf build .cache

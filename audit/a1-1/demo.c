/*
 * Defect 1: vnacal_new_solve crashes (NULL dereference) in
 * classify_standard() of vnacal_new_solve_trl.c when a 2x2 T8/U8/TE10/UE10
 * calibration has exactly three standards and two unknown parameters and
 * one of the standards is a single reflect on port 2 (S11 of the full
 * S matrix unspecified => vnm_s_matrix[0] == NULL).
 */
#include <complex.h>
#include <errno.h>
#include <stdio.h>
#include <stdlib.h>
#include <string.h>
#include <vnacal.h>

static void errfn(const char *msg, void *arg, vnaerr_category_t cat)
{
    (void)arg;
    fprintf(stderr, "libvna error (category %d): %s\n", (int)cat, msg);
}

int main(void)
{
    vnacal_t *vcp;
    vnacal_new_t *vnp;
    double f[1] = { 1.0e9 };
    double complex m11[1], m12[1], m21[1], m22[1];
    double complex *m[4] = { m11, m12, m21, m22 };
    int r_guess, l_guess, r_unknown, l_unknown;
    int line[4];
    int rc;

    setvbuf(stdout, NULL, _IONBF, 0);
    vcp = vnacal_create(errfn, NULL);
    vnp = vnacal_new_alloc(vcp, VNACAL_T8, 2, 2, 1);
    vnacal_new_set_frequency_vector(vnp, f);

    r_guess   = vnacal_make_scalar_parameter(vcp, -1.0);
    r_unknown = vnacal_make_unknown_parameter(vcp, r_guess);
    l_guess   = vnacal_make_scalar_parameter(vcp, 0.0 - 1.0 * I);
    l_unknown = vnacal_make_unknown_parameter(vcp, l_guess);

    /* standard 1: through (perfect VNA: M == S) */
    m11[0] = 0.0; m12[0] = 1.0; m21[0] = 1.0; m22[0] = 0.0;
    rc = vnacal_new_add_through_m(vnp, m, 2, 2, 1, 2);
    printf("add_through_m        -> %d\n", rc);

    /* standard 2: unknown reflect measured on port 2 only */
    m11[0] = -0.9;
    rc = vnacal_new_add_single_reflect_m(vnp, m, 1, 1, r_unknown, 2);
    printf("add_single_reflect_m -> %d\n", rc);

    /* standard 3: unknown line */
    line[0] = VNACAL_ZERO; line[1] = l_unknown;
    line[2] = l_unknown;   line[3] = VNACAL_ZERO;
    m11[0] = 0.0; m12[0] = -0.95 * I; m21[0] = -0.95 * I; m22[0] = 0.0;
    rc = vnacal_new_add_line_m(vnp, m, 2, 2, line, 1, 2);
    printf("add_line_m           -> %d\n", rc);

    /* 9 equations, 7 error terms + 2 unknown parameters: must either
       solve or fail with -1/EDOM; instead it dereferences NULL */
    errno = 0;
    rc = vnacal_new_solve(vnp);
    printf("vnacal_new_solve     -> %d (errno %s)\n", rc, strerror(errno));

    vnacal_new_free(vnp);
    vnacal_free(vcp);
    return 0;
}

/*
 * Defect 10: with measurement-error modelling enabled, an exactly determined
 * (minimal) set of standards is always rejected -- even when the data fit the
 * error model perfectly -- because _vnacal_new_solve_calc_pvalue() returns a
 * p-value of 0 when there are no degrees of freedom, and
 * _vnacal_new_solve_internal() treats pvalue < limit as "measurements are
 * inconsistent with the error model".
 *
 * One-port calibration of every type with short, open, match measured by an
 * ideal VNA (M == S exactly, all residuals are exactly zero).
 */
#include <complex.h>
#include <errno.h>
#include <stdio.h>
#include <stdlib.h>
#include <string.h>
#include <vnacal.h>

static void errfn(const char *msg, void *arg, vnaerr_category_t cat)
{
    (void)arg;
    printf("      error_fn (category %d): %s\n", (int)cat, msg);
}

static int run(vnacal_type_t type, int with_m_error)
{
    vnacal_t *vcp = vnacal_create(errfn, NULL);
    vnacal_new_t *vnp = vnacal_new_alloc(vcp, type, 1, 1, 1);
    double f[1] = { 1.0e9 };
    double sigma_nf[1] = { 1.0e-3 };
    double complex m11[1];
    double complex *m[1] = { m11 };
    int rc;

    vnacal_new_set_frequency_vector(vnp, f);
    if (with_m_error) {
	vnacal_new_set_m_error(vnp, NULL, 1, sigma_nf, NULL);
    }
    m11[0] = -1.0;
    vnacal_new_add_single_reflect_m(vnp, m, 1, 1, VNACAL_SHORT, 1);
    m11[0] = 1.0;
    vnacal_new_add_single_reflect_m(vnp, m, 1, 1, VNACAL_OPEN, 1);
    m11[0] = 0.0;
    vnacal_new_add_single_reflect_m(vnp, m, 1, 1, VNACAL_MATCH, 1);
    errno = 0;
    rc = vnacal_new_solve(vnp);
    printf("   %-4s %s measurement-error model: vnacal_new_solve -> %d "
	    "(errno %s)\n", vnacal_type_to_name(type),
	    with_m_error ? "with   " : "without", rc, strerror(errno));
    vnacal_new_free(vnp);
    vnacal_free(vcp);
    return rc;
}

int main(void)
{
    static const vnacal_type_t types[] = {
	VNACAL_T8, VNACAL_U8, VNACAL_TE10, VNACAL_UE10,
	VNACAL_T16, VNACAL_U16, VNACAL_UE14, VNACAL_E12
    };
    int defects = 0;

    setvbuf(stdout, NULL, _IONBF, 0);
    for (int i = 0; i < 8; ++i) {
	int rc1 = run(types[i], 0);
	int rc2 = run(types[i], 1);

	if (rc1 == 0 && rc2 != 0) {
	    ++defects;
	}
    }
    printf("%d of 8 types: exact, sufficient data refused as \"inconsistent "
	    "... pvalue of 0\" once vnacal_new_set_m_error is enabled\n",
	    defects);
    return 0;
}

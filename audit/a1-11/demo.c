/*
 * Defect 11: vnacal_new(3) says of vnacal_new_set_m_error():
 *   "If frequencies is 1, then frequency_vector is not used and can be
 *    specified as NULL.  In this case, the single noise values given apply to
 *    all frequencies."
 * In fact a non-NULL one-element frequency_vector IS used: it is range-checked
 * against the calibration frequency span, which a single point can never
 * cover (unless the calibration band is narrower than ~2%), so the call is
 * refused.
 */
#include <complex.h>
#include <errno.h>
#include <stdio.h>
#include <stdlib.h>
#include <string.h>
#include <vnacal.h>

static void errfn(const char *msg, void *arg, vnaerr_category_t cat)
{
    (void)arg;
    printf("      error_fn (category %d): %s\n", (int)cat, msg);
}

int main(void)
{
    vnacal_t *vcp;
    vnacal_new_t *vnp;
    double f[3] = { 1.0e9, 1.5e9, 2.0e9 };
    double noise_f[1] = { 1.5e9 };	/* where the noise was measured */
    double sigma_nf[1] = { 1.0e-3 };
    double sigma_tr[1] = { 1.0e-3 };
    int rc1, rc2;

    setvbuf(stdout, NULL, _IONBF, 0);
    vcp = vnacal_create(errfn, NULL);
    vnp = vnacal_new_alloc(vcp, VNACAL_T8, 1, 1, 3);
    vnacal_new_set_frequency_vector(vnp, f);

    errno = 0;
    rc1 = vnacal_new_set_m_error(vnp, NULL, 1, sigma_nf, sigma_tr);
    printf("set_m_error(frequency_vector=NULL,     frequencies=1) -> %d "
	    "(errno %s)\n", rc1, strerror(errno));
    errno = 0;
    rc2 = vnacal_new_set_m_error(vnp, noise_f, 1, sigma_nf, sigma_tr);
    printf("set_m_error(frequency_vector={1.5e9},  frequencies=1) -> %d "
	    "(errno %s)\n", rc2, strerror(errno));
    if (rc1 == 0 && rc2 != 0) {
	printf("DEFECT: documented-as-ignored frequency_vector makes the "
		"legal call fail\n");
    }
    vnacal_new_free(vnp);
    vnacal_free(vcp);
    return 0;
}

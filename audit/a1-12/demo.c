/*
 * Defect 12: when vnacal_new_set_m_error() fails with ENOMEM inside the spline
 * set-up (_vnacommon_spline_calc), it has already installed
 * vnp->vn_m_error_vector and filled it with zeros.  The call returns -1, but
 * measurement-error modelling is left ENABLED with sigma_nf == sigma_tr == 0
 * at every frequency: the next vnacal_new_solve() computes the weights
 * 1/sqrt(0) = inf and fails ("singular linear system"), although the same
 * standards solve fine both without the model and with the model properly
 * set.
 *
 * Link with: -Wl,--wrap=malloc
 */
#include <complex.h>
#include <errno.h>
#include <stdio.h>
#include <stdlib.h>
#include <string.h>
#include <vnacal.h>

extern void *__real_malloc(size_t);
static int armed = 0, count = 0, fail_at = 0;

void *__wrap_malloc(size_t n)
{
    if (armed && ++count == fail_at) {
	errno = ENOMEM;
	return NULL;
    }
    return __real_malloc(n);
}

static void errfn(const char *msg, void *arg, vnaerr_category_t cat)
{
    (void)arg;
    printf("      error_fn (category %d): %s\n", (int)cat, msg);
}

/*
 * which_malloc: 0 = no fault, k = fail the k-th malloc made inside
 * vnacal_new_set_m_error (1 = the error vector itself, 2.. = spline work
 * vectors)
 */
static int run(int which_malloc)
{
    vnacal_t *vcp = vnacal_create(errfn, NULL);
    vnacal_new_t *vnp = vnacal_new_alloc(vcp, VNACAL_T8, 1, 1, 2);
    double f[2] = { 1.0e9, 2.0e9 };
    double noise_f[3] = { 0.9e9, 1.5e9, 2.1e9 };
    double sigma_nf[3] = { 1.0e-3, 1.0e-3, 1.0e-3 };
    double complex m11[2];
    double complex *m[1] = { m11 };
    int half = vnacal_make_scalar_parameter(vcp, 0.5);
    int rc;

    vnacal_new_set_frequency_vector(vnp, f);
    count = 0;
    fail_at = which_malloc;
    armed = 1;
    errno = 0;
    rc = vnacal_new_set_m_error(vnp, noise_f, 3, sigma_nf, NULL);
    armed = 0;
    printf("   vnacal_new_set_m_error -> %d (errno %s)\n", rc,
	    strerror(errno));

    /* over-determined, exact one-port data (ideal VNA: M == S) */
    m11[0] = m11[1] = -1.0;
    vnacal_new_add_single_reflect_m(vnp, m, 1, 1, VNACAL_SHORT, 1);
    m11[0] = m11[1] = 1.0;
    vnacal_new_add_single_reflect_m(vnp, m, 1, 1, VNACAL_OPEN, 1);
    m11[0] = m11[1] = 0.0;
    vnacal_new_add_single_reflect_m(vnp, m, 1, 1, VNACAL_MATCH, 1);
    m11[0] = m11[1] = 0.5;
    vnacal_new_add_single_reflect_m(vnp, m, 1, 1, half, 1);
    errno = 0;
    rc = vnacal_new_solve(vnp);
    printf("   vnacal_new_solve       -> %d (errno %s)\n", rc,
	    strerror(errno));
    vnacal_new_free(vnp);
    vnacal_free(vcp);
    return rc;
}

int main(void)
{
    int rc0, rc1, rc2;

    setvbuf(stdout, NULL, _IONBF, 0);
    printf("no allocation fault:\n");
    rc0 = run(0);
    printf("1st malloc in set_m_error fails (error vector):\n");
    rc1 = run(1);
    printf("2nd malloc in set_m_error fails (spline work vector):\n");
    rc2 = run(2);
    if (rc0 == 0 && rc1 == 0 && rc2 != 0) {
	printf("DEFECT: the failed vnacal_new_set_m_error left a half-built "
		"error model (all sigmas 0) behind\n");
    }
    return 0;
}

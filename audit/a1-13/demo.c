/*
 * Defect 13: _vnacal_new_solve_simple() reads uninitialised memory.
 *
 * With measurement-error modelling on and an over-determined system the
 * solver iterates on the V matrices of ONE linear system at a time, but its
 * convergence test sums over the x_vector of ALL systems:
 *     for (i = 0; i < x_length; ++i) d = x_vector[i] - prev_x_vector[i]; ...
 * x_vector is an uninitialised stack VLA of _vnacal_new_solve_internal(); for
 * UE14/E12 calibrations with more than one column the slices of the systems
 * that have not been solved yet are garbage when system 0 is being iterated.
 * The garbage takes part in the branch at line 182 (and is copied into
 * prev_x_vector), i.e. the number of iterations -- and, if the garbage happens
 * to be NaN/inf, the success of the solve -- depends on stack contents.
 *
 * Build with MemorySanitizer (see notes.txt).
 */
#include <complex.h>
#include <errno.h>
#include <stdio.h>
#include <stdlib.h>
#include <string.h>
#include <vnacal.h>

static void errfn(const char *msg, void *arg, vnaerr_category_t cat)
{
    (void)arg;
    fprintf(stderr, "   libvna error (category %d): %s\n", (int)cat, msg);
}

int main(void)
{
    vnacal_t *vcp;
    vnacal_new_t *vnp;
    double f[1] = { 1.0e9 };
    double sigma_nf[1] = { 1.0e-3 };
    double complex m11[1], m12[1], m21[1], m22[1];
    double complex *m[4] = { m11, m12, m21, m22 };
    int rc;

    setvbuf(stdout, NULL, _IONBF, 0);
    vcp = vnacal_create(errfn, NULL);
    vnp = vnacal_new_alloc(vcp, VNACAL_UE14, 2, 2, 1);
    vnacal_new_set_frequency_vector(vnp, f);
    vnacal_new_set_m_error(vnp, NULL, 1, sigma_nf, NULL);

    /* ideal VNA (M == S); 7 equations per column for 5 unknowns per column */
    m11[0] = 0; m12[0] = 1; m21[0] = 1; m22[0] = 0;
    vnacal_new_add_through_m(vnp, m, 2, 2, 1, 2);
    m11[0] = 0; m12[0] = 0; m21[0] = 0; m22[0] = 0;
    vnacal_new_add_double_reflect_m(vnp, m, 2, 2,
	    VNACAL_MATCH, VNACAL_MATCH, 1, 2);
    m11[0] = -1; m22[0] = 1;
    vnacal_new_add_double_reflect_m(vnp, m, 2, 2,
	    VNACAL_SHORT, VNACAL_OPEN, 1, 2);
    m11[0] = 1; m22[0] = -1;
    vnacal_new_add_double_reflect_m(vnp, m, 2, 2,
	    VNACAL_OPEN, VNACAL_SHORT, 1, 2);
    m11[0] = -1; m22[0] = -1;
    vnacal_new_add_double_reflect_m(vnp, m, 2, 2,
	    VNACAL_SHORT, VNACAL_SHORT, 1, 2);

    errno = 0;
    rc = vnacal_new_solve(vnp);
    printf("vnacal_new_solve -> %d (errno %s)\n", rc, strerror(errno));
    vnacal_new_free(vnp);
    vnacal_free(vcp);
    return 0;
}

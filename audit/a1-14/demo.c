/*
 * Defect 14: vnacal_new_set_et_tolerance() has no effect on the iterative
 * (Levenberg-Marquardt) solve in _vnacal_new_solve_auto(): the RMS change
 * of the error terms is computed against best_x_vector *after* best_x_vector
 * has been overwritten with the current x_vector, so it is always zero.
 *
 * One-port T8 calibration through a non-ideal error box using short, open,
 * match and one reflect standard of unknown value (true 0.5+0.3i, initial
 * guess 0.2).  We solve with several (p_tolerance, et_tolerance) settings,
 * apply the calibration to the raw measurement of a DUT and report the error
 * of the corrected value.
 */
#include <complex.h>
#include <errno.h>
#include <math.h>
#include <stdio.h>
#include <stdlib.h>
#include <string.h>
#include <vnacal.h>
#include <vnadata.h>

static void errfn(const char *msg, void *arg, vnaerr_category_t cat)
{
    (void)arg;
    fprintf(stderr, "libvna error (category %d): %s\n", (int)cat, msg);
}

/* one-port error box: directivity, reflection tracking, source match */
static const double complex e00 = 0.10 + 0.05 * I;
static const double complex e10e01 = 0.80 - 0.20 * I;
static const double complex e11 = 0.15 - 0.10 * I;

static double complex measure(double complex s)
{
    return e00 + e10e01 * s / (1.0 - e11 * s);
}

static double run(double p_tol, double et_tol, double complex *p_solved)
{
    vnacal_t *vcp = vnacal_create(errfn, NULL);
    vnacal_new_t *vnp = vnacal_new_alloc(vcp, VNACAL_T8, 1, 1, 1);
    double f[1] = { 1.0e9 };
    double complex m11[1];
    double complex *m[1] = { m11 };
    const double complex r_true = 0.5 + 0.3 * I;
    const double complex dut = -0.3 + 0.6 * I;
    int guess, unknown, ci;
    vnadata_t *vdp;
    double complex corrected;

    vnacal_new_set_frequency_vector(vnp, f);
    vnacal_new_set_p_tolerance(vnp, p_tol);
    vnacal_new_set_et_tolerance(vnp, et_tol);
    vnacal_new_set_iteration_limit(vnp, 100);
    guess   = vnacal_make_scalar_parameter(vcp, 0.2);
    unknown = vnacal_make_unknown_parameter(vcp, guess);
    m11[0] = measure(-1.0);
    vnacal_new_add_single_reflect_m(vnp, m, 1, 1, VNACAL_SHORT, 1);
    m11[0] = measure(1.0);
    vnacal_new_add_single_reflect_m(vnp, m, 1, 1, VNACAL_OPEN, 1);
    m11[0] = measure(0.0);
    vnacal_new_add_single_reflect_m(vnp, m, 1, 1, VNACAL_MATCH, 1);
    m11[0] = measure(r_true);
    vnacal_new_add_single_reflect_m(vnp, m, 1, 1, unknown, 1);
    if (vnacal_new_solve(vnp) == -1) {
	printf("solve failed\n");
	exit(1);
    }
    *p_solved = vnacal_get_parameter_value(vcp, unknown, f[0]);
    ci = vnacal_add_calibration(vcp, "cal", vnp);
    vdp = vnadata_alloc(errfn, NULL);
    m11[0] = measure(dut);
    if (vnacal_apply_m(vcp, ci, f, 1, m, 1, 1, vdp) == -1) {
	printf("apply failed\n");
	exit(1);
    }
    corrected = vnadata_get_cell(vdp, 0, 0, 0);
    vnadata_free(vdp);
    vnacal_new_free(vnp);
    vnacal_free(vcp);
    return cabs(corrected - dut);
}

int main(void)
{
    double complex p;
    double err;

    err = run(1.0e-12, 1.0e-12, &p);
    printf("p_tol=1e-12 et_tol=1e-12: |S_corrected - S_true| = %.3e  "
	    "(unknown solved as %.6f%+.6fi)\n", err, creal(p), cimag(p));
    err = run(1.0, 1.0, &p);
    printf("p_tol=1     et_tol=1    : |S_corrected - S_true| = %.3e  "
	    "(unknown solved as %.6f%+.6fi)\n", err, creal(p), cimag(p));
    err = run(1.0, 1.0e-12, &p);
    printf("p_tol=1     et_tol=1e-12: |S_corrected - S_true| = %.3e  "
	    "(unknown solved as %.6f%+.6fi)\n", err, creal(p), cimag(p));
    if (err > 1.0e-6) {
	printf("DEFECT: et_tolerance=1e-12 was requested, yet iteration "
		"stopped with error terms that are wrong by %.1e -- "
		"the result is identical to et_tolerance=1\n", err);
    }
    return 0;
}

/*
 * Defect 15: when the allocation of the parameter hash table fails inside
 * vnacal_new_alloc(), the function returns NULL without calling the user's
 * error function.  _vnacal_new_init_parameter_hash() documents "Caller must
 * log errors", but the caller (vnacal_new_alloc) does not.
 *
 * Link with: -Wl,--wrap=malloc,--wrap=calloc,--wrap=realloc
 */
#include <complex.h>
#include <errno.h>
#include <stdio.h>
#include <stdlib.h>
#include <string.h>
#include <vnacal.h>

extern void *__real_malloc(size_t);
extern void *__real_calloc(size_t, size_t);
extern void *__real_realloc(void *, size_t);

static int armed = 0;
static int count = 0;
static int fail_at = -1;

static int should_fail(void)
{
    if (armed && ++count == fail_at) {
	errno = ENOMEM;
	return 1;
    }
    return 0;
}
void *__wrap_malloc(size_t n)
{
    return should_fail() ? NULL : __real_malloc(n);
}
void *__wrap_calloc(size_t a, size_t b)
{
    return should_fail() ? NULL : __real_calloc(a, b);
}
void *__wrap_realloc(void *p, size_t n)
{
    return should_fail() ? NULL : __real_realloc(p, n);
}

static int error_calls = 0;
static void errfn(const char *msg, void *arg, vnaerr_category_t cat)
{
    (void)arg;
    ++error_calls;
    printf("      error_fn (category %d): %s\n", (int)cat, msg);
}

int main(void)
{
    setvbuf(stdout, NULL, _IONBF, 0);
    for (int k = 1; k <= 4; ++k) {
	vnacal_t *vcp = vnacal_create(errfn, NULL);
	vnacal_new_t *vnp;

	error_calls = 0;
	count = 0;
	fail_at = k;
	armed = 1;
	errno = 0;
	vnp = vnacal_new_alloc(vcp, VNACAL_T8, 2, 2, 10);
	armed = 0;
	printf("   allocation #%d fails: vnacal_new_alloc -> %s, errno=%s, "
		"error_fn called %d time(s)%s\n", k,
		vnp != NULL ? "non-NULL" : "NULL", strerror(errno),
		error_calls,
		(vnp == NULL && error_calls != 1) ?
		"   <-- DEFECT: silent failure" : "");
	vnacal_new_free(vnp);
	vnacal_free(vcp);
    }
    return 0;
}

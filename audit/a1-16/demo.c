/*
 * Defect 16: a two-point noise specification given to vnacal_new_set_m_error()
 * together with its own frequency_vector is not interpolated at all: every
 * calibration frequency receives sigma_nf[0] / sigma_tr[0]; the second point
 * is ignored.
 *
 * vnacal_new_set_m_error() calls _vnacommon_spline_calc(frequencies - 1, ...)
 * and _vnacommon_spline_eval(frequencies - 1, ...), where the first argument
 * is the number of SEGMENTS.  For frequencies == 2 that is n == 1, which the
 * spline code treats as its "single element" special case: spline_calc
 * returns without computing anything and spline_eval returns y_vector[0].
 *
 * The same noise description is entered in two equivalent ways on a two-point
 * calibration grid that coincides with the noise grid:
 *   way 1: frequency_vector = NULL,  frequencies = 2   (direct copy)
 *   way 2: frequency_vector = grid,  frequencies = 2   (spline path)
 * sigma_nf = { 1e-6, 1e-2 }.  One of four one-port standards is measured
 * 1e-3 off at the second frequency only (0.1 sigma there).
 */
#include <complex.h>
#include <errno.h>
#include <stdio.h>
#include <stdlib.h>
#include <string.h>
#include <vnacal.h>

static void errfn(const char *msg, void *arg, vnaerr_category_t cat)
{
    (void)arg;
    printf("      error_fn (category %d): %s\n", (int)cat, msg);
}

static int run(int with_frequency_vector)
{
    vnacal_t *vcp = vnacal_create(errfn, NULL);
    vnacal_new_t *vnp = vnacal_new_alloc(vcp, VNACAL_T8, 1, 1, 2);
    double f[2] = { 1.0e9, 2.0e9 };
    double sigma_nf[2] = { 1.0e-6, 1.0e-2 };
    double complex m11[2];
    double complex *m[1] = { m11 };
    int half = vnacal_make_scalar_parameter(vcp, 0.5);
    int rc;

    vnacal_new_set_frequency_vector(vnp, f);
    rc = vnacal_new_set_m_error(vnp, with_frequency_vector ? f : NULL, 2,
	    sigma_nf, NULL);
    printf("   vnacal_new_set_m_error -> %d\n", rc);
    m11[0] = m11[1] = -1.0;
    vnacal_new_add_single_reflect_m(vnp, m, 1, 1, VNACAL_SHORT, 1);
    m11[0] = m11[1] = 1.0;
    vnacal_new_add_single_reflect_m(vnp, m, 1, 1, VNACAL_OPEN, 1);
    m11[0] = m11[1] = 0.0;
    vnacal_new_add_single_reflect_m(vnp, m, 1, 1, VNACAL_MATCH, 1);
    m11[0] = 0.5;			/* exact at 1 GHz */
    m11[1] = 0.5 + 1.0e-3;		/* 0.1 sigma off at 2 GHz */
    vnacal_new_add_single_reflect_m(vnp, m, 1, 1, half, 1);
    errno = 0;
    rc = vnacal_new_solve(vnp);
    printf("   vnacal_new_solve       -> %d (errno %s)\n", rc,
	    strerror(errno));
    vnacal_new_free(vnp);
    vnacal_free(vcp);
    return rc;
}

int main(void)
{
    int rc1, rc2;

    setvbuf(stdout, NULL, _IONBF, 0);
    printf("way 1: frequency_vector NULL (values taken per calibration "
	    "frequency)\n");
    rc1 = run(0);
    printf("way 2: frequency_vector = the same two frequencies\n");
    rc2 = run(1);
    if (rc1 == 0 && rc2 != 0) {
	printf("DEFECT: at 2 GHz way 2 used sigma_nf[0] = 1e-6 instead of the "
		"supplied 1e-2\n");
    }
    return 0;
}

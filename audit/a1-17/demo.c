/*
 * Defect 17: the noise figures installed by vnacal_new_set_m_error() are
 * interpolated onto the calibration frequency grid at the time of the call
 * and are neither recomputed, range-checked nor invalidated when
 * vnacal_new_set_frequency_vector() is called again.  The same final
 * configuration therefore gives different results depending on the order of
 * the two setters, and a calibration grid that the noise grid does not cover
 * is silently accepted.
 *
 * Noise grid (3 points): sigma_nf = 1e-6 at 1 GHz, 1e-2 at 1.5 and 2 GHz.
 * Final calibration grid: { 1.9 GHz, 2 GHz } (sigma ~ 1e-2 at both points).
 * One of four one-port standards is measured 1e-3 off (about 0.1 sigma).
 */
#include <complex.h>
#include <errno.h>
#include <stdio.h>
#include <stdlib.h>
#include <string.h>
#include <vnacal.h>

static void errfn(const char *msg, void *arg, vnaerr_category_t cat)
{
    (void)arg;
    printf("      error_fn (category %d): %s\n", (int)cat, msg);
}

static int run(int m_error_first, const double *f_final)
{
    vnacal_t *vcp = vnacal_create(errfn, NULL);
    vnacal_new_t *vnp = vnacal_new_alloc(vcp, VNACAL_T8, 1, 1, 2);
    double f_initial[2] = { 1.0e9, 2.0e9 };
    double noise_f[3] = { 1.0e9, 1.5e9, 2.0e9 };
    double sigma_nf[3] = { 1.0e-6, 1.0e-2, 1.0e-2 };
    double complex m11[2];
    double complex *m[1] = { m11 };
    int half = vnacal_make_scalar_parameter(vcp, 0.5);
    int rc;

    if (m_error_first) {
	rc = vnacal_new_set_frequency_vector(vnp, f_initial);
	rc |= vnacal_new_set_m_error(vnp, noise_f, 3, sigma_nf, NULL);
	rc |= vnacal_new_set_frequency_vector(vnp, f_final);
    } else {
	rc = vnacal_new_set_frequency_vector(vnp, f_final);
	rc |= vnacal_new_set_m_error(vnp, noise_f, 3, sigma_nf, NULL);
    }
    printf("   setters -> %d\n", rc);
    if (rc != 0) {
	rc = -2;		/* setters refused */
	goto out;
    }
    m11[0] = m11[1] = -1.0;
    vnacal_new_add_single_reflect_m(vnp, m, 1, 1, VNACAL_SHORT, 1);
    m11[0] = m11[1] = 1.0;
    vnacal_new_add_single_reflect_m(vnp, m, 1, 1, VNACAL_OPEN, 1);
    m11[0] = m11[1] = 0.0;
    vnacal_new_add_single_reflect_m(vnp, m, 1, 1, VNACAL_MATCH, 1);
    m11[0] = m11[1] = 0.5 + 1.0e-3;		/* ~0.1 sigma off */
    vnacal_new_add_single_reflect_m(vnp, m, 1, 1, half, 1);
    errno = 0;
    rc = vnacal_new_solve(vnp);
    printf("   vnacal_new_solve -> %d (errno %s)\n", rc, strerror(errno));
out:
    vnacal_new_free(vnp);
    vnacal_free(vcp);
    return rc;
}

int main(void)
{
    static const double f_final[2] = { 1.9e9, 2.0e9 };
    static const double f_outside[2] = { 5.0e9, 6.0e9 };
    int rc1, rc2, rc3, rc4;

    setvbuf(stdout, NULL, _IONBF, 0);
    printf("order A: set_frequency_vector(final), set_m_error\n");
    rc1 = run(0, f_final);
    printf("order B: set_frequency_vector(1..2 GHz), set_m_error, "
	    "set_frequency_vector(final)\n");
    rc2 = run(1, f_final);
    if (rc1 == 0 && rc2 != 0) {
	printf("DEFECT: same final settings, different outcome (stale noise "
		"values from the first grid)\n");
    }
    printf("order A with a calibration grid (5..6 GHz) outside the noise "
	    "grid (1..2 GHz):\n");
    rc3 = run(0, f_outside);
    printf("order B with the same grids:\n");
    rc4 = run(1, f_outside);
    if (rc3 == -2 && rc4 != -2) {
	printf("DEFECT: uncovered frequency range refused in order A but "
		"silently accepted in order B\n");
    }
    return 0;
}

/*
 * Defect 2: an allocation failure inside vnacal_new_alloc() crashes the
 * process instead of returning NULL with errno ENOMEM.
 *
 * vnacal_new_alloc() sets vnp->vn_systems = systems and then does
 *     vnp->vn_system_vector = calloc(systems, sizeof(vnacal_new_system_t))
 * When that calloc fails it calls vnacal_new_free(vnp), which loops
 *     for (i = 0; i < vnp->vn_systems; ++i) { vnsp = &vnp->vn_system_vector[i];
 *         while (vnsp->vns_equation_list != NULL) ...
 * with vn_system_vector == NULL  ->  NULL dereference.
 *
 * Every allocation k made by vnacal_new_alloc() is failed in turn in a forked
 * child; the parent reports how the child ended.
 *
 * Link with: -Wl,--wrap=malloc,--wrap=calloc,--wrap=realloc
 */
#include <complex.h>
#include <errno.h>
#include <signal.h>
#include <stdio.h>
#include <stdlib.h>
#include <string.h>
#include <sys/wait.h>
#include <unistd.h>
#include <vnacal.h>

extern void *__real_malloc(size_t);
extern void *__real_calloc(size_t, size_t);
extern void *__real_realloc(void *, size_t);

static int armed = 0;
static int count = 0;
static int fail_at = -1;

static int should_fail(void)
{
    if (armed && ++count == fail_at) {
	errno = ENOMEM;
	return 1;
    }
    return 0;
}
void *__wrap_malloc(size_t n)
{
    return should_fail() ? NULL : __real_malloc(n);
}
void *__wrap_calloc(size_t a, size_t b)
{
    return should_fail() ? NULL : __real_calloc(a, b);
}
void *__wrap_realloc(void *p, size_t n)
{
    return should_fail() ? NULL : __real_realloc(p, n);
}

static int error_calls = 0;
static void errfn(const char *msg, void *arg, vnaerr_category_t cat)
{
    (void)arg; (void)cat;
    ++error_calls;
    printf("      error_fn: %s\n", msg);
}

int main(void)
{
    setvbuf(stdout, NULL, _IONBF, 0);
    for (int k = 1; k <= 6; ++k) {
	pid_t pid = fork();

	if (pid == 0) {
	    vnacal_t *vcp = vnacal_create(errfn, NULL);
	    vnacal_new_t *vnp;

	    fail_at = k;
	    armed = 1;
	    errno = 0;
	    vnp = vnacal_new_alloc(vcp, VNACAL_E12, 2, 2, 10);
	    armed = 0;
	    printf("   k=%d: vnacal_new_alloc -> %s, errno=%s, "
		    "error_fn calls=%d\n", k, vnp ? "non-NULL" : "NULL",
		    strerror(errno), error_calls);
	    vnacal_new_free(vnp);
	    vnacal_free(vcp);
	    _exit(0);
	} else {
	    int status;

	    (void)waitpid(pid, &status, 0);
	    if (WIFSIGNALED(status)) {
		printf("   k=%d: DEFECT: child killed by signal %d (%s) inside "
			"vnacal_new_alloc\n", k, WTERMSIG(status),
			strsignal(WTERMSIG(status)));
	    }
	}
    }
    return 0;
}

/*
 * Defect 3: an allocation failure inside any vnacal_new_add_*() function,
 * between the malloc of the vnacal_new_measurement_t and the assignment
 * "vnmp->vnm_vnp = vnp", crashes in _vnacal_new_free_measurement(), which
 * starts with
 *     vnacal_new_t *vnp = vnmp->vnm_vnp;			(NULL)
 *     const int m_rows = vnp->vn_layout.vl_m_rows;		(NULL deref)
 *
 * Every allocation k made by vnacal_new_add_through_m() on a 2x2 T8
 * calibration is failed in turn in a forked child.
 *
 * Link with: -Wl,--wrap=malloc,--wrap=calloc,--wrap=realloc
 */
#include <complex.h>
#include <errno.h>
#include <signal.h>
#include <stdio.h>
#include <stdlib.h>
#include <string.h>
#include <sys/wait.h>
#include <unistd.h>
#include <vnacal.h>

extern void *__real_malloc(size_t);
extern void *__real_calloc(size_t, size_t);
extern void *__real_realloc(void *, size_t);

static int armed = 0;
static int count = 0;
static int fail_at = -1;

static int should_fail(void)
{
    if (armed && ++count == fail_at) {
	errno = ENOMEM;
	return 1;
    }
    return 0;
}
void *__wrap_malloc(size_t n)
{
    return should_fail() ? NULL : __real_malloc(n);
}
void *__wrap_calloc(size_t a, size_t b)
{
    return should_fail() ? NULL : __real_calloc(a, b);
}
void *__wrap_realloc(void *p, size_t n)
{
    return should_fail() ? NULL : __real_realloc(p, n);
}

static void errfn(const char *msg, void *arg, vnaerr_category_t cat)
{
    (void)arg; (void)cat;
    printf("      error_fn: %s\n", msg);
}

int main(void)
{
    int crashes = 0;

    setvbuf(stdout, NULL, _IONBF, 0);
    for (int k = 1; k <= 10; ++k) {
	pid_t pid = fork();

	if (pid == 0) {
	    vnacal_t *vcp = vnacal_create(errfn, NULL);
	    vnacal_new_t *vnp = vnacal_new_alloc(vcp, VNACAL_T8, 2, 2, 1);
	    double f[1] = { 1.0e9 };
	    double complex m11[1] = { 0.0 }, m12[1] = { 1.0 };
	    double complex m21[1] = { 1.0 }, m22[1] = { 0.0 };
	    double complex *m[4] = { m11, m12, m21, m22 };
	    int rc;

	    vnacal_new_set_frequency_vector(vnp, f);
	    fail_at = k;
	    armed = 1;
	    errno = 0;
	    rc = vnacal_new_add_through_m(vnp, m, 2, 2, 1, 2);
	    armed = 0;
	    printf("   k=%d: vnacal_new_add_through_m -> %d, errno=%s\n",
		    k, rc, strerror(errno));
	    vnacal_new_free(vnp);
	    vnacal_free(vcp);
	    _exit(0);
	} else {
	    int status;

	    (void)waitpid(pid, &status, 0);
	    if (WIFSIGNALED(status)) {
		++crashes;
		printf("   k=%d: DEFECT: child killed by signal %d (%s) inside "
			"vnacal_new_add_through_m\n", k, WTERMSIG(status),
			strsignal(WTERMSIG(status)));
	    }
	}
    }
    printf("%d of the first 10 allocation-failure points crash\n", crashes);
    return 0;
}

/*
 * Defect 4: vnacal_new_solve() dereferences NULL in save_v_matrices()
 * (vnacal_new_solve_auto.c) when measurement-error modelling is enabled,
 * the standards contain a correlated parameter, and no linear system is
 * over-determined (equations == error terms, the extra equation coming from
 * the correlation).
 *
 * _vnacal_new_solve_init() allocates the per-standard vnsm_v_matrices vector
 * only if vn_max_equations > vl_t_terms - 1, but _vnacal_new_solve_auto()
 * allocates prev_v_matrices whenever vn_m_error_vector != NULL and then
 * save_v_matrices() reads vnmmp->vnsm_v_matrices[sindex] unconditionally.
 */
#include <complex.h>
#include <errno.h>
#include <stdio.h>
#include <stdlib.h>
#include <string.h>
#include <vnacal.h>

static void errfn(const char *msg, void *arg, vnaerr_category_t cat)
{
    (void)arg;
    fprintf(stderr, "libvna error (category %d): %s\n", (int)cat, msg);
}

int main(void)
{
    vnacal_t *vcp;
    vnacal_new_t *vnp;
    double f[1] = { 1.0e9 };
    double sigma_nf[1] = { 1.0e-3 };
    double sigma[1] = { 0.1 };
    double complex m11[1];
    double complex *m[1] = { m11 };
    int load, rc;

    setvbuf(stdout, NULL, _IONBF, 0);
    vcp = vnacal_create(errfn, NULL);
    vnp = vnacal_new_alloc(vcp, VNACAL_T8, 1, 1, 1);
    vnacal_new_set_frequency_vector(vnp, f);
    rc = vnacal_new_set_m_error(vnp, NULL, 1, sigma_nf, NULL);
    printf("set_m_error -> %d\n", rc);

    /* a load known to be within sigma=0.1 of a perfect match */
    load = vnacal_make_correlated_parameter(vcp, VNACAL_MATCH, f, 1, sigma);
    printf("correlated parameter handle %d\n", load);

    /* perfect one-port VNA: M == S */
    m11[0] = -1.0;
    rc = vnacal_new_add_single_reflect_m(vnp, m, 1, 1, VNACAL_SHORT, 1);
    printf("add short -> %d\n", rc);
    m11[0] = 1.0;
    rc = vnacal_new_add_single_reflect_m(vnp, m, 1, 1, VNACAL_OPEN, 1);
    printf("add open  -> %d\n", rc);
    m11[0] = 0.01;
    rc = vnacal_new_add_single_reflect_m(vnp, m, 1, 1, load, 1);
    printf("add load  -> %d\n", rc);

    /* 3 equations + 1 correlation >= 3 error terms + 1 unknown parameter */
    errno = 0;
    rc = vnacal_new_solve(vnp);
    printf("vnacal_new_solve -> %d (errno %s)\n", rc, strerror(errno));

    vnacal_new_free(vnp);
    vnacal_free(vcp);
    return 0;
}

/*
 * Defect 5: _vnacal_new_add_common() declares the variable length array
 *     int s_cell_map[s_cells];		(s_cells = s_rows * s_columns)
 * from the caller's s_rows/s_columns BEFORE those are validated
 * (the "invalid s_rows value" test comes ~90 lines later).
 * A zero or negative product is undefined behaviour (UBSan: "variable length
 * array bound evaluates to non-positive value"), and a large magnitude moves
 * the stack pointer out of the stack: the call dies with SIGSEGV instead of
 * returning -1/EINVAL.
 *
 * usage: demo [s_rows s_columns]
 *   without arguments runs (0,2), (-1,2), (100000000,20) and (-100000000,2)
 *   each in a forked child and reports how the child ended.
 */
#include <complex.h>
#include <errno.h>
#include <signal.h>
#include <stdio.h>
#include <stdlib.h>
#include <string.h>
#include <sys/wait.h>
#include <unistd.h>
#include <vnacal.h>

static void errfn(const char *msg, void *arg, vnaerr_category_t cat)
{
    (void)arg;
    fprintf(stderr, "   libvna error (category %d): %s\n", (int)cat, msg);
}

static void try(int s_rows, int s_columns)
{
    vnacal_t *vcp = vnacal_create(errfn, NULL);
    vnacal_new_t *vnp = vnacal_new_alloc(vcp, VNACAL_T8, 2, 2, 1);
    double f[1] = { 1.0e9 };
    double complex m11[1] = { 0 }, m12[1] = { 0 }, m21[1] = { 0 }, m22[1] = { 0 };
    double complex *m[4] = { m11, m12, m21, m22 };
    int s[4] = { VNACAL_MATCH, VNACAL_ZERO, VNACAL_ZERO, VNACAL_MATCH };
    int map[2] = { 1, 2 };
    int rc;

    vnacal_new_set_frequency_vector(vnp, f);
    errno = 0;
    rc = vnacal_new_add_mapped_matrix_m(vnp, m, 2, 2, s, s_rows, s_columns,
	    map);
    printf("   vnacal_new_add_mapped_matrix_m(s_rows=%d, s_columns=%d) -> %d, "
	    "errno=%s\n", s_rows, s_columns, rc, strerror(errno));
    vnacal_new_free(vnp);
    vnacal_free(vcp);
}

int main(int argc, char **argv)
{
    static const int cases[][2] = {
	{ 0, 2 }, { -1, 2 }, { 100000000, 20 }, { -100000000, 2 }
    };

    setvbuf(stdout, NULL, _IONBF, 0);
    if (argc == 3) {
	try(atoi(argv[1]), atoi(argv[2]));
	return 0;
    }
    for (int i = 0; i < 4; ++i) {
	pid_t pid;
	int status;

	printf("case s_rows=%d s_columns=%d:\n", cases[i][0], cases[i][1]);
	if ((pid = fork()) == 0) {
	    try(cases[i][0], cases[i][1]);
	    _exit(0);
	}
	(void)waitpid(pid, &status, 0);
	if (WIFSIGNALED(status)) {
	    printf("   DEFECT: killed by signal %d (%s); expected -1/EINVAL\n",
		    WTERMSIG(status), strsignal(WTERMSIG(status)));
	} else if (WEXITSTATUS(status) != 0) {
	    printf("   DEFECT: abnormal exit status %d (sanitizer abort); "
		    "expected -1/EINVAL\n", WEXITSTATUS(status));
	}
    }
    return 0;
}

/*
 * Defect 6: a rectangular (partially known) S matrix passed to
 * vnacal_new_add_mapped_matrix[_m]() passes argument validation for the
 * T8, TE10, U8, UE10, UE14 and E12 types and then kills the process with
 * abort() through "assert(vnprp != NULL)" in build_terms_t8()/build_terms_u8()/
 * build_terms_ue14() (vnacal_new_build_equation_terms.c).
 *
 * The library explicitly supports rectangular S ("When working in T
 * parameters, we have to know the full S column ...", add_common.c) and the
 * call works for T16/U16.
 */
#include <complex.h>
#include <errno.h>
#include <signal.h>
#include <stdio.h>
#include <stdlib.h>
#include <string.h>
#include <sys/wait.h>
#include <unistd.h>
#include <vnacal.h>

static void errfn(const char *msg, void *arg, vnaerr_category_t cat)
{
    (void)arg;
    fprintf(stderr, "   libvna error (category %d): %s\n", (int)cat, msg);
}

static void try(vnacal_type_t type, int s_rows, int s_columns)
{
    vnacal_t *vcp = vnacal_create(errfn, NULL);
    vnacal_new_t *vnp = vnacal_new_alloc(vcp, type, 2, 2, 1);
    double f[1] = { 1.0e9 };
    /* perfect VNA measuring a 6 dB attenuator */
    double complex m11[1] = { 0.0 }, m12[1] = { 0.5 };
    double complex m21[1] = { 0.5 }, m22[1] = { 0.0 };
    double complex *m[4] = { m11, m12, m21, m22 };
    int half = vnacal_make_scalar_parameter(vcp, 0.5);
    int s[2];
    int map[2] = { 1, 2 };
    int rc;

    /* column vector {s11, s21} or row vector {s11, s12} */
    s[0] = VNACAL_MATCH;
    s[1] = half;
    vnacal_new_set_frequency_vector(vnp, f);
    errno = 0;
    rc = vnacal_new_add_mapped_matrix_m(vnp, m, 2, 2, s, s_rows, s_columns,
	    map);
    printf("   %s: add_mapped_matrix_m(S is %dx%d) -> %d, errno=%s\n",
	    vnacal_type_to_name(type), s_rows, s_columns, rc, strerror(errno));
    vnacal_new_free(vnp);
    vnacal_free(vcp);
}

int main(void)
{
    static const struct { vnacal_type_t type; int r, c; } cases[] = {
	{ VNACAL_T16,  2, 1 },		/* works */
	{ VNACAL_U16,  1, 2 },		/* works */
	{ VNACAL_T8,   2, 1 },
	{ VNACAL_TE10, 2, 1 },
	{ VNACAL_U8,   1, 2 },
	{ VNACAL_UE10, 1, 2 },
	{ VNACAL_UE14, 1, 2 },
	{ VNACAL_E12,  1, 2 },
    };

    setvbuf(stdout, NULL, _IONBF, 0);
    for (int i = 0; i < (int)(sizeof(cases) / sizeof(cases[0])); ++i) {
	pid_t pid;
	int status;

	if ((pid = fork()) == 0) {
	    try(cases[i].type, cases[i].r, cases[i].c);
	    _exit(0);
	}
	(void)waitpid(pid, &status, 0);
	if (WIFSIGNALED(status)) {
	    printf("   DEFECT: %s: killed by signal %d (%s)\n",
		    vnacal_type_to_name(cases[i].type),
		    WTERMSIG(status), strsignal(WTERMSIG(status)));
	}
    }
    return 0;
}

/*
 * Defect 7: stack and heap buffer overflow in _vnacal_new_add_common() when a
 * standard is placed on a port of a rectangular calibration that has no
 * detector (T types, rows < columns) or no generator (U types, rows > columns)
 * and an abbreviated measurement matrix is given.
 *
 * The port-map check only compares port numbers with the S-matrix bounds
 * (= number of ports); the abbreviated-M index computed from the port map,
 *     full_m_row    = m_port_map[b_row]    - 1		(line 575)
 *     full_m_column = m_port_map[b_column] - 1		(line 580)
 * is then used unchecked:
 *     m_row_given[full_m_row] = true;		bool m_row_given[full_m_rows]
 *     m_column_given[full_m_column] = true;
 *     m_cell_map[...] = full_m_row * full_m_columns + full_m_column;
 *     full_m_matrix[m_cell_map[b_cell]] = calloc(...)	 (heap, line 686)
 */
#include <complex.h>
#include <errno.h>
#include <signal.h>
#include <stdio.h>
#include <stdlib.h>
#include <string.h>
#include <sys/wait.h>
#include <unistd.h>
#include <vnacal.h>

static void errfn(const char *msg, void *arg, vnaerr_category_t cat)
{
    (void)arg;
    fprintf(stderr, "   libvna error (category %d): %s\n", (int)cat, msg);
}

static void try(vnacal_type_t type, int rows, int columns, int mr, int mc)
{
    vnacal_t *vcp = vnacal_create(errfn, NULL);
    vnacal_new_t *vnp = vnacal_new_alloc(vcp, type, rows, columns, 1);
    double f[1] = { 1.0e9 };
    double complex m11[1] = { -1.0 };
    double complex *m[3] = { m11, m11, m11 };
    int rc;

    vnacal_new_set_frequency_vector(vnp, f);
    errno = 0;
    /* VNA port 3 of a 2x3 (3x2) calibration cannot detect (generate) */
    rc = vnacal_new_add_single_reflect_m(vnp, m, mr, mc, VNACAL_SHORT, 3);
    printf("   %s %dx%d: add_single_reflect_m(%dx%d m, port 3) -> %d, errno=%s\n",
	    vnacal_type_to_name(type), rows, columns, mr, mc, rc,
	    strerror(errno));
    vnacal_new_free(vnp);
    vnacal_free(vcp);
}

int main(void)
{
    static const struct { vnacal_type_t type; int r, c, mr, mc; } cases[] = {
	{ VNACAL_T8,   2, 3, 1, 1 },
	{ VNACAL_T16,  2, 3, 1, 3 },
	{ VNACAL_U8,   3, 2, 1, 1 },
	{ VNACAL_U16,  3, 2, 3, 1 },
	{ VNACAL_UE14, 3, 2, 1, 1 },
    };

    setvbuf(stdout, NULL, _IONBF, 0);
    for (int i = 0; i < (int)(sizeof(cases) / sizeof(cases[0])); ++i) {
	pid_t pid;
	int status;

	if ((pid = fork()) == 0) {
	    try(cases[i].type, cases[i].r, cases[i].c, cases[i].mr, cases[i].mc);
	    _exit(0);
	}
	(void)waitpid(pid, &status, 0);
	if (WIFSIGNALED(status)) {
	    printf("   DEFECT: killed by signal %d (%s)\n",
		    WTERMSIG(status), strsignal(WTERMSIG(status)));
	} else if (WEXITSTATUS(status) != 0) {
	    printf("   DEFECT: sanitizer abort (exit status %d)\n",
		    WEXITSTATUS(status));
	}
    }
    return 0;
}

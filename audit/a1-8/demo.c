/*
 * Defect 8: a rejected vnacal_new_add_*() call is not without effect: the
 * unknown parameters named in its S matrix stay registered in the
 * vnacal_new_t (vn_unknown_parameters, vn_unknown_parameter_list, parameter
 * hash), although no standard was added.  A later vnacal_new_solve() then
 * counts an unknown that occurs in no equation and refuses a standard set
 * that is sufficient.
 */
#include <complex.h>
#include <errno.h>
#include <stdio.h>
#include <stdlib.h>
#include <string.h>
#include <vnacal.h>

static void errfn(const char *msg, void *arg, vnaerr_category_t cat)
{
    (void)arg;
    printf("      error_fn (category %d): %s\n", (int)cat, msg);
}

static int run(int with_rejected_add)
{
    vnacal_t *vcp = vnacal_create(errfn, NULL);
    vnacal_new_t *vnp = vnacal_new_alloc(vcp, VNACAL_T8, 2, 2, 1);
    double f[1] = { 1.0e9 };
    double complex m11[1], m12[1], m21[1], m22[1];
    double complex *m[4] = { m11, m12, m21, m22 };
    int rc;

    vnacal_new_set_frequency_vector(vnp, f);
    if (with_rejected_add) {
	int guess   = vnacal_make_scalar_parameter(vcp, 0.3);
	int unknown = vnacal_make_unknown_parameter(vcp, guess);

	/* s22 handle 12345 does not exist: the call must be refused and
	   must add nothing */
	m11[0] = 0.3; m12[0] = 0.0; m21[0] = 0.0; m22[0] = 0.3;
	rc = vnacal_new_add_double_reflect_m(vnp, m, 2, 2, unknown, 12345,
		1, 2);
	printf("   add_double_reflect_m(s11=unknown, s22=<invalid handle>) "
		"-> %d\n", rc);
    }

    /* a sufficient set of fully known standards (perfect VNA, M == S):
       through (4 equations) + match/match (2) + short on port 1 (1)
       = 7 equations for the 7 unknown T8 error terms */
    m11[0] = 0.0; m12[0] = 1.0; m21[0] = 1.0; m22[0] = 0.0;
    rc = vnacal_new_add_through_m(vnp, m, 2, 2, 1, 2);
    m11[0] = 0.0; m12[0] = 0.0; m21[0] = 0.0; m22[0] = 0.0;
    rc |= vnacal_new_add_double_reflect_m(vnp, m, 2, 2,
	    VNACAL_MATCH, VNACAL_MATCH, 1, 2);
    m11[0] = -1.0;
    rc |= vnacal_new_add_single_reflect_m(vnp, m, 1, 1, VNACAL_SHORT, 1);
    printf("   three valid adds -> %d\n", rc);

    errno = 0;
    rc = vnacal_new_solve(vnp);
    printf("   vnacal_new_solve -> %d (errno %s)\n", rc, strerror(errno));
    vnacal_new_free(vnp);
    vnacal_free(vcp);
    return rc;
}

int main(void)
{
    int rc1, rc2;

    setvbuf(stdout, NULL, _IONBF, 0);
    printf("history A: only the three valid standards\n");
    rc1 = run(0);
    printf("history B: one refused add first, then the same three standards\n");
    rc2 = run(1);
    if (rc1 == 0 && rc2 != 0) {
	printf("DEFECT: the refused add changed the object: the same standards "
		"no longer solve\n");
    }
    return 0;
}

/*
 * Defect 9: vnacal_new_set_m_error() reads outside the calibration frequency
 * vector when the vnacal_new_t was allocated with zero frequencies (which
 * vnacal_new_alloc() and vnacal_new_set_frequency_vector() both accept):
 *     fmin = vnp->vn_frequency_vector[0];
 *     fmax = vnp->vn_frequency_vector[vnp->vn_frequencies - 1];   index -1
 */
#include <complex.h>
#include <errno.h>
#include <stdio.h>
#include <stdlib.h>
#include <string.h>
#include <vnacal.h>

static void errfn(const char *msg, void *arg, vnaerr_category_t cat)
{
    (void)arg;
    fprintf(stderr, "   libvna error (category %d): %s\n", (int)cat, msg);
}

int main(void)
{
    vnacal_t *vcp;
    vnacal_new_t *vnp;
    double f[1] = { 1.0e9 };			/* never read: 0 frequencies */
    double noise_f[2] = { 1.0e9, 2.0e9 };
    double sigma_nf[2] = { 1.0e-3, 1.0e-3 };
    int rc;

    setvbuf(stdout, NULL, _IONBF, 0);
    vcp = vnacal_create(errfn, NULL);
    vnp = vnacal_new_alloc(vcp, VNACAL_T8, 1, 1, /*frequencies*/0);
    printf("vnacal_new_alloc(frequencies=0) -> %s\n",
	    vnp != NULL ? "ok" : "NULL");
    rc = vnacal_new_set_frequency_vector(vnp, f);
    printf("vnacal_new_set_frequency_vector -> %d\n", rc);
    errno = 0;
    rc = vnacal_new_set_m_error(vnp, noise_f, 2, sigma_nf, NULL);
    printf("vnacal_new_set_m_error -> %d (errno %s)\n", rc, strerror(errno));
    vnacal_new_free(vnp);
    vnacal_free(vcp);
    return 0;
}

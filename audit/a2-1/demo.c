/*
 * Defect 1: NPD loader crashes on a "#:parameters" line that has no argument.
 *
 * scan_line() unconditionally forces nss_field_count = 2 for a #:parameters
 * record, even when only the keyword field was scanned.  _vnadata_load_npd()
 * then believes an argument is present and passes FIELD(&nss, 1) -- computed
 * from the never-written nss_fields[1] slot of a freshly realloc'ed (i.e.
 * uninitialised) index array -- to vnadata_set_format(), which calls strlen()
 * on a wild pointer.
 */
#include <stdio.h>
#include <stdlib.h>
#include <string.h>
#include <errno.h>
#include <vnadata.h>

static void error_fn(const char *msg, void *arg, vnaerr_category_t category)
{
    printf("error_fn[category %d]: %s\n", (int)category, msg);
}

int main(void)
{
    const char *filename = "/tmp/au_2/out/1/bad.npd";
    FILE *fp;
    vnadata_t *vdp;
    int rc;

    setvbuf(stdout, NULL, _IONBF, 0);

    /* a 13 byte file */
    fp = fopen(filename, "w");
    fputs("#:parameters\n", fp);
    fclose(fp);

    vdp = vnadata_alloc(error_fn, NULL);
    errno = 0;
    rc = vnadata_load(vdp, filename);	/* expected: -1, EBADMSG, one message */
    printf("vnadata_load returned %d errno=%d (%s)\n", rc, errno,
	    strerror(errno));
    printf("EXPECTED: rc=-1 errno=EBADMSG with a single syntax error "
	    "(\"at least one argument expected after #:parameters\")\n");
    vnadata_free(vdp);
    return 0;
}

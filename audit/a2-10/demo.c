/*
 * Defect 10: the valid range of fprecision/dprecision is not enforced
 * consistently.
 *  (a) vnadata_set_dprecision()/vnadata_set_fprecision() accept any value >= 1,
 *      but the NPD loader refuses "#:dprecision"/"#:fprecision" > 1000:
 *      a file vnadata_save() wrote cannot be loaded.
 *  (b) the NPD loader accepts "#:fprecision 0" although the API refuses 0:
 *      the loaded object can then not be converted out of place or saved
 *      through any path that copies it (vnadata_convert calls
 *      vnadata_set_fprecision(copy, 0), which fails).
 *  (c) print_value() sizes two VLAs by the precision, so a large accepted
 *      value overflows the stack in vnadata_save()   (run: ./demo crash).
 */
#include <stdio.h>
#include <stdlib.h>
#include <string.h>
#include <errno.h>
#include <complex.h>
#include <vnadata.h>

static void error_fn(const char *msg, void *arg, vnaerr_category_t category)
{
    printf("   error_fn[category %d]: %s\n", (int)category, msg);
}

int main(int argc, char **argv)
{
    vnadata_t *vdp, *vdp2;
    int rc, bad = 0;
    FILE *fp;

    setvbuf(stdout, NULL, _IONBF, 0);
    vdp = vnadata_alloc_and_init(error_fn, NULL, VPT_S, 1, 1, 1);
    vnadata_set_frequency(vdp, 0, 1e9);
    vnadata_set_cell(vdp, 0, 0, 0, 0.5 + 0.25 * I);

    if (argc > 1 && strcmp(argv[1], "crash") == 0) {
	rc = vnadata_set_dprecision(vdp, 100000000);
	printf("vnadata_set_dprecision(100000000) -> %d\n", rc);
	rc = vnadata_save(vdp, "/tmp/au_2/out/10/crash.npd");	/* SEGV */
	printf("vnadata_save -> %d\n", rc);
	return 0;
    }

    /* (a) */
    rc = vnadata_set_dprecision(vdp, 1001);
    printf("(a) vnadata_set_dprecision(1001) -> %d\n", rc);
    rc = vnadata_cksave(vdp, "/tmp/au_2/out/10/p1001.npd");
    printf("    vnadata_cksave -> %d\n", rc);
    rc = vnadata_save(vdp, "/tmp/au_2/out/10/p1001.npd");
    printf("    vnadata_save   -> %d\n", rc);
    vdp2 = vnadata_alloc(error_fn, NULL);
    rc = vnadata_load(vdp2, "/tmp/au_2/out/10/p1001.npd");
    printf("    vnadata_load of the file just written -> %d (expected 0)\n", rc);
    if (rc != 0)
	++bad;
    vnadata_free(vdp2);
    vnadata_free(vdp);

    /* (b) */
    fp = fopen("/tmp/au_2/out/10/p0.npd", "w");
    fputs("#NPD\n#:version 1.0\n#:ports 1\n#:frequencies 1\n#:parameters Sri\n"
	  "#:z0 50 +0j\n#:fprecision 0\n#:dprecision 6\n1e9 0.5 0.25\n", fp);
    fclose(fp);
    vdp = vnadata_alloc(error_fn, NULL);
    rc = vnadata_load(vdp, "/tmp/au_2/out/10/p0.npd");
    printf("(b) vnadata_load(\"#:fprecision 0\") -> %d, fprecision now %d\n", rc,
	    vnadata_get_fprecision(vdp));
    vdp2 = vnadata_alloc(error_fn, NULL);
    rc = vnadata_convert(vdp, vdp2, VPT_Z);
    printf("    vnadata_convert(loaded, other, VPT_Z) -> %d (expected 0)\n", rc);
    if (rc != 0)
	++bad;
    rc = vnadata_set_format(vdp, "Zri");
    rc = vnadata_save(vdp, "/tmp/au_2/out/10/p0out.npd");
    printf("    vnadata_save(loaded, format Zri) -> %d (expected 0)\n", rc);
    if (rc != 0)
	++bad;
    vnadata_free(vdp2);
    vnadata_free(vdp);
    printf("%s\n", bad ? "FAIL" : "ok");
    return bad != 0;
}

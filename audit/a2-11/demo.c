/*
 * Defect 11: saving Z (Y, H, G) data to Touchstone 1 with a format that names
 * only the coordinates ("ri", "ma", "dB" - documented as "take the parameter
 * type from the vnadata_t structure") writes S-parameters instead whenever
 * z0 != 1, because the untyped format is resolved against the temporary,
 * impedance-normalised S copy rather than against the caller's object.
 * The same object saved with z0 == 1, or as Touchstone 2, or as NPD, or with
 * no format at all, is written as Z.
 */
#include <stdio.h>
#include <stdlib.h>
#include <string.h>
#include <errno.h>
#include <complex.h>
#include <vnadata.h>

static void error_fn(const char *msg, void *arg, vnaerr_category_t category)
{
    printf("   error_fn[category %d]: %s\n", (int)category, msg);
}

static int save_and_reload(const char *format, double z0, const char *filename)
{
    vnadata_t *vdp = vnadata_alloc_and_init(error_fn, NULL, VPT_Z, 2, 2, 1);
    vnadata_t *back = vnadata_alloc(error_fn, NULL);
    char line[256];
    FILE *fp;
    int type = -1;

    vnadata_set_frequency(vdp, 0, 1e9);
    for (int i = 0; i < 4; ++i)
	vnadata_get_matrix(vdp, 0)[i] = 10.0 * (i + 1);
    vnadata_set_all_z0(vdp, z0);
    if (format != NULL)
	vnadata_set_format(vdp, format);
    if (vnadata_save(vdp, filename) == -1)
	return -1;
    fp = fopen(filename, "r");
    while (fgets(line, sizeof(line), fp) != NULL) {
	if (line[0] == '#' && line[1] == ' ')
	    break;
	if (strncmp(line, "#:parameters", 12) == 0)
	    break;
    }
    fclose(fp);
    line[strcspn(line, "\n")] = '\000';
    if (vnadata_load(back, filename) == 0)
	type = vnadata_get_type(back);
    printf("Z data, z0=%-3g format=%-6s %-28s header \"%s\" -> reloads as %s\n",
	    z0, format ? format : "(none)", strrchr(filename, '/') + 1, line,
	    vnadata_get_type_name(type));
    vnadata_free(vdp);
    vnadata_free(back);
    return type;
}

int main(void)
{
    int t;

    setvbuf(stdout, NULL, _IONBF, 0);
    (void)save_and_reload(NULL, 75.0, "/tmp/au_2/out/11/none75.s2p");
    (void)save_and_reload("ri", 1.0,  "/tmp/au_2/out/11/ri1.s2p");
    (void)save_and_reload("ri", 75.0, "/tmp/au_2/out/11/ri75.ts");
    (void)save_and_reload("ri", 75.0, "/tmp/au_2/out/11/ri75.npd");
    t = save_and_reload("ri", 75.0,   "/tmp/au_2/out/11/ri75.s2p");
    if (t != VPT_Z) {
	printf("FAIL: the Z-parameter object was written as %s parameters\n",
		vnadata_get_type_name(t));
	return 1;
    }
    printf("ok\n");
    return 0;
}

/*
 * Defect 12: a Touchstone 1 file whose first data line has exactly five
 * fields is treated as "noise data only": load_touchstone1() jumps to
 * parse_noise_data before vnadata_init() was ever called and the loader
 * returns SUCCESS without reshaping the object.  The caller is left with the
 * previous contents (here a 3x3 Z matrix at 2 frequencies) now labelled with
 * the new file's file type and format.
 */
#include <stdio.h>
#include <stdlib.h>
#include <string.h>
#include <errno.h>
#include <complex.h>
#include <vnadata.h>

static void error_fn(const char *msg, void *arg, vnaerr_category_t category)
{
    printf("   error_fn[category %d]: %s\n", (int)category, msg);
}

int main(void)
{
    const char *filename = "/tmp/au_2/out/12/trunc.s2p";
    FILE *fp = fopen(filename, "w");
    vnadata_t *vdp;
    int rc;

    setvbuf(stdout, NULL, _IONBF, 0);
    /* a 2-port file truncated in the middle of its first data line */
    fputs("# Hz S RI R 50\n1e9 0.1 0.2 0.3 0.4\n", fp);
    fclose(fp);

    /* fresh object */
    vdp = vnadata_alloc(error_fn, NULL);
    errno = 0;
    rc = vnadata_load(vdp, filename);
    printf("fresh object : vnadata_load -> %d errno=%d; type=%s %dx%d, "
	    "%d frequencies, format=%s\n", rc, errno,
	    vnadata_get_type_name(vnadata_get_type(vdp)),
	    vnadata_get_rows(vdp), vnadata_get_columns(vdp),
	    vnadata_get_frequencies(vdp), vnadata_get_format(vdp));
    vnadata_free(vdp);

    /* object with earlier contents */
    vdp = vnadata_alloc_and_init(error_fn, NULL, VPT_Z, 3, 3, 2);
    vnadata_set_cell(vdp, 0, 0, 0, 123.0);
    errno = 0;
    rc = vnadata_load(vdp, filename);
    printf("reused object: vnadata_load -> %d errno=%d; type=%s %dx%d, "
	    "%d frequencies, format=%s, cell[0][0,0]=%g\n", rc, errno,
	    vnadata_get_type_name(vnadata_get_type(vdp)),
	    vnadata_get_rows(vdp), vnadata_get_columns(vdp),
	    vnadata_get_frequencies(vdp), vnadata_get_format(vdp),
	    creal(vnadata_get_cell(vdp, 0, 0, 0)));
    printf("expected     : -1 / EBADMSG (no network data), or at least an object "
	    "reshaped to what the file contains\n");
    vnadata_free(vdp);
    return rc == 0;
}

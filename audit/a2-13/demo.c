/*
 * Defect 13: a refused vnadata_cksave()/vnadata_save() modifies the object.
 * The file type deduced from the file name and the default format are stored
 * in the vnadata_t *before* the argument checks that then refuse the call.
 * Because the stored file type is used for later file names without a
 * recognised extension, the refused call changes what a later, valid call
 * does.
 */
#include <stdio.h>
#include <stdlib.h>
#include <string.h>
#include <errno.h>
#include <complex.h>
#include <vnadata.h>

static void error_fn(const char *msg, void *arg, vnaerr_category_t category)
{
    printf("   error_fn[category %d]: %s\n", (int)category, msg);
}

static vnadata_t *make(void)
{
    vnadata_t *vdp = vnadata_alloc_and_init(error_fn, NULL, VPT_T, 2, 2, 1);
    static const double complex t[4] = { 1.0, 0.1, 0.2, 0.9 };

    vnadata_set_frequency(vdp, 0, 1e9);
    vnadata_set_matrix(vdp, 0, t);
    return vdp;
}

int main(void)
{
    vnadata_t *a = make(), *b = make();
    int rc, rca, rcb, bad = 0;

    setvbuf(stdout, NULL, _IONBF, 0);
    printf("before: filetype=%d format=%s\n", (int)vnadata_get_filetype(a),
	    vnadata_get_format(a) ? vnadata_get_format(a) : "NULL");
    /* T parameters cannot be stored in Touchstone: refused for its arguments */
    rc = vnadata_cksave(a, "/tmp/au_2/out/13/x.s2p");
    printf("vnadata_cksave(T data, \"x.s2p\") -> %d\n", rc);
    printf("after : filetype=%d format=%s   (expected unchanged: 0 / NULL)\n",
	    (int)vnadata_get_filetype(a),
	    vnadata_get_format(a) ? vnadata_get_format(a) : "NULL");
    if (vnadata_get_filetype(a) != VNADATA_FILETYPE_AUTO ||
	    vnadata_get_format(a) != NULL)
	++bad;

    /* consequence: identical later call behaves differently on a and b */
    rca = vnadata_save(a, "/tmp/au_2/out/13/out_a");
    rcb = vnadata_save(b, "/tmp/au_2/out/13/out_b");
    printf("vnadata_save(\"out_a\") on the object that saw the refused call -> %d\n",
	    rca);
    printf("vnadata_save(\"out_b\") on an identical untouched object        -> %d\n",
	    rcb);
    if (rca != rcb)
	++bad;
    vnadata_free(a);
    vnadata_free(b);
    printf("%s\n", bad ? "FAIL" : "ok");
    return bad != 0;
}

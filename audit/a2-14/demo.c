/*
 * Defect 14: vnadata_init() refused for its arguments destroys the object.
 * vnadata_init() first resizes the object to 0x0x0/VPT_UNDEF and resets z0,
 * and only then lets vnadata_resize() validate type/rows/columns/frequencies.
 * (vnadata_resize() and vnadata_set_type() with the same invalid arguments
 * leave the object alone.)
 */
#include <stdio.h>
#include <stdlib.h>
#include <string.h>
#include <errno.h>
#include <complex.h>
#include <vnadata.h>

static void error_fn(const char *msg, void *arg, vnaerr_category_t category)
{
    printf("   error_fn[category %d]: %s\n", (int)category, msg);
}

static void show(const char *when, vnadata_t *vdp)
{
    printf("%s: type=%s %dx%d, %d frequencies", when,
	    vnadata_get_type_name(vnadata_get_type(vdp)), vnadata_get_rows(vdp),
	    vnadata_get_columns(vdp), vnadata_get_frequencies(vdp));
    if (vnadata_get_frequencies(vdp) > 0 && vnadata_get_rows(vdp) > 0) {
	printf(", f[0]=%g, cell[0][0,0]=%g, z0[0]=%g",
		vnadata_get_frequency(vdp, 0),
		creal(vnadata_get_cell(vdp, 0, 0, 0)),
		creal(vnadata_get_z0(vdp, 0)));
    }
    printf("\n");
}

int main(void)
{
    vnadata_t *vdp = vnadata_alloc_and_init(error_fn, NULL, VPT_S, 2, 2, 2);
    int rc;

    setvbuf(stdout, NULL, _IONBF, 0);
    vnadata_set_frequency(vdp, 0, 1e9);
    vnadata_set_frequency(vdp, 1, 2e9);
    vnadata_set_cell(vdp, 0, 0, 0, 0.5);
    vnadata_set_all_z0(vdp, 75.0);
    show("before                        ", vdp);

    rc = vnadata_resize(vdp, VPT_T, 3, 3, 2);	/* invalid: T must be 2x2 */
    printf("vnadata_resize(T, 3x3) -> %d\n", rc);
    show("after refused vnadata_resize  ", vdp);

    rc = vnadata_init(vdp, VPT_T, 3, 3, 2);	/* same invalid arguments */
    printf("vnadata_init(T, 3x3)   -> %d\n", rc);
    show("after refused vnadata_init    ", vdp);

    rc = (vnadata_get_rows(vdp) != 2 || vnadata_get_frequencies(vdp) != 2);
    printf("%s\n", rc ? "FAIL: refused call modified the object" : "ok");
    vnadata_free(vdp);
    return rc;
}

/*
 * Defect 15: a malformed "#:parameters" value in an NPD *file* is reported
 * as an API usage error: category VNAERR_USAGE, errno EINVAL, and a message
 * without file name or line number, because _vnadata_load_npd() hands the
 * text straight to the public vnadata_set_format().
 */
#include <stdio.h>
#include <stdlib.h>
#include <string.h>
#include <errno.h>
#include <vnadata.h>

static vnaerr_category_t last_category;
static void error_fn(const char *msg, void *arg, vnaerr_category_t category)
{
    last_category = category;
    printf("   error_fn[category %d]: %s\n", (int)category, msg);
}

int main(void)
{
    const char *filename = "/tmp/au_2/out/15/badfmt.npd";
    FILE *fp = fopen(filename, "w");
    vnadata_t *vdp = vnadata_alloc(error_fn, NULL);
    int rc;

    setvbuf(stdout, NULL, _IONBF, 0);
    fputs("#NPD\n#:version 1.0\n#:ports 1\n#:frequencies 1\n"
	  "#:parameters Sxy\n#:z0 50 +0j\n1e9 0.5 0.1\n", fp);
    fclose(fp);
    errno = 0;
    rc = vnadata_load(vdp, filename);
    printf("vnadata_load -> %d errno=%d (%s) category=%d\n", rc, errno,
	    strerror(errno), (int)last_category);
    printf("expected     -> -1 errno=%d (EBADMSG) category=%d (VNAERR_SYNTAX), "
	    "message \"badfmt.npd (line 5) error: ...\"\n", EBADMSG,
	    (int)VNAERR_SYNTAX);
    vnadata_free(vdp);
    return !(rc == -1 && errno == EBADMSG);
}

/*
 * Defect 2: rows * columns overflows int in vnadata_resize(); the matrix
 * allocation is skipped, vd_data[findex] stays NULL and the first cell
 * access crashes.  Reachable through the public API and through a ~120 byte
 * Touchstone 2 file.
 */
#include <stdio.h>
#include <stdlib.h>
#include <string.h>
#include <errno.h>
#include <complex.h>
#include <vnadata.h>

static void error_fn(const char *msg, void *arg, vnaerr_category_t category)
{
    printf("error_fn[category %d]: %s\n", (int)category, msg);
}

int main(int argc, char **argv)
{
    vnadata_t *vdp = vnadata_alloc(error_fn, NULL);
    int rc;

    setvbuf(stdout, NULL, _IONBF, 0);

    if (argc > 1 && strcmp(argv[1], "api") == 0) {
	/* variant A: public API only */
	rc = vnadata_init(vdp, VPT_S, 65536, 65536, 1);
	printf("vnadata_init(S, 65536 x 65536, 1 frequency) returned %d "
		"(rows=%d columns=%d)\n", rc,
		vnadata_get_rows(vdp), vnadata_get_columns(vdp));
	printf("vnadata_get_matrix(vdp, 0) = %p\n",
		(void *)vnadata_get_matrix(vdp, 0));
	rc = vnadata_set_cell(vdp, 0, 0, 0, 1.0);	/* in range -> SEGV */
	printf("vnadata_set_cell returned %d\n", rc);
    } else {
	/* variant B: a tiny Touchstone 2 file */
	const char *filename = "/tmp/au_2/out/2/big.ts";
	FILE *fp = fopen(filename, "w");

	fputs("[Version] 2.0\n"
	      "# Hz S RI R 50\n"
	      "[Number of Ports] 65536\n"
	      "[Number of Frequencies] 1\n"
	      "[Network Data]\n"
	      "1e9 0.5 0.1\n"
	      "[End]\n", fp);
	fclose(fp);
	errno = 0;
	rc = vnadata_load(vdp, filename);
	printf("vnadata_load returned %d errno=%d\n", rc, errno);
    }
    printf("EXPECTED: a clean -1 (ENOMEM / EINVAL / EBADMSG), not a crash\n");
    vnadata_free(vdp);
    return 0;
}

/*
 * Defect 3: switching to per-frequency z0 copies the ordinary z0 vector into
 * the *hidden* (allocated but not visible) frequency rows, so a later
 * resize / add_frequency exposes non-default impedances.  Two objects with
 * identical visible state answer differently depending on allocation history.
 */
#include <stdio.h>
#include <stdlib.h>
#include <complex.h>
#include <vnadata.h>

static void error_fn(const char *msg, void *arg, vnaerr_category_t category)
{
    printf("error_fn[category %d]: %s\n", (int)category, msg);
}

static void show(const char *name, vnadata_t *vdp)
{
    printf("%s: %d frequencies, has_fz0=%d\n", name,
	    vnadata_get_frequencies(vdp), (int)vnadata_has_fz0(vdp));
    for (int f = 0; f < vnadata_get_frequencies(vdp); ++f) {
	printf("   findex %d: z0 = %g, %g\n", f,
		creal(vnadata_get_fz0(vdp, f, 0)),
		creal(vnadata_get_fz0(vdp, f, 1)));
    }
}

int main(void)
{
    vnadata_t *a = vnadata_alloc(error_fn, NULL);
    vnadata_t *b = vnadata_alloc(error_fn, NULL);
    int bad = 0;

    setvbuf(stdout, NULL, _IONBF, 0);

    /* A: once had 3 frequencies, shrunk to 1 (allocation stays at 3) */
    vnadata_init(a, VPT_S, 2, 2, 3);
    vnadata_resize(a, VPT_S, 2, 2, 1);
    /* B: always had 1 frequency */
    vnadata_init(b, VPT_S, 2, 2, 1);

    /* identical visible state from here on */
    vnadata_set_all_z0(a, 75.0);
    vnadata_set_all_z0(b, 75.0);
    vnadata_set_fz0(a, 0, 0, 10.0);	/* switches to per-frequency mode */
    vnadata_set_fz0(b, 0, 0, 10.0);
    show("A before grow", a);
    show("B before grow", b);

    /* grow both to 3 frequencies: new rows must hold the initial 50 ohms */
    vnadata_resize(a, VPT_S, 2, 2, 3);
    vnadata_resize(b, VPT_S, 2, 2, 3);
    show("A after grow ", a);
    show("B after grow ", b);
    for (int f = 1; f < 3; ++f) {
	for (int p = 0; p < 2; ++p) {
	    if (vnadata_get_fz0(a, f, p) != VNADATA_DEFAULT_Z0) {
		printf("DEFECT: A newly exposed fz0[%d][%d] = %g, expected 50\n",
			f, p, creal(vnadata_get_fz0(a, f, p)));
		++bad;
	    }
	    if (vnadata_get_fz0(a, f, p) != vnadata_get_fz0(b, f, p)) {
		++bad;
	    }
	}
    }

    /* same thing through vnadata_add_frequency (allocates 50 rows at once) */
    {
	vnadata_t *c = vnadata_alloc(error_fn, NULL);

	vnadata_init(c, VPT_S, 1, 1, 0);
	vnadata_add_frequency(c, 1e9);
	vnadata_set_all_z0(c, 75.0);
	vnadata_set_fz0(c, 0, 0, 10.0);
	vnadata_add_frequency(c, 2e9);
	printf("C after add_frequency: fz0[1][0] = %g (expected 50)\n",
		creal(vnadata_get_fz0(c, 1, 0)));
	if (vnadata_get_fz0(c, 1, 0) != VNADATA_DEFAULT_Z0)
	    ++bad;
	vnadata_free(c);
    }
    printf("%s\n", bad ? "FAIL: stale impedances exposed" : "ok");
    vnadata_free(a);
    vnadata_free(b);
    return bad != 0;
}

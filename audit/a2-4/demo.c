/*
 * Defect 4: NPD "#:parameters" with blank-separated specifiers.  scan_line()
 * is meant to join the specifier fields with commas, but the join loop starts
 * at field 3 instead of field 2, so everything after the first specifier is
 * silently dropped and the (perfectly consistent) data lines are refused.
 */
#include <stdio.h>
#include <stdlib.h>
#include <string.h>
#include <errno.h>
#include <complex.h>
#include <vnadata.h>

static void error_fn(const char *msg, void *arg, vnaerr_category_t category)
{
    printf("   error_fn[category %d]: %s\n", (int)category, msg);
}

static int try(const char *title, const char *parameters)
{
    const char *filename = "/tmp/au_2/out/4/p.npd";
    FILE *fp = fopen(filename, "w");
    vnadata_t *vdp = vnadata_alloc(error_fn, NULL);
    int rc;

    fprintf(fp, "#NPD\n#:version 1.0\n#:ports 1\n#:frequencies 1\n"
	    "#:parameters %s\n#:z0 50 +0j\n"
	    "1e9  0.5 0.1  150 10  0.001 0.002\n", parameters);
    fclose(fp);
    errno = 0;
    rc = vnadata_load(vdp, filename);
    printf("%-28s \"#:parameters %s\": rc=%d errno=%d format=\"%s\"\n",
	    title, parameters, rc, errno,
	    vnadata_get_format(vdp) ? vnadata_get_format(vdp) : "(null)");
    if (rc == 0) {
	printf("   S11 = %g%+gj\n", creal(vnadata_get_cell(vdp, 0, 0, 0)),
		cimag(vnadata_get_cell(vdp, 0, 0, 0)));
    }
    vnadata_free(vdp);
    return rc;
}

int main(void)
{
    int rc1 = try("comma separated:", "Sri,Zri,Yri");
    int rc2 = try("blank separated:", "Sri Zri Yri");
    int rc3 = try("comma + blank separated:", "Sri, Zri, Yri");

    setvbuf(stdout, NULL, _IONBF, 0);

    if (rc1 == 0 && (rc2 != 0 || rc3 != 0)) {
	printf("FAIL: equivalent spelling of the parameter list refused\n");
	return 1;
    }
    return 0;
}

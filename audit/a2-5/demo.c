/*
 * Defect 5: a single allocation failure inside _vnadata_update_format_string()
 * leaves the object half-built: the new format vector is installed
 * (vdi_format_count == 1) but vdi_format_string is NULL.  Repeating the work
 * without the fault does not recover: vnadata_save() to NPD writes
 * "#:parameters (null)" (a file the loader refuses) and vnadata_save() to
 * Touchstone 1 dies on assert(vdip->vdi_format_count == 1).
 *
 * Link with -Wl,--wrap=malloc,--wrap=calloc,--wrap=realloc
 */
#include <stdio.h>
#include <stdlib.h>
#include <string.h>
#include <errno.h>
#include <complex.h>
#include <vnadata.h>

extern void *__real_malloc(size_t);
extern void *__real_calloc(size_t, size_t);
extern void *__real_realloc(void *, size_t);
static int armed, countdown;
static int fail_now(void)
{
    if (armed && countdown > 0 && --countdown == 0) {
	errno = ENOMEM;
	return 1;
    }
    return 0;
}
void *__wrap_malloc(size_t n)           { return fail_now() ? NULL : __real_malloc(n); }
void *__wrap_calloc(size_t a, size_t b) { return fail_now() ? NULL : __real_calloc(a, b); }
void *__wrap_realloc(void *p, size_t n) { return fail_now() ? NULL : __real_realloc(p, n); }

static void error_fn(const char *msg, void *arg, vnaerr_category_t category)
{
    printf("   error_fn[category %d]: %s\n", (int)category, msg);
}

int main(void)
{
    vnadata_t *vdp, *vdp2;
    int rc;
    char line[256];
    FILE *fp;

    setvbuf(stdout, NULL, _IONBF, 0);
    vdp = vnadata_alloc_and_init(error_fn, NULL, VPT_Z, 2, 2, 1);
    vnadata_set_frequency(vdp, 0, 1e9);
    for (int i = 0; i < 4; ++i)
	vnadata_get_matrix(vdp, 0)[i] = 10.0 * (i + 1);
    vnadata_set_all_z0(vdp, 75.0);

    /* fail the 3rd allocation of vnadata_set_format: the format string */
    armed = 1; countdown = 3; errno = 0;
    rc = vnadata_set_format(vdp, "Zri");
    armed = 0;
    printf("vnadata_set_format with 3rd allocation failing: rc=%d errno=%d (%s)\n",
	    rc, errno, strerror(errno));
    printf("vnadata_get_format -> %s\n",
	    vnadata_get_format(vdp) ? vnadata_get_format(vdp) : "NULL");

    /* no more faults from here on */
    rc = vnadata_save(vdp, "/tmp/au_2/out/5/after.npd");
    printf("vnadata_save(after.npd) rc=%d; parameters line written:\n", rc);
    fp = fopen("/tmp/au_2/out/5/after.npd", "r");
    while (fp != NULL && fgets(line, sizeof(line), fp) != NULL) {
	if (strncmp(line, "#:parameters", 12) == 0)
	    printf("   %s", line);
    }
    if (fp != NULL)
	fclose(fp);
    vdp2 = vnadata_alloc(error_fn, NULL);
    rc = vnadata_load(vdp2, "/tmp/au_2/out/5/after.npd");
    printf("vnadata_load(after.npd) rc=%d   (expected 0)\n", rc);
    vnadata_free(vdp2);

    printf("now vnadata_save(after.s2p), no fault injected: expected rc=0 ...\n");
    rc = vnadata_save(vdp, "/tmp/au_2/out/5/after.s2p");	/* abort() */
    printf("vnadata_save(after.s2p) rc=%d\n", rc);
    vnadata_free(vdp);
    return 0;
}

/*
 * Defect 6: vnadata_cksave() accepts format/dimension combinations that
 * vnadata_save()/vnadata_fsave() then refuse: two-port-only parameter types
 * (T, U, H, G, A, B) requested for data that is not 2x2.
 */
#include <stdio.h>
#include <stdlib.h>
#include <string.h>
#include <errno.h>
#include <complex.h>
#include <vnadata.h>

static void error_fn(const char *msg, void *arg, vnaerr_category_t category)
{
    printf("      error_fn[category %d]: %s\n", (int)category, msg);
}

int main(void)
{
    static const struct { const char *format, *filename; } cases[] = {
	{ "Hri", "/tmp/au_2/out/6/x.ts"  },
	{ "Gma", "/tmp/au_2/out/6/x.s3p" },
	{ "Tri", "/tmp/au_2/out/6/x.npd" },
	{ "Sri,Ari", "/tmp/au_2/out/6/x.npd" },
    };
    int bad = 0;

    setvbuf(stdout, NULL, _IONBF, 0);
    for (int i = 0; i < 4; ++i) {
	vnadata_t *vdp = vnadata_alloc_and_init(error_fn, NULL, VPT_S, 3, 3, 2);
	int ck, sv;

	for (int f = 0; f < 2; ++f) {
	    vnadata_set_frequency(vdp, f, 1e9 * (f + 1));
	    for (int k = 0; k < 9; ++k)
		vnadata_get_matrix(vdp, f)[k] = 0.1 * (k + 1) + 0.01 * I;
	}
	vnadata_set_format(vdp, cases[i].format);
	printf("3x3 S data, format \"%s\", file %s\n", cases[i].format,
		cases[i].filename);
	ck = vnadata_cksave(vdp, cases[i].filename);
	printf("   vnadata_cksave -> %d\n", ck);
	sv = vnadata_save(vdp, cases[i].filename);
	printf("   vnadata_save   -> %d\n", sv);
	if (ck != sv) {
	    printf("   MISMATCH: cksave said %s but save %s\n",
		    ck == 0 ? "OK" : "no", sv == 0 ? "succeeded" : "failed");
	    ++bad;
	}
	vnadata_free(vdp);
    }
    printf("%s\n", bad ? "FAIL" : "ok");
    return bad != 0;
}

/*
 * Defect 7: the Touchstone 1 loader does not validate the sign of the
 * frequency.  A negative frequency is caught only by vnadata_add_frequency(),
 * which reports a *usage* error (EINVAL); the loader then reports a second,
 * bogus "realloc: Invalid argument" system error.  The same data in
 * Touchstone 2 framing is accepted silently (frequency -1 Hz stored).
 */
#include <stdio.h>
#include <stdlib.h>
#include <string.h>
#include <errno.h>
#include <complex.h>
#include <vnadata.h>

static int n_errors;
static void error_fn(const char *msg, void *arg, vnaerr_category_t category)
{
    ++n_errors;
    printf("   error_fn[category %d]: %s\n", (int)category, msg);
}

static void put(const char *filename, const char *text)
{
    FILE *fp = fopen(filename, "w");
    fputs(text, fp);
    fclose(fp);
}

int main(void)
{
    vnadata_t *vdp;
    int rc, bad = 0;

    setvbuf(stdout, NULL, _IONBF, 0);
    put("/tmp/au_2/out/7/neg.s1p", "# Hz S RI R 50\n-1 0.5 0.1\n");
    put("/tmp/au_2/out/7/neg.ts",
	    "[Version] 2.0\n# Hz S RI R 50\n[Number of Ports] 1\n"
	    "[Number of Frequencies] 1\n[Network Data]\n-1 0.5 0.1\n[End]\n");

    vdp = vnadata_alloc(error_fn, NULL);
    n_errors = 0; errno = 0;
    rc = vnadata_load(vdp, "/tmp/au_2/out/7/neg.s1p");
    printf("Touchstone 1: rc=%d errno=%d (%s), error_fn called %d time(s)\n",
	    rc, errno, strerror(errno), n_errors);
    printf("   expected: rc=-1 errno=%d (EBADMSG), exactly 1 syntax message "
	    "naming file and line\n", EBADMSG);
    if (rc != -1 || errno != EBADMSG || n_errors != 1)
	++bad;
    vnadata_free(vdp);

    vdp = vnadata_alloc(error_fn, NULL);
    n_errors = 0; errno = 0;
    rc = vnadata_load(vdp, "/tmp/au_2/out/7/neg.ts");
    printf("Touchstone 2: rc=%d errno=%d, error_fn called %d time(s)", rc,
	    errno, n_errors);
    if (rc == 0) {
	printf(", loaded frequency[0] = %g Hz\n", vnadata_get_frequency(vdp, 0));
	printf("   (same data, other framing: accepted -> V1 and V2 disagree)\n");
	++bad;
    } else {
	printf("\n");
    }
    vnadata_free(vdp);
    printf("%s\n", bad ? "FAIL" : "ok");
    return bad != 0;
}

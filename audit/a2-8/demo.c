/*
 * Defect 8: when an allocation made on behalf of the Touchstone loader fails
 * inside vnadata_init(), vnadata_add_frequency() or
 * _vnadata_set_simple_format(), the callee has already reported the error and
 * the loader reports it a second time.  One failure -> two calls of the
 * user's error function.
 *
 * Link with -Wl,--wrap=malloc,--wrap=calloc,--wrap=realloc
 */
#include <stdio.h>
#include <stdlib.h>
#include <string.h>
#include <errno.h>
#include <complex.h>
#include <vnadata.h>

extern void *__real_malloc(size_t);
extern void *__real_calloc(size_t, size_t);
extern void *__real_realloc(void *, size_t);
static int armed, countdown, count;
static int fail_now(void)
{
    if (!armed)
	return 0;
    ++count;
    if (countdown > 0 && --countdown == 0) {
	errno = ENOMEM;
	return 1;
    }
    return 0;
}
void *__wrap_malloc(size_t n)           { return fail_now() ? NULL : __real_malloc(n); }
void *__wrap_calloc(size_t a, size_t b) { return fail_now() ? NULL : __real_calloc(a, b); }
void *__wrap_realloc(void *p, size_t n) { return fail_now() ? NULL : __real_realloc(p, n); }

static int n_errors;
static char messages[4][128];
static void error_fn(const char *msg, void *arg, vnaerr_category_t category)
{
    if (n_errors < 4)
	snprintf(messages[n_errors], sizeof(messages[0]), "[%d] %s",
		(int)category, msg);
    ++n_errors;
}

int main(void)
{
    const char *filename = "/tmp/au_2/out/8/in.s2p";
    FILE *fp = fopen(filename, "w");
    int total, doubles = 0, singles = 0;

    setvbuf(stdout, NULL, _IONBF, 0);
    fputs("# Hz S RI R 50\n"
	  "1e9 .1 .2 .3 .4 .5 .6 .7 .8\n"
	  "2e9 .1 .2 .3 .4 .5 .6 .7 .8\n", fp);
    fclose(fp);

    /* count the allocations of a fault-free load */
    {
	vnadata_t *vdp = vnadata_alloc(error_fn, NULL);
	armed = 1; count = 0; countdown = 0;
	(void)vnadata_load(vdp, filename);
	armed = 0;
	total = count;
	vnadata_free(vdp);
    }
    printf("fault-free load makes %d allocations\n", total);
    for (int k = 1; k <= total; ++k) {
	vnadata_t *vdp = vnadata_alloc(error_fn, NULL);
	int rc;

	n_errors = 0; errno = 0;
	armed = 1; count = 0; countdown = k;
	rc = vnadata_load(vdp, filename);
	armed = 0;
	if (rc == -1 && n_errors != 1) {
	    ++doubles;
	    if (doubles <= 4)
		printf("allocation %2d fails: rc=%d errno=%d, error_fn called %d "
			"times: {%s} {%s}\n", k, rc, errno, n_errors,
			messages[0], messages[1]);
	} else if (rc == -1) {
	    ++singles;
	}
	vnadata_free(vdp);
    }
    printf("%d of %d failure points reported the failure twice (%d once)\n",
	    doubles, total, singles);
    printf("expected: every failure point calls the error function exactly "
	    "once\n");
    return doubles != 0;
}

/*
 * Defect 9: the NPD loader reports an unsupported "#:version" as a syntax
 * error (VNAERR_SYNTAX / EBADMSG) instead of a version error
 * (VNAERR_VERSION / ENOPROTOOPT), and the message prints the keyword where
 * the offending version number belongs.  The Touchstone loader in the same
 * library does it right.
 */
#include <stdio.h>
#include <stdlib.h>
#include <string.h>
#include <errno.h>
#include <vnadata.h>

static vnaerr_category_t last_category;
static void error_fn(const char *msg, void *arg, vnaerr_category_t category)
{
    last_category = category;
    printf("   error_fn[category %d]: %s\n", (int)category, msg);
}

static void put(const char *filename, const char *text)
{
    FILE *fp = fopen(filename, "w");
    fputs(text, fp);
    fclose(fp);
}

int main(void)
{
    vnadata_t *vdp = vnadata_alloc(error_fn, NULL);
    int rc, bad = 0;

    setvbuf(stdout, NULL, _IONBF, 0);
    put("/tmp/au_2/out/9/v2.npd",
	    "#NPD\n#:version 2.0\n#:ports 1\n#:frequencies 1\n"
	    "#:parameters Sri\n#:z0 50 +0j\n1e9 0.5 0.1\n");
    put("/tmp/au_2/out/9/v3.ts", "[Version] 3.0\n# Hz S RI R 50\n");

    errno = 0;
    rc = vnadata_load(vdp, "/tmp/au_2/out/9/v2.npd");
    printf("NPD  #:version 2.0    : rc=%d errno=%d (%s) category=%d\n", rc,
	    errno, strerror(errno), (int)last_category);
    printf("   expected: errno=%d (ENOPROTOOPT), category=%d (VNAERR_VERSION), "
	    "message naming \"2.0\"\n", ENOPROTOOPT, (int)VNAERR_VERSION);
    if (errno != ENOPROTOOPT || last_category != VNAERR_VERSION)
	++bad;

    errno = 0;
    rc = vnadata_load(vdp, "/tmp/au_2/out/9/v3.ts");
    printf("Touchstone [Version] 3.0: rc=%d errno=%d (%s) category=%d  "
	    "(reference behaviour)\n", rc, errno, strerror(errno),
	    (int)last_category);
    vnadata_free(vdp);
    printf("%s\n", bad ? "FAIL" : "ok");
    return bad != 0;
}

/* Defect 1: vnacal_create() crashes (SIGSEGV) when an allocation inside
 * _vnacal_setup_parameter_collection fails. */
#include "../fi.h"
#include <stdio.h>
#include <signal.h>
#include <unistd.h>
#include <vnacal.h>
static int k;
static void on_segv(int s){ char b[96]; int n=snprintf(b,sizeof b,"DEFECT: SIGSEGV inside vnacal_create() with allocation #%d failing\n",k); write(1,b,n); _exit(1); }
static void errfn(const char *m, void *a, vnaerr_category_t c){ printf("  error fn: %s\n", m); }
int main(void){
    setvbuf(stdout,NULL,_IONBF,0);
    signal(SIGSEGV,on_segv);
    for (k=1;k<=12;k++){
	fi_arm(k); errno=0;
	vnacal_t *vcp=vnacal_create(errfn,NULL);
	int e=errno; long n=fi_disarm();
	printf("fail alloc #%d: vcp=%p errno=%d\n",k,(void*)vcp,e);
	if (vcp) vnacal_free(vcp);
	if (n<k) break;
    }
    printf("no crash\n");
    return 0;
}

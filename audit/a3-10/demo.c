/* Defect 10: a key produced by vnaproperty_quote_key addresses a DIFFERENT key
 * when it is followed by optional blanks (as in the manual's "key = value"
 * style), because the scanner's trailing-blank trimming compares a source
 * position with a destination position. */
#include <stdio.h>
#include <stdlib.h>
#include <string.h>
#include <vnaproperty.h>
static int test(const char *key)
{
    vnaproperty_t *root = NULL;
    char *q = vnaproperty_quote_key(key);
    int bad = 0;
    vnaproperty_set(&root, "%s = value", q);		/* blanks around '=' */
    const char **keys = vnaproperty_keys(root, ".");
    printf("key \"%s\" quoted \"%s\": \"%s = value\" created key \"%s\"%s\n", key, q, q,
	    keys[0], strcmp(keys[0], key) ? "   <-- DEFECT" : "");
    bad |= strcmp(keys[0], key) != 0;
    free(keys);
    vnaproperty_delete(&root, ".");
    /* same in a path: "<key> .sub" */
    vnaproperty_set(&root, "%s=1", q);
    const char *v = vnaproperty_get(root, "%s ", q);	/* trailing blank in a getter */
    printf("   get(\"%s \") after set(\"%s=1\") -> %s\n", q, q, v ? v : "NULL (not found)   <-- DEFECT");
    bad |= v == NULL;
    vnaproperty_delete(&root, ".");
    free(q);
    return bad;
}
int main(void){
    int bad = 0;
    setvbuf(stdout,NULL,_IONBF,0);
    bad |= test("abc");		/* control: no escapes, blanks are trimmed */
    bad |= test("a.");		/* escaped char last */
    bad |= test("50%");
    bad |= test("x(y)");
    if (bad) printf("DEFECT: quoted key followed by blanks does not address that key\n");
    return 0;
}

/* Defect 11: allocation failures inside the descriptor parser are reported as
 * EINVAL ("descriptor not well formed") instead of ENOMEM. */
#include "../fi.h"
#include <stdio.h>
#include <string.h>
#include <vnaproperty.h>
int main(void){
    int bad = 0;
    setvbuf(stdout,NULL,_IONBF,0);
    for (int k = 1; k < 100; ++k) {
	vnaproperty_t *root = NULL;
	fi_arm(k); errno = 0;
	int rv = vnaproperty_set(&root, "a.b[2].c=hello");
	int e = errno; long n = fi_disarm();
	if (n < k) break;
	printf("allocation #%2d fails: rv=%d errno=%d (%s)%s\n", k, rv, e, strerror(e),
		rv == -1 && e != ENOMEM ? "   <-- DEFECT: not ENOMEM" : "");
	if (rv == -1 && e != ENOMEM) bad = 1;
	vnaproperty_delete(&root, ".");
    }
    {	/* same for a read-only query on an existing tree */
	vnaproperty_t *root = NULL;
	vnaproperty_set(&root, "a.b=1");
	fi_arm(3); errno = 0;
	const char *v = vnaproperty_get(root, "a.b");
	int e = errno; fi_disarm();
	printf("vnaproperty_get with allocation #3 failing: %s errno=%d (%s)\n", v ? v : "NULL", e, strerror(e));
	vnaproperty_delete(&root, ".");
    }
    if (bad) printf("DEFECT: out-of-memory reported as EINVAL\n");
    return 0;
}

/* Defect 12: when an allocation fails inside vnaproperty_copy or inside the YAML
 * exporter (vnaproperty_export_yaml_to_file, vnacal_save), whole subtrees are
 * silently replaced by null and the call still returns SUCCESS. */
#include "../fi.h"
#include <stdio.h>
#include <stdlib.h>
#include <string.h>
#include <vnaproperty.h>
#include "../common_cal.h"
static int nerr;
static void errfn(const char *m, void *a, vnaerr_category_t c){ ++nerr; }
static vnaproperty_t *mk(void){
    vnaproperty_t *r = NULL;
    vnaproperty_set(&r, "a.b=hello"); vnaproperty_set(&r, "l[0]=1"); vnaproperty_set(&r, "l[1]=2");
    return r;
}
static char *slurp(const char *name){ static char buf[2][8192]; static int w; w ^= 1; FILE *fp = fopen(name, "r"); size_t n = fread(buf[w], 1, sizeof buf[w] - 1, fp); buf[w][n] = 0; fclose(fp); return buf[w]; }
static char *text_of(vnaproperty_t *r){ FILE *fp = fopen("t.yaml", "w"); vnaproperty_export_yaml_to_file(r, fp, "t", NULL, NULL); fclose(fp); return slurp("t.yaml"); }
int main(void){
    int shown, bad = 0;
    setvbuf(stdout,NULL,_IONBF,0);
    vnaproperty_t *r = mk();
    char *ref = strdup(text_of(r));
    printf("reference tree:\n%s\n", ref);

    /* (a) vnaproperty_copy */
    shown = 0;
    for (int k = 1; k < 5000; ++k) {
	vnaproperty_t *c = NULL;
	fi_arm(k); int rv = vnaproperty_copy(&c, r); long n = fi_disarm();
	if (n < k) break;
	if (rv == 0) { char *s = text_of(c); if (strcmp(s, ref) != 0) { bad = 1; if (shown++ < 2) printf("DEFECT: vnaproperty_copy returned 0 with allocation #%d failing, but the copy is:\n%s\n", k, s); } }
	vnaproperty_delete(&c, ".");
    }
    printf("vnaproperty_copy: %d failure points give success with a wrong copy\n\n", shown);

    /* (b) vnaproperty_export_yaml_to_file */
    shown = 0;
    for (int k = 1; k < 5000; ++k) {
	FILE *fp = fopen("e.yaml", "w");
	nerr = 0;
	fi_arm(k); int rv = vnaproperty_export_yaml_to_file(r, fp, "e", errfn, NULL); long n = fi_disarm();
	fclose(fp);
	if (n < k) break;
	if (rv == 0) { char *s = slurp("e.yaml"); if (strcmp(s, ref) != 0) { bad = 1; if (shown++ < 2) printf("DEFECT: export returned 0 (error fn called %d times) with allocation #%d failing, file is:\n%s\n", nerr, k, s); } }
    }
    printf("vnaproperty_export_yaml_to_file: %d failure points give success with a wrong file\n\n", shown);

    /* (c) vnacal_save -> vnacal_load loses properties */
    {
	vnacal_t *vcp = vnacal_create(errfn, NULL);
	int ci = make_cal(vcp, "cal");
	vnacal_property_set(vcp, -1, "operator.name=alice");
	vnacal_property_set(vcp, ci, "cable.length=1.5");
	shown = 0;
	for (int k = 1; k < 20000; ++k) {
	    nerr = 0;
	    fi_arm(k); int rv = vnacal_save(vcp, "s.vnacal"); long n = fi_disarm();
	    if (n < k) break;
	    if (rv == 0) {
		vnacal_t *v2 = vnacal_load("s.vnacal", errfn, NULL);
		const char *p1 = v2 ? vnacal_property_get(v2, -1, "operator.name") : NULL;
		const char *p2 = v2 ? vnacal_property_get(v2, 0, "cable.length") : NULL;
		if (!p1 || !p2) { bad = 1; if (shown++ < 2) printf("DEFECT: vnacal_save returned 0 (error fn %d times) with allocation #%d failing; reloaded operator.name=%s cable.length=%s\n", nerr, k, p1 ? p1 : "(lost)", p2 ? p2 : "(lost)"); }
		if (v2) vnacal_free(v2);
	    }
	}
	printf("vnacal_save: %d failure points give success with properties lost\n", shown);
	vnacal_free(vcp);
    }
    if (bad) printf("DEFECT: success reported after an allocation failure that dropped data\n");
    return 0;
}

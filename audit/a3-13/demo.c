/* Defect 13: the return value of yaml_parser_initialize() is ignored; if it fails
 * for lack of memory the zeroed parser is used anyway and libyaml abort()s. */
#include "../fi.h"
#include <stdio.h>
#include <stdlib.h>
#include <string.h>
#include <signal.h>
#include <unistd.h>
#include <vnaproperty.h>
#include <vnacal.h>
static int k; static const char *what;
static void on_abrt(int s){ char b[128]; int n=snprintf(b,sizeof b,"DEFECT: abort() inside %s with allocation #%d failing\n",what,k); write(1,b,n); _exit(1); }
static void errfn(const char *m, void *a, vnaerr_category_t c){ printf("  error fn [%d]: %s\n", c, m); }
int main(int argc, char **argv){
    setvbuf(stdout,NULL,_IONBF,0);
    signal(SIGABRT, on_abrt);
    if (argc > 1 && strcmp(argv[1], "load") == 0) {
	FILE *fp = fopen("ok.vnacal", "w"); fprintf(fp, "#VNACal 1.0\ncalibrations: []\n"); fclose(fp);
	what = "vnacal_load";
	for (k = 6; k < 40; ++k) {	/* 2..5 hit defect 1 */
	    fi_arm(k); errno = 0; vnacal_t *v = vnacal_load("ok.vnacal", errfn, NULL); int e = errno; long n = fi_disarm();
	    printf("vnacal_load, allocation #%d fails: %p errno=%d\n", k, (void *)v, e);
	    if (v) vnacal_free(v);
	    if (n < k) break;
	}
	return 0;
    }
    what = "vnaproperty_import_yaml_from_string";
    for (k = 1; k < 40; ++k) {
	vnaproperty_t *root = NULL;
	fi_arm(k); errno = 0;
	int rv = vnaproperty_import_yaml_from_string(&root, "a: 1\n", errfn, NULL);
	int e = errno; long n = fi_disarm();
	printf("import, allocation #%d fails: rv=%d errno=%d\n", k, rv, e);
	vnaproperty_delete(&root, ".");
	if (n < k) break;
    }
    return 0;
}

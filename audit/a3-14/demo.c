/* Defect 14: a vnaproperty_set that fails with ENOMEM while allocating the
 * scalar has already inserted/appended the list slot (and destroyed
 * conflicting nodes); retrying the call gives a different tree. */
#include "../fi.h"
#include <stdio.h>
#include <string.h>
#include "../dump.h"
int main(void){
    vnaproperty_t *root = NULL;
    int bad = 0;
    setvbuf(stdout,NULL,_IONBF,0);
    vnaproperty_set(&root, "list[+]=first");
    vnaproperty_set(&root, "keep=me");
    dump("before:", root);
    for (int k = 1; k < 50; ++k) {
	int before = vnaproperty_count(root, "list");
	fi_arm(k); errno = 0;
	int rv = vnaproperty_set(&root, "list[+]=second");
	int e = errno; long n = fi_disarm();
	if (n < k) break;
	int after = vnaproperty_count(root, "list");
	if (rv == -1) {
	    printf("allocation #%d fails: rv=-1 errno=%d, list length %d -> %d%s\n", k, e, before, after,
		    after != before ? "   <-- DEFECT: failed call changed the list" : "");
	    if (after != before) bad = 1;
	} else {
	    vnaproperty_delete(&root, "list[%d]", after - 1);	/* undo the successful append */
	}
    }
    /* overwrite case: failed set destroys the old value */
    for (int k = 1; k < 50; ++k) {
	fi_arm(k); errno = 0;
	int rv = vnaproperty_set(&root, "keep.sub=x");
	long n = fi_disarm();
	if (n < k) break;
	if (rv == -1) {
	    const char *v = vnaproperty_get(root, "keep");
	    if (v == NULL) { printf("allocation #%d fails in set(\"keep.sub=x\"): rv=-1 and old scalar keep=me is gone   <-- DEFECT\n", k); bad = 1; vnaproperty_set(&root, "keep=me"); }
	} else vnaproperty_set(&root, "keep=me");
    }
    dump("after the failed calls (each retried list[+] would now land behind null holes):", root);
    if (bad) printf("DEFECT: failed (ENOMEM) vnaproperty_set left the tree modified\n");
    vnaproperty_delete(&root, ".");
    return 0;
}

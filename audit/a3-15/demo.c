/* Defect 15: the YAML importers are documented to REPLACE the content at
 * *rootptr; they merge into it (or leave it untouched) instead. */
#include <stdio.h>
#include <string.h>
#include "../dump.h"
static void errfn(const char *m, void *a, vnaerr_category_t c){ printf("  error fn: %s\n", m); }
int main(void){
    vnaproperty_t *root = NULL;
    int bad = 0;
    setvbuf(stdout,NULL,_IONBF,0);
    vnaproperty_set(&root, "old=1");
    vnaproperty_set(&root, "list[0]=a"); vnaproperty_set(&root, "list[1]=b"); vnaproperty_set(&root, "list[2]=c");
    int rv = vnaproperty_import_yaml_from_string(&root, "new: 2\nlist: [x]\n", errfn, NULL);
    printf("import \"new: 2, list: [x]\" -> %d\n", rv);
    dump("tree after import (expected exactly {new: 2, list: [x]}):", root);
    if (vnaproperty_get(root, "old") != NULL) { printf("DEFECT: key 'old' survived the import\n"); bad = 1; }
    if (vnaproperty_count(root, "list") != 1) { printf("DEFECT: list has %d elements, document has 1\n", vnaproperty_count(root, "list")); bad = 1; }
    rv = vnaproperty_import_yaml_from_string(&root, "~\n", errfn, NULL);
    printf("import \"~\" -> %d, root is %s (expected NULL)\n", rv, root ? "still the old map   <-- DEFECT" : "NULL");
    rv = vnaproperty_import_yaml_from_string(&root, "{x: [unterminated\n", errfn, NULL);
    printf("failing import -> %d\n", rv);
    vnaproperty_delete(&root, ".");
    return 0;
}

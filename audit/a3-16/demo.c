/* Defect 16: list subscript INT_MAX: "index + 1" overflows int (undefined
 * behaviour, UBSan report) in list_subtree / list_insert. */
#include <stdio.h>
#include <errno.h>
#include <string.h>
#include <vnaproperty.h>
int main(void){
    vnaproperty_t *root = NULL;
    setvbuf(stdout,NULL,_IONBF,0);
    errno = 0;
    int rv = vnaproperty_set(&root, "[2147483647]=x");
    printf("set [2147483647]=x -> %d errno=%s\n", rv, strerror(errno));
    errno = 0;
    rv = vnaproperty_set(&root, "[2147483647+]=x");
    printf("set [2147483647+]=x -> %d errno=%s\n", rv, strerror(errno));
    errno = 0;
    rv = vnaproperty_set(&root, "[99999999999999999999]=x");	/* strtol saturates, long -> int truncation */
    printf("set [99999999999999999999]=x -> %d errno=%s, count=%d\n", rv, strerror(errno), vnaproperty_count(root, "."));
    vnaproperty_delete(&root, ".");
    /* silent long -> int truncation: [4294967296] addresses element 0 */
    vnaproperty_set(&root, "[0]=zero");
    rv = vnaproperty_set(&root, "[4294967296]=big");
    printf("set [4294967296]=big -> %d, count=%d, [0]=%s%s\n", rv, vnaproperty_count(root, "."),
	    vnaproperty_get(root, "[0]"), rv == 0 ? "   <-- DEFECT: element 0 overwritten" : "");
    vnaproperty_delete(&root, ".");
    return 0;
}

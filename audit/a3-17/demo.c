/* Defect 17 (minor): a non-ASCII key in a per-frequency "data" map makes the
 * key-prefix switch in parse_data shift a negative char left (UB). */
#include <stdio.h>
#include <vnacal.h>
static void errfn(const char *m, void *a, vnaerr_category_t c){ printf("  error fn: %s\n", m); }
int main(void){
    setvbuf(stdout,NULL,_IONBF,0);
    FILE *fp = fopen("utf.vnacal", "w");
    fprintf(fp, "#VNACal 1.0\ncalibrations:\n- name: c\n  type: E12\n  rows: 1\n  columns: 1\n"
	"  frequencies: 1\n  data:\n"
	"  - {f: 1e9, el: [[0]], er: [[1]], em: [[0]], \"\xc3\xa9\": comment}\n");
    fclose(fp);
    vnacal_t *vcp = vnacal_load("utf.vnacal", errfn, NULL);
    printf("vnacal_load -> %p\n", (void *)vcp);
    if (vcp) vnacal_free(vcp);
    return 0;
}

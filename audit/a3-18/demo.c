/* Defect 18 (minor): when vnacal_save cannot open the target, the error message
 * names the PREVIOUS file (or passes NULL to "%s"), not the file that failed. */
#include <stdio.h>
#include <string.h>
#include <errno.h>
#include "../common_cal.h"
static char last[512];
static void errfn(const char *m, void *a, vnaerr_category_t c){ snprintf(last, sizeof last, "%s", m); printf("  error fn: %s\n", m); }
int main(void){
    int bad = 0;
    setvbuf(stdout,NULL,_IONBF,0);
    vnacal_t *vcp = vnacal_create(errfn, NULL);
    make_cal(vcp, "c");
    int rv = vnacal_save(vcp, "/nonexistent/dir/first.vnacal");
    printf("save to /nonexistent/dir/first.vnacal -> %d\n", rv);
    if (strstr(last, "first.vnacal") == NULL) { printf("DEFECT: message does not name the failing file (NULL given to %%s)\n"); bad = 1; }
    rv = vnacal_save(vcp, "good.vnacal");
    printf("save to good.vnacal -> %d\n", rv);
    rv = vnacal_save(vcp, "/nonexistent/dir/second.vnacal");
    printf("save to /nonexistent/dir/second.vnacal -> %d\n", rv);
    if (strstr(last, "second.vnacal") == NULL) { printf("DEFECT: message blames \"good.vnacal\", which was written fine\n"); bad = 1; }
    vnacal_free(vcp);
    return !bad;
}

/* Defect 2: a self-referential YAML alias sends _vnaproperty_yaml_import into
 * unbounded recursion (stack overflow), both via
 * vnaproperty_import_yaml_from_string and via vnacal_load. */
#include <stdio.h>
#include <stdlib.h>
#include <string.h>
#include <vnaproperty.h>
#include <vnacal.h>
static void errfn(const char *m, void *a, vnaerr_category_t c){ printf("  error fn: %s\n", m); }
int main(int argc, char **argv){
    setvbuf(stdout,NULL,_IONBF,0);
    if (argc > 1 && strcmp(argv[1], "load") == 0) {
	FILE *fp = fopen("recursive.vnacal", "w");
	fprintf(fp, "#VNACal 1.0\nproperties: &a [*a]\ncalibrations: []\n");
	fclose(fp);
	vnacal_t *vcp = vnacal_load("recursive.vnacal", errfn, NULL);
	printf("vnacal_load returned %p\n", (void *)vcp);
	if (vcp) vnacal_free(vcp);
	return 0;
    }
    vnaproperty_t *root = NULL;
    int rv = vnaproperty_import_yaml_from_string(&root, "&a [*a]\n", errfn, NULL);
    printf("import returned %d\n", rv);	/* never reached */
    vnaproperty_delete(&root, ".");
    return 0;
}

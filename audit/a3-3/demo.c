/* Defect 3: vnacal_load accepts "frequencies: 0"; the resulting calibration
 * makes vnacal_get_fmin / vnacal_get_fmax read outside the (empty) frequency
 * vector. */
#include <stdio.h>
#include <stdlib.h>
#include <vnacal.h>
static void errfn(const char *m, void *a, vnaerr_category_t c){ printf("  error fn: %s\n", m); }
int main(void){
    setvbuf(stdout,NULL,_IONBF,0);
    FILE *fp = fopen("f0.vnacal", "w");
    fprintf(fp, "#VNACal 1.0\ncalibrations:\n- name: c\n  type: E12\n  rows: 1\n"
	        "  columns: 1\n  frequencies: 0\n  data: []\n");
    fclose(fp);
    vnacal_t *vcp = vnacal_load("f0.vnacal", errfn, NULL);
    printf("vnacal_load -> %p (expected NULL/EBADMSG)\n", (void *)vcp);
    if (vcp == NULL) return 0;
    printf("frequencies = %d\n", vnacal_get_frequencies(vcp, 0));
    printf("fmax = %g\n", vnacal_get_fmax(vcp, 0));	/* reads vector[-1] */
    printf("fmin = %g\n", vnacal_get_fmin(vcp, 0));	/* reads vector[0] of a 0-length vector */
    vnacal_free(vcp);
    return 0;
}

/* Defect 4: vnacal_load does not validate rows/columns against anything.
 *   ./demo huge : a 150-byte file with "columns: 2000000" overflows the stack
 *                 through the variable-length arrays in parse_matrices (SIGSEGV)
 *   ./demo zero : "rows: 0, columns: 0" is loaded as a 0x0 E12 calibration
 *                 (UBSan: VLA bound 0) and can be saved again
 *   ./demo shape: a T8 calibration with 3 rows x 2 columns is loaded although
 *                 vnacal_new_alloc refuses exactly that shape */
#include <stdio.h>
#include <stdlib.h>
#include <string.h>
#include <signal.h>
#include <unistd.h>
#include <errno.h>
#include <vnacal.h>
static void errfn(const char *m, void *a, vnaerr_category_t c){ printf("  error fn: %s\n", m); }
static char altstack[65536];
static void on_segv(int s){ const char m[]="DEFECT: SIGSEGV (stack overflow) inside vnacal_load\n"; write(1,m,sizeof m-1); _exit(1); }
int main(int argc, char **argv){
    const char *mode = argc > 1 ? argv[1] : "huge";
    setvbuf(stdout,NULL,_IONBF,0);
    FILE *fp = fopen("dims.vnacal", "w");
    if (strcmp(mode, "huge") == 0) {
	stack_t ss = { .ss_sp = altstack, .ss_size = sizeof altstack };
	struct sigaction sa; memset(&sa,0,sizeof sa); sa.sa_handler=on_segv; sa.sa_flags=SA_ONSTACK;
	sigaltstack(&ss,NULL); sigaction(SIGSEGV,&sa,NULL);
	fprintf(fp, "#VNACal 1.0\ncalibrations:\n- name: c\n  type: E12\n  rows: 1\n"
		"  columns: 2000000\n  frequencies: 1\n  data:\n  - {f: 1e9, el: x, er: x, em: x}\n");
    } else if (strcmp(mode, "zero") == 0) {
	fprintf(fp, "#VNACal 1.0\ncalibrations:\n- name: c\n  type: E12\n  rows: 0\n"
		"  columns: 0\n  frequencies: 1\n  data:\n  - {f: 1e9, el: [], er: [], em: []}\n");
    } else {
	fprintf(fp, "#VNACal 1.0\ncalibrations:\n- name: c\n  type: T8\n  rows: 3\n"
		"  columns: 2\n  frequencies: 1\n  data:\n"
		"  - {f: 1e9, ts: [1,1,1], ti: [0,0,0], tx: [0,0], tm: [1,1]}\n");
    }
    fclose(fp);
    errno = 0;
    vnacal_t *vcp = vnacal_load("dims.vnacal", errfn, NULL);
    printf("vnacal_load -> %p errno=%d (expected NULL, EBADMSG)\n", (void *)vcp, errno);
    if (vcp != NULL) {
	printf("DEFECT: loaded %s calibration with %d rows x %d columns\n",
		vnacal_type_to_name(vnacal_get_type(vcp, 0)),
		vnacal_get_rows(vcp, 0), vnacal_get_columns(vcp, 0));
	if (strcmp(mode, "shape") == 0) {
	    vnacal_new_t *vnp = vnacal_new_alloc(vcp, VNACAL_T8, 3, 2, 1);
	    printf("vnacal_new_alloc(T8, 3, 2) -> %p (the API refuses this shape)\n", (void *)vnp);
	}
	vnacal_free(vcp);
    }
    return 0;
}

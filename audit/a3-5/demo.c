/* Defect 5: the ascending-frequency check in vnacal_load is defeated by "nan":
 * a file with frequencies 1e9, nan, 5e8 is loaded. */
#include <stdio.h>
#include <stdlib.h>
#include <math.h>
#include <vnacal.h>
static void errfn(const char *m, void *a, vnaerr_category_t c){ printf("  error fn: %s\n", m); }
int main(void){
    setvbuf(stdout,NULL,_IONBF,0);
    FILE *fp = fopen("nan.vnacal", "w");
    fprintf(fp, "#VNACal 1.0\ncalibrations:\n- name: c\n  type: E12\n  rows: 1\n  columns: 1\n"
	"  frequencies: 3\n  data:\n"
	"  - {f: 1e9, el: [[0]], er: [[1]], em: [[0]]}\n"
	"  - {f: nan, el: [[0]], er: [[1]], em: [[0]]}\n"
	"  - {f: 5e8, el: [[0]], er: [[1]], em: [[0]]}\n");
    fclose(fp);
    vnacal_t *vcp = vnacal_load("nan.vnacal", errfn, NULL);
    printf("vnacal_load -> %p (expected NULL: frequencies not ascending)\n", (void *)vcp);
    if (vcp == NULL) return 0;
    const double *f = vnacal_get_frequency_vector(vcp, 0);
    int n = vnacal_get_frequencies(vcp, 0), bad = 0;
    for (int i = 0; i < n; ++i) {
	printf("f[%d] = %g\n", i, f[i]);
	if (i > 0 && !(f[i] > f[i-1])) bad = 1;
    }
    printf("fmin=%g fmax=%g\n", vnacal_get_fmin(vcp, 0), vnacal_get_fmax(vcp, 0));
    if (bad) printf("DEFECT: loaded calibration frequencies are not strictly ascending\n");
    vnacal_free(vcp);
    return 0;
}

/* Defect 6: default save precisions are swapped: frequencies get 6 digits and
 * data get 7, the manual promises frequency 7 / data 6. */
#include <stdio.h>
#include <stdlib.h>
#include <string.h>
#include "../common_cal.h"
static void errfn(const char *m, void *a, vnaerr_category_t c){ printf("  error fn: %s\n", m); }
static int digits(const char *s){ int n=0; while(*s==' '||*s=='+'||*s=='-'||*s=='[') ++s; for(;*s&&*s!='e';++s) if(*s>='0'&&*s<='9') ++n; return n; }
int main(void){
    setvbuf(stdout,NULL,_IONBF,0);
    vnacal_t *vcp = vnacal_create(errfn, NULL);
    if (make_cal(vcp, "cal") < 0) return 2;
    if (vnacal_save(vcp, "default.vnacal") == -1) return 3;	/* no precision setter called */
    FILE *fp = fopen("default.vnacal", "r"); char line[256]; int fd=-1, dd=-1;
    while (fgets(line, sizeof line, fp)) {
	char *p;
	if (fd < 0 && (p = strstr(line, "f: ")) != NULL) { printf("%s", line); fd = digits(p + 3); }
	if (dd < 0 && (p = strstr(line, "- [")) != NULL) { printf("%s", line); dd = digits(p + 3); }
    }
    fclose(fp);
    printf("frequency significant digits = %d (manual: 7)\n", fd);
    printf("data      significant digits = %d (manual: 6)\n", dd);
    if (fd != 7 || dd != 6) printf("DEFECT: default precisions differ from the documented ones\n");
    double f0 = vnacal_get_fmin(vcp, 0);
    vnacal_t *v2 = vnacal_load("default.vnacal", errfn, NULL);
    printf("fmin saved %.10g, reloaded %.10g, relative error %.2e (7 digits would give <= 5e-7)\n",
	    f0, vnacal_get_fmin(v2, 0), (vnacal_get_fmin(v2,0)-f0)/f0);
    vnacal_free(v2); vnacal_free(vcp);
    return 0;
}

/* Defect 7: vnacal_set_dprecision / vnacal_set_fprecision accept any value >= 1;
 * vnacal_save then sizes stack buffers (VLAs) from it and crashes. */
#include <stdio.h>
#include <stdlib.h>
#include <string.h>
#include <signal.h>
#include <unistd.h>
#include "../common_cal.h"
static void errfn(const char *m, void *a, vnaerr_category_t c){ printf("  error fn: %s\n", m); }
static char altstack[65536];
static void on_segv(int s){ const char m[]="DEFECT: SIGSEGV (stack overflow) inside vnacal_save\n"; write(1,m,sizeof m-1); _exit(1); }
int main(int argc, char **argv){
    int precision = argc > 1 ? atoi(argv[1]) : 50000000;
    setvbuf(stdout,NULL,_IONBF,0);
    stack_t ss = { .ss_sp = altstack, .ss_size = sizeof altstack };
    struct sigaction sa; memset(&sa,0,sizeof sa); sa.sa_handler=on_segv; sa.sa_flags=SA_ONSTACK;
    sigaltstack(&ss,NULL); sigaction(SIGSEGV,&sa,NULL);
    vnacal_t *vcp = vnacal_create(errfn, NULL);
    if (make_cal(vcp, "cal") < 0) return 2;
    int rv = vnacal_set_dprecision(vcp, precision);
    printf("vnacal_set_dprecision(%d) -> %d (accepted)\n", precision, rv);
    rv = vnacal_save(vcp, "big.vnacal");
    printf("vnacal_save -> %d\n", rv);
    vnacal_free(vcp);
    return 0;
}

/* Defect 8: vnaproperty_set / vnaproperty_set_subtree refuse a malformed
 * argument with -1/EINVAL only AFTER having rewritten the tree. */
#include <errno.h>
#include <string.h>
#include "../dump.h"
int main(void){
    vnaproperty_t *root = NULL;
    setvbuf(stdout,NULL,_IONBF,0);
    vnaproperty_set(&root, "a=1");
    vnaproperty_set(&root, "b=2");
    vnaproperty_set(&root, "c=3");
    dump("before:", root);
    errno = 0;
    int rv = vnaproperty_set(&root, "a.x");		/* no '=' or '#': invalid */
    printf("vnaproperty_set(\"a.x\") -> %d errno=%s\n", rv, strerror(errno));
    errno = 0;
    rv = vnaproperty_set(&root, "b[]=5");		/* cannot assign to [] : invalid */
    printf("vnaproperty_set(\"b[]=5\") -> %d errno=%s\n", rv, strerror(errno));
    errno = 0;
    vnaproperty_t **pp = vnaproperty_set_subtree(&root, "c[1] junk]");	/* trailing tokens */
    printf("vnaproperty_set_subtree(\"c[1] junk]\") -> %p errno=%s\n", (void *)pp, strerror(errno));
    dump("after three refused calls:", root);
    const char *a = vnaproperty_get(root, "a");
    const char *b = vnaproperty_get(root, "b");
    const char *c = vnaproperty_get(root, "c");
    if (!a || !b || !c || strcmp(a,"1") || strcmp(b,"2") || strcmp(c,"3"))
	printf("DEFECT: refused calls changed the tree (a=%s b=%s c=%s)\n",
		a ? a : "(gone)", b ? b : "(gone)", c ? c : "(gone)");
    vnaproperty_delete(&root, ".");
    return 0;
}

/* Defect 9: vnaproperty_copy turns empty maps and empty lists into nulls. */
#include <errno.h>
#include <string.h>
#include "../dump.h"
int main(void){
    vnaproperty_t *src = NULL, *dst = NULL, *e = NULL, *ecopy = (vnaproperty_t *)0;
    setvbuf(stdout,NULL,_IONBF,0);
    vnaproperty_set_subtree(&src, "ports{}");	/* ports: {}  */
    vnaproperty_set_subtree(&src, "notes[]");	/* notes: []  */
    vnaproperty_set(&src, "name=x");
    int rv = vnaproperty_copy(&dst, src);
    printf("vnaproperty_copy -> %d\n", rv);
    dump("source:", src);
    dump("copy:", dst);
    printf("type(ports): source '%c', copy %d\n", vnaproperty_type(src, "ports"), vnaproperty_type(dst, "ports"));
    printf("count(notes): source %d, copy %d\n", vnaproperty_count(src, "notes"), vnaproperty_count(dst, "notes"));
    /* the root itself */
    vnaproperty_set_subtree(&e, "{}");
    rv = vnaproperty_copy(&ecopy, e);
    printf("copy of an empty root map -> %d, type of copy = %d (source '%c')\n", rv, vnaproperty_type(ecopy, "."), vnaproperty_type(e, "."));
    if (vnaproperty_type(dst, "ports") != 'm' || vnaproperty_count(dst, "notes") != 0 || vnaproperty_type(ecopy, ".") != 'm')
	printf("DEFECT: copy differs from source (empty collections became null)\n");
    vnaproperty_delete(&src, "."); vnaproperty_delete(&dst, "."); vnaproperty_delete(&e, "."); vnaproperty_delete(&ecopy, ".");
    return 0;
}

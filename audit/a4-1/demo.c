/*
 * Defect 1: _vnacal_alloc_parameter() advances vprmc_first_free before the
 * malloc of the parameter structure; if that malloc fails, the free slot is
 * skipped forever.  The next vnacal_make_*_parameter() call scans past the
 * end of vprmc_vector (heap-buffer-overflow read; abort via assert or heap
 * overflow write without a sanitizer).
 *
 * Fault injection: --wrap=malloc, fail exactly one malloc.
 */
#include <stdio.h>
#include <stdlib.h>
#include <string.h>
#include <errno.h>
#include <complex.h>
#include <vnacal.h>

static int fail_countdown = 0;		/* fail the Nth malloc from now */
void *__real_malloc(size_t);
void *__wrap_malloc(size_t size)
{
    if (fail_countdown > 0 && --fail_countdown == 0) {
	errno = ENOMEM;
	return NULL;
    }
    return __real_malloc(size);
}

static void error_fn(const char *msg, void *arg, vnaerr_category_t category)
{
    printf("  error_fn: %s\n", msg);
}

int main(void)
{
    vnacal_t *vcp = vnacal_create(error_fn, NULL);
    int p;

    /* indices 0..2 are predefined; make 4 more: table is 8 long, 7 in use */
    for (int i = 1; i <= 4; ++i) {
	p = vnacal_make_scalar_parameter(vcp, 0.1 * i);
	printf("make_scalar -> %d\n", p);
    }

    /* one allocation failure while creating the 8th parameter */
    fail_countdown = 1;
    errno = 0;
    p = vnacal_make_scalar_parameter(vcp, 0.5);
    printf("make_scalar with malloc failure -> %d (errno=%s)\n",
	    p, strerror(errno));
    fail_countdown = 0;

    /* repeat the call without the fault: must succeed and return 7 */
    printf("retrying without fault...\n");
    fflush(stdout);
    p = vnacal_make_scalar_parameter(vcp, 0.5);
    printf("retry -> %d (expected 7)\n", p);

    vnacal_free(vcp);
    return 0;
}

/*
 * Defect 10: the out-of-range message of vnacal_get_parameter_value() ends
 * in "\n" (format string "... must be between %e and %e\n").  vnaerr(3)/
 * vnacal(3) promise the error function a single-line message without a
 * newline; every other message of the library honours that.  A caller that
 * appends its own newline (as all the library's examples and tests do) prints
 * a spurious empty line, and a caller that logs "one message per line"
 * gets a broken record.
 */
#include <stdio.h>
#include <stdlib.h>
#include <string.h>
#include <errno.h>
#include <complex.h>
#include <math.h>
#include <vnacal.h>

static int newline_messages = 0;
static void error_fn(const char *msg, void *arg, vnaerr_category_t category)
{
    printf("  error_fn: [%s]\n", msg);
    if (strchr(msg, '\n') != NULL) {
	++newline_messages;
	printf("  ^^^ message contains a newline character\n");
    }
}

int main(void)
{
    vnacal_t *vcp = vnacal_create(error_fn, NULL);
    static const double fv[3] = { 1.0e+9, 2.0e+9, 3.0e+9 };
    static const double complex gv[3] = { 0.1, 0.2, 0.3 };
    int v = vnacal_make_vector_parameter(vcp, fv, 3, gv);
    double complex value;

    /* another usage error of the same function, for comparison */
    value = vnacal_get_parameter_value(vcp, 99, 2.0e+9);
    printf("invalid handle   -> %g\n", creal(value));

    value = vnacal_get_parameter_value(vcp, v, 5.0e+9);
    printf("out of range     -> %g\n", creal(value));

    vnacal_free(vcp);
    printf("%s\n", newline_messages ? "DEFECT REPRODUCED" : "ok");
    return newline_messages != 0;
}

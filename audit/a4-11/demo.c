/*
 * Defect 11: _vnacommon_qrd()/_vnacommon_qrsolve() (plain Householder QR
 * with neither row sorting/equilibration nor column pivoting) is not
 * row-wise stable.  For a CONSISTENT, well-conditioned over-determined
 * system A x = b whose equations merely have different scales, the returned
 * x has an error of about  eps * (largest row norm / smallest row norm):
 * 1e-3 for rows scaled 1e-6..1e6 and O(1) - a completely wrong answer that
 * is nevertheless reported with full rank - for rows scaled 1e-8..1e8.
 * The LU path (_vnacommon_mldivide, implicit row scaling) solves the same
 * equations to 1e-15.  _vnacommon_qrsolve() is what vnacal_new_solve() uses
 * for every over-determined set of standards (vnacal_new_solve_simple.c:152,
 * vnacal_new_solve_trl.c:310; _vnacommon_qr in vnacal_new_solve_auto.c:441),
 * so multiplying some equations by a constant - which does not change the
 * solution of a consistent system - changes the error terms found.
 *
 * Needs the internal header because the routine is not exported by itself.
 */
#include <stdio.h>
#include <stdlib.h>
#include <string.h>
#include <complex.h>
#include <math.h>
#include "archdep.h"
#include "vnacommon_internal.h"

static const double R[4][3] = {		/* well-conditioned 4x3 */
    { 2,  1, 1 },
    { 1,  3, 1 },
    { 1,  1, 4 },
    { 1, -1, 2 }
};
static const double x_true[3] = { 1, -2, 3 };

static double run(const double scale[4], int verbose)
{
    double complex a[12], b[4], x[3];
    double error = 0.0;
    int rank;

    for (int i = 0; i < 4; ++i) {
	b[i] = 0.0;
	for (int j = 0; j < 3; ++j) {
	    a[3 * i + j] = scale[i] * R[i][j];
	    b[i] += a[3 * i + j] * x_true[j];	/* consistent: residual 0 */
	}
    }
    rank = _vnacommon_qrsolve(x, a, b, 4, 3, 1);
    for (int j = 0; j < 3; ++j)
	error += cabs(x[j] - x_true[j]);
    if (verbose) {
	printf("row scales %g %g %g %g: rank %d, x = (%.9g, %.9g, %.9g), "
		"sum |x - x_true| = %.3e\n", scale[0], scale[1], scale[2],
		scale[3], rank, creal(x[0]), creal(x[1]), creal(x[2]), error);
    }
    return error;
}

int main(void)
{
    static const double s0[4] = { 1, 1, 1, 1 };
    static const double s6[4] = { 1e-6, 1e+6, 1, 1e-6 };
    static const double s8[4] = { 1e-8, 1e-8, 1e+8, 1 };
    double e0, e6, e8;

    printf("exact solution x_true = (1, -2, 3); the systems below differ "
	    "only by scaling whole equations\n");
    e0 = run(s0, 1);
    e6 = run(s6, 1);
    e8 = run(s8, 1);

    /* the same badly scaled equations (first three rows) through LU */
    {
	double complex a[9], b[3], x[3];
	double error = 0.0;

	for (int i = 0; i < 3; ++i) {
	    b[i] = 0.0;
	    for (int j = 0; j < 3; ++j) {
		a[3 * i + j] = s8[i] * R[i][j];
		b[i] += a[3 * i + j] * x_true[j];
	    }
	}
	(void)_vnacommon_mldivide(x, a, b, 3, 1);
	for (int j = 0; j < 3; ++j)
	    error += cabs(x[j] - x_true[j]);
	printf("LU (_vnacommon_mldivide) on rows 1..3 with scales "
		"%g %g %g: error %.3e\n", s8[0], s8[1], s8[2], error);
    }
    if (e0 < 1e-12 && (e6 > 1e-6 || e8 > 1e-3)) {
	printf("DEFECT REPRODUCED\n");
	return 1;
    }
    return 0;
}

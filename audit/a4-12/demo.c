/*
 * Defect 12: the reference impedance of a calibration (vnacal_new_set_z0,
 * saved in the file, returned by vnacal_get_z0) never reaches the result of
 * vnacal_apply()/vnacal_apply_m().  _vnacal_apply_common() calls
 * vnadata_init(), which resets every port's z0 to the 50 ohm default, and
 * never calls vnadata_set_all_z0(..., calp->cal_z0).  The corrected
 * S-parameters of a 75 ohm calibration are therefore labelled as 50 ohm
 * S-parameters (even if the caller had set 75 ohm on the result object
 * beforehand), and any later vnadata_convert()/vnadata_save() describes a
 * different physical network than the one that was measured.
 */
#include <stdio.h>
#include <stdlib.h>
#include <string.h>
#include <errno.h>
#include <complex.h>
#include <vnacal.h>

#define F 2
static void error_fn(const char *msg, void *arg, vnaerr_category_t category)
{
    printf("  error_fn: %s\n", msg);
}

int main(void)
{
    static const double fv[F] = { 1.0e+9, 2.0e+9 };
    vnacal_t *vcp = vnacal_create(error_fn, NULL);
    vnacal_new_t *vnp = vnacal_new_alloc(vcp, VNACAL_E12, 1, 1, F);
    vnadata_t *vdp = vnadata_alloc(error_fn, NULL);
    double complex mv[F];
    double complex *m[1] = { mv };
    double complex z_in;
    int ci;

    /* 75 ohm system, ideal VNA (m == gamma) */
    vnacal_new_set_frequency_vector(vnp, fv);
    vnacal_new_set_z0(vnp, 75.0);
    for (int i = 0; i < F; ++i) mv[i] = -1.0;
    vnacal_new_add_single_reflect_m(vnp, m, 1, 1, VNACAL_SHORT, 1);
    for (int i = 0; i < F; ++i) mv[i] = 1.0;
    vnacal_new_add_single_reflect_m(vnp, m, 1, 1, VNACAL_OPEN, 1);
    for (int i = 0; i < F; ++i) mv[i] = 0.0;
    vnacal_new_add_single_reflect_m(vnp, m, 1, 1, VNACAL_MATCH, 1);
    if (vnacal_new_solve(vnp) == -1)
	return 2;
    ci = vnacal_add_calibration(vcp, "cal75", vnp);
    vnacal_new_free(vnp);
    printf("vnacal_get_z0(calibration) = %g ohm\n",
	    creal(vnacal_get_z0(vcp, ci)));

    /*
     * DUT: a 75 ohm resistor -> perfectly matched in the 75 ohm system,
     * measured gamma = 0.  The caller even prepares the result object with
     * the right impedance.
     */
    vnadata_init(vdp, VPT_S, 1, 1, F);
    vnadata_set_all_z0(vdp, 75.0);
    for (int i = 0; i < F; ++i) mv[i] = 0.0;
    if (vnacal_apply_m(vcp, ci, fv, F, m, 1, 1, vdp) == -1)
	return 2;
    printf("after vnacal_apply_m: s11 = %g, vnadata_get_z0(result, port 0) "
	    "= %g ohm (expected 75)\n",
	    creal(vnadata_get_cell(vdp, 0, 0, 0)),
	    creal(vnadata_get_z0(vdp, 0)));
    vnadata_convert(vdp, vdp, VPT_Z);
    z_in = vnadata_get_cell(vdp, 0, 0, 0);
    printf("converted to Z: z11 = %g ohm (the DUT is a 75 ohm resistor)\n",
	    creal(z_in));
    vnadata_free(vdp);
    vnacal_free(vcp);
    if (creal(z_in) != 75.0) {
	printf("DEFECT REPRODUCED\n");
	return 1;
    }
    return 0;
}

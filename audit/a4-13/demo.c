/*
 * Defect 13: a calibration with ZERO frequency points is legal to build
 * (vnacal_new_alloc(..., frequencies = 0), set_frequency_vector, add_*,
 * solve and vnacal_add_calibration all succeed; vnacal_load() also accepts
 * "frequencies: 0"), but _vnacal_apply_common() unconditionally evaluates
 * _vnacal_calibration_get_fmin_bound()/..._fmax_bound(), i.e.
 * cal_frequency_vector[0] and cal_frequency_vector[cal_frequencies - 1] ==
 * cal_frequency_vector[-1], on the empty calloc(0) vector: heap-buffer-
 * overflow read (and underflow read) instead of a clean -1/EINVAL.
 * (Different array and different root cause from defect 4, where the
 * caller's frequency_vector is over-read for frequencies == 0.)
 */
#include <stdio.h>
#include <stdlib.h>
#include <string.h>
#include <errno.h>
#include <complex.h>
#include <vnacal.h>

static void error_fn(const char *msg, void *arg, vnaerr_category_t category)
{
    printf("  error_fn: %s\n", msg);
}

int main(void)
{
    vnacal_t *vcp = vnacal_create(error_fn, NULL);
    vnacal_new_t *vnp = vnacal_new_alloc(vcp, VNACAL_E12, 1, 1, 0);
    double *empty_f = malloc(0);
    double complex *empty_m = malloc(0);
    double complex *m0[1] = { empty_m };
    static const double fv[2] = { 1.0e+9, 2.0e+9 };
    double complex v[2] = { 0.1, 0.1 };
    double complex *m[1] = { v };
    vnadata_t *vdp = vnadata_alloc(error_fn, NULL);
    int rc, ci;

    printf("vnacal_new_alloc(frequencies=0) -> %s\n", vnp ? "ok" : "NULL");
    if (vnp == NULL)
	return 0;
    rc = vnacal_new_set_frequency_vector(vnp, empty_f);
    printf("vnacal_new_set_frequency_vector -> %d\n", rc);
    rc = vnacal_new_add_single_reflect_m(vnp, m0, 1, 1, VNACAL_SHORT, 1);
    printf("add short -> %d\n", rc);
    rc = vnacal_new_add_single_reflect_m(vnp, m0, 1, 1, VNACAL_OPEN, 1);
    printf("add open  -> %d\n", rc);
    rc = vnacal_new_add_single_reflect_m(vnp, m0, 1, 1, VNACAL_MATCH, 1);
    printf("add match -> %d\n", rc);
    rc = vnacal_new_solve(vnp);
    printf("vnacal_new_solve -> %d\n", rc);
    ci = vnacal_add_calibration(vcp, "empty", vnp);
    printf("vnacal_add_calibration -> %d, vnacal_get_frequencies -> %d\n",
	    ci, vnacal_get_frequencies(vcp, ci));
    vnacal_new_free(vnp);

    printf("calling vnacal_apply_m (expected -1/EINVAL)...\n");
    fflush(stdout);
    errno = 0;
    rc = vnacal_apply_m(vcp, ci, fv, 2, m, 1, 1, vdp);
    printf("vnacal_apply_m -> %d (errno %s)\n", rc, strerror(errno));
    vnadata_free(vdp);
    vnacal_free(vcp);
    free(empty_f);
    free(empty_m);
    return 0;
}

/*
 * Defect 2: _vnacal_teardown_parameter_collection() asserts that no live
 * slot is marked deleted, but a parameter that was deleted while another
 * parameter (unknown/correlated) still refers to it legitimately stays in
 * its slot with vpmr_deleted == true.  If the referring parameter has a
 * LOWER index (slot reuse), vnacal_free() aborts; with -DNDEBUG the deleted
 * parameter is freed while still referenced -> use after free / double free.
 */
#include <stdio.h>
#include <stdlib.h>
#include <complex.h>
#include <vnacal.h>

static void error_fn(const char *msg, void *arg, vnaerr_category_t category)
{
    printf("  error_fn: %s\n", msg);
}

int main(void)
{
    vnacal_t *vcp = vnacal_create(error_fn, NULL);
    int a, b, u, rc;

    a = vnacal_make_scalar_parameter(vcp, 0.25);	/* index 3 */
    b = vnacal_make_scalar_parameter(vcp, 0.50);	/* index 4 */
    rc = vnacal_delete_parameter(vcp, a);		/* slot 3 free again */
    u = vnacal_make_unknown_parameter(vcp, b);		/* re-uses slot 3 */
    printf("a=%d b=%d delete(a)=%d u=%d\n", a, b, rc, u);

    /*
     * Deleting the initial guess of a live unknown parameter is legal:
     * the unknown parameter keeps a reference.
     */
    rc = vnacal_delete_parameter(vcp, b);
    printf("delete(b)=%d\n", rc);

    printf("calling vnacal_free...\n");
    fflush(stdout);
    vnacal_free(vcp);
    printf("vnacal_free returned (expected)\n");
    return 0;
}

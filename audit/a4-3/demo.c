/*
 * Defect 3: the natural-cubic-spline helpers treat "n segments == 1"
 * (i.e. TWO knots) as "one element": _vnacommon_spline_calc() returns
 * without computing coefficients for n < 2 and _vnacommon_spline_eval()
 * returns y_vector[0] for n == 1.  A two-point sigma vector given to
 * vnacal_make_correlated_parameter() (and a two-point noise grid given to
 * vnacal_new_set_m_error()) is therefore evaluated as the constant
 * sigma_vector[0] at every frequency - even exactly at the second knot.
 */
#include <stdio.h>
#include <stdlib.h>
#include <complex.h>
#include <math.h>
#include "archdep.h"
#include "vnacal_internal.h"

static void error_fn(const char *msg, void *arg, vnaerr_category_t category)
{
    printf("  error_fn: %s\n", msg);
}

int main(void)
{
    vnacal_t *vcp = vnacal_create(error_fn, NULL);
    static const double f2[2]     = { 1.0e+9, 2.0e+9 };
    static const double sigma2[2] = { 0.01,   0.05   };
    static const double f3[3]     = { 1.0e+9, 1.5e+9, 2.0e+9 };
    static const double sigma3[3] = { 0.01,   0.03,   0.05   };
    int bad = 0;

    int p2 = vnacal_make_correlated_parameter(vcp, VNACAL_MATCH, f2, 2, sigma2);
    int p3 = vnacal_make_correlated_parameter(vcp, VNACAL_MATCH, f3, 3, sigma3);
    vnacal_parameter_t *vp2 = _vnacal_get_parameter(vcp, p2);
    vnacal_parameter_t *vp3 = _vnacal_get_parameter(vcp, p3);

    printf("   f        2-knot sigma   3-knot sigma   expected (linear)\n");
    for (int i = 0; i <= 4; ++i) {
	double f = 1.0e+9 + 0.25e+9 * i;
	double expected = 0.01 + 0.04 * (f - 1.0e+9) / 1.0e+9;
	double s2 = _vnacal_get_correlated_sigma(vp2, f);
	double s3 = _vnacal_get_correlated_sigma(vp3, f);

	printf("%9.3e   %10.6f     %10.6f     %10.6f%s\n", f, s2, s3, expected,
		fabs(s2 - expected) > 1.0e-9 ? "   <-- 2-knot WRONG" : "");
	if (fabs(s2 - expected) > 1.0e-9)
	    ++bad;
    }

    /* same thing through the helper directly, as vnacal_new_set_m_error uses it */
    {
	double c[1][3] = {{ 0.0, 0.0, 0.0 }};
	int rc = _vnacommon_spline_calc(1, f2, sigma2, c);
	double y = _vnacommon_spline_eval(1, f2, sigma2, c, f2[1]);

	printf("spline_calc(n=1) rc=%d coefficients b=%g c=%g d=%g (never set)\n",
		rc, c[0][0], c[0][1], c[0][2]);
	printf("spline_eval at second knot %g -> %g, supplied value %g\n",
		f2[1], y, sigma2[1]);
	if (y != sigma2[1])
	    ++bad;
    }
    vnacal_free(vcp);
    printf("%s\n", bad ? "DEFECT REPRODUCED" : "ok");
    return bad != 0;
}

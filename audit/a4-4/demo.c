/*
 * Defect 4: vnacal_apply()/vnacal_apply_m() accept frequencies == 0
 * (only "< 0" is refused) and then read frequency_vector[0] and
 * frequency_vector[frequencies - 1] == frequency_vector[-1] for the range
 * check: out-of-bounds reads of the caller's (empty) vector.  Depending on
 * the garbage read, the call is then refused as "frequency out of bounds"
 * or accepted.
 */
#include <stdio.h>
#include <stdlib.h>
#include <string.h>
#include <errno.h>
#include <complex.h>
#include <vnacal.h>

#define F 3

static void error_fn(const char *msg, void *arg, vnaerr_category_t category)
{
    printf("  error_fn: %s\n", msg);
}

int main(void)
{
    static const double fv[F] = { 1.0e+9, 2.0e+9, 3.0e+9 };
    vnacal_t *vcp = vnacal_create(error_fn, NULL);
    vnacal_new_t *vnp = vnacal_new_alloc(vcp, VNACAL_E12, 1, 1, F);
    double complex mv[F];
    double complex *m[1] = { mv };
    int ci, rc;
    vnadata_t *vdp = vnadata_alloc(error_fn, NULL);

    /* trivial 1-port calibration with an ideal VNA: m == gamma */
    vnacal_new_set_frequency_vector(vnp, fv);
    for (int i = 0; i < F; ++i) mv[i] = -1.0;
    vnacal_new_add_single_reflect_m(vnp, m, 1, 1, VNACAL_SHORT, 1);
    for (int i = 0; i < F; ++i) mv[i] = 1.0;
    vnacal_new_add_single_reflect_m(vnp, m, 1, 1, VNACAL_OPEN, 1);
    for (int i = 0; i < F; ++i) mv[i] = 0.0;
    vnacal_new_add_single_reflect_m(vnp, m, 1, 1, VNACAL_MATCH, 1);
    if (vnacal_new_solve(vnp) == -1) { printf("solve failed\n"); return 2; }
    if ((ci = vnacal_add_calibration(vcp, "cal", vnp)) == -1) return 2;
    vnacal_new_free(vnp);

    /* sanity: ordinary apply works */
    for (int i = 0; i < F; ++i) mv[i] = 0.5;
    rc = vnacal_apply_m(vcp, ci, fv, F, m, 1, 1, vdp);
    printf("apply_m with %d frequencies -> %d, s11[0]=%g\n", F, rc,
	    creal(vnadata_get_cell(vdp, 0, 0, 0)));

    /* zero frequencies with an empty (zero-length) heap vector */
    {
	double *empty_fv = malloc(0);
	double complex *empty_mv = malloc(0);
	double complex *em[1] = { empty_mv };

	printf("apply_m with 0 frequencies...\n");
	fflush(stdout);
	errno = 0;
	rc = vnacal_apply_m(vcp, ci, empty_fv, 0, em, 1, 1, vdp);
	printf("apply_m with 0 frequencies -> %d (errno %s)\n", rc,
		strerror(errno));
	free(empty_fv);
	free(empty_mv);
    }
    vnadata_free(vdp);
    vnacal_free(vcp);
    return 0;
}

/*
 * Defect 5: replacing an existing calibration through vnacal_add_calibration()
 * frees the old one with _vnacal_calibration_free(), which disposes of the
 * calibration's property tree by calling vnaproperty_delete(&cal_properties,
 * ".") and ignores its result.  vnaproperty_delete() formats and parses the
 * "." expression and therefore ALLOCATES; if one of those allocations fails
 * the tree is not freed, the calibration structure holding the only pointer
 * to it is freed anyway, and vnacal_add_calibration() reports success:
 * the whole property tree of the replaced calibration is leaked.
 *
 * Fault injection: --wrap the allocator, fail exactly one allocation.
 */
#include <stdio.h>
#include <stdlib.h>
#include <string.h>
#include <errno.h>
#include <stdarg.h>
#include <complex.h>
#include <vnacal.h>

static int active = 0, countdown = 0, count = 0;
static int should_fail(void)
{
    if (!active)
	return 0;
    ++count;
    if (countdown > 0 && --countdown == 0) {
	errno = ENOMEM;
	return 1;
    }
    return 0;
}
void *__real_malloc(size_t);
void *__real_calloc(size_t, size_t);
void *__real_realloc(void *, size_t);
char *__real_strdup(const char *);
int __real_vasprintf(char **, const char *, va_list);
void *__wrap_malloc(size_t s) { return should_fail() ? NULL : __real_malloc(s); }
void *__wrap_calloc(size_t n, size_t s) { return should_fail() ? NULL : __real_calloc(n, s); }
void *__wrap_realloc(void *p, size_t s) { return should_fail() ? NULL : __real_realloc(p, s); }
char *__wrap_strdup(const char *s) { return should_fail() ? NULL : __real_strdup(s); }
int __wrap_vasprintf(char **r, const char *f, va_list ap)
{
    if (should_fail()) {
	*r = NULL;
	return -1;
    }
    return __real_vasprintf(r, f, ap);
}

static void error_fn(const char *msg, void *arg, vnaerr_category_t category)
{
    printf("  error_fn: %s\n", msg);
}

#define F 2
static const double fv[F] = { 1.0e+9, 2.0e+9 };

static vnacal_new_t *make_solved(vnacal_t *vcp)
{
    vnacal_new_t *vnp = vnacal_new_alloc(vcp, VNACAL_E12, 1, 1, F);
    double complex mv[F];
    double complex *m[1] = { mv };

    vnacal_new_set_frequency_vector(vnp, fv);
    for (int i = 0; i < F; ++i) mv[i] = -1.0;
    vnacal_new_add_single_reflect_m(vnp, m, 1, 1, VNACAL_SHORT, 1);
    for (int i = 0; i < F; ++i) mv[i] = 1.0;
    vnacal_new_add_single_reflect_m(vnp, m, 1, 1, VNACAL_OPEN, 1);
    for (int i = 0; i < F; ++i) mv[i] = 0.0;
    vnacal_new_add_single_reflect_m(vnp, m, 1, 1, VNACAL_MATCH, 1);
    if (vnacal_new_solve(vnp) == -1)
	exit(2);
    return vnp;
}

int main(int argc, char **argv)
{
    int k = argc > 1 ? atoi(argv[1]) : 2;	/* which allocation to fail */
    vnacal_t *vcp = vnacal_create(error_fn, NULL);
    vnacal_new_t *vnp;
    int ci, ci2;

    /* first calibration "cal" with a few properties attached */
    vnp = make_solved(vcp);
    ci = vnacal_add_calibration(vcp, "cal", vnp);
    vnacal_new_free(vnp);
    vnacal_property_set(vcp, ci, "operator=somebody");
    vnacal_property_set(vcp, ci, "switches[0]=1");
    vnacal_property_set(vcp, ci, "switches[1]=0");

    /* replace it; one allocation fails inside the call */
    vnp = make_solved(vcp);
    count = 0;
    countdown = k;
    active = 1;
    errno = 0;
    ci2 = vnacal_add_calibration(vcp, "cal", vnp);
    active = 0;
    printf("replace with allocation #%d (of %d) failing: returned %d "
	    "(old index %d), errno=%s\n", k, count, ci2, ci, strerror(errno));
    vnacal_new_free(vnp);
    vnacal_free(vcp);
    printf("everything freed; LeakSanitizer report follows if memory leaked\n");
    return 0;
}

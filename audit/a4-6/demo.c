/*
 * Defect 6: _vnacal_apply_common() only checks that a non-square calibration
 * has 2 ports; it never checks that the orientation fits the error-term type
 * (T8/TE10/T16 need rows <= columns, U8/UE10/U16/UE14/E12 need rows >=
 * columns).  vnacal_load() accepts a calibration such as "T8, 2 rows,
 * 1 column" (the term counts are self-consistent), and vnacal_apply_m() on
 * it reaches fill_t8(), whose only provision for this shape is
 * assert(m_rows == m_columns): the process aborts instead of returning -1
 * with EINVAL.  (With -DNDEBUG the general code runs with the wrong strides
 * and silently returns garbage S-parameters.)
 */
#include <stdio.h>
#include <stdlib.h>
#include <string.h>
#include <errno.h>
#include <complex.h>
#include <vnacal.h>

static const char file_text[] =
    "#VNACal 1.0\n"
    "%YAML 1.1\n"
    "---\n"
    "properties: ~\n"
    "calibrations:\n"
    "- name: bad\n"
    "  type: T8\n"
    "  rows: 2\n"
    "  columns: 1\n"
    "  frequencies: 2\n"
    "  z0: +5.000000e+01 +0.000000e+00j\n"
    "  properties: ~\n"
    "  data:\n"
    "  - f: 1.00000e+09\n"
    "    ts: [+1.0 +0.0j, +1.0 +0.0j]\n"
    "    ti: [+0.0 +0.0j, +0.0 +0.0j]\n"
    "    tx: [+0.0 +0.0j]\n"
    "    tm: [+1.0 +0.0j]\n"
    "  - f: 2.00000e+09\n"
    "    ts: [+1.0 +0.0j, +1.0 +0.0j]\n"
    "    ti: [+0.0 +0.0j, +0.0 +0.0j]\n"
    "    tx: [+0.0 +0.0j]\n"
    "    tm: [+1.0 +0.0j]\n"
    "...\n";

static void error_fn(const char *msg, void *arg, vnaerr_category_t category)
{
    printf("  error_fn: %s\n", msg);
}

int main(void)
{
    const char *path = "/tmp/au_4/out/6/bad.vnacal";
    static const double fv[2] = { 1.0e+9, 2.0e+9 };
    double complex v[4][2] = {{ .1, .1 }, { .2, .2 }, { .3, .3 }, { .4, .4 }};
    double complex *m[4] = { v[0], v[1], v[2], v[3] };
    vnacal_t *vcp;
    vnadata_t *vdp;
    FILE *fp;
    int rc;

    if ((fp = fopen(path, "w")) == NULL) { perror(path); return 2; }
    fputs(file_text, fp);
    fclose(fp);

    if ((vcp = vnacal_load(path, error_fn, NULL)) == NULL) {
	printf("vnacal_load refused the file (that would be fine)\n");
	return 0;
    }
    printf("loaded calibration 0: type %s, %d rows x %d columns\n",
	    vnacal_type_to_name(vnacal_get_type(vcp, 0)),
	    vnacal_get_rows(vcp, 0), vnacal_get_columns(vcp, 0));
    vdp = vnadata_alloc(error_fn, NULL);
    printf("calling vnacal_apply_m with a 2x2 m matrix "
	    "(expected: -1/EINVAL, or a valid result)...\n");
    fflush(stdout);
    errno = 0;
    rc = vnacal_apply_m(vcp, 0, fv, 2, m, 2, 2, vdp);
    printf("vnacal_apply_m returned %d (errno %s)\n", rc, strerror(errno));
    vnadata_free(vdp);
    vnacal_free(vcp);
    return 0;
}

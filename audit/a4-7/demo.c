/*
 * Defect 7: vnacal_delete_parameter() starts with
 *     if (parameter < VNACAL_PREDEFINED_PARAMETERS) return 0;
 * before any validation.  Intended to make deleting MATCH/OPEN/SHORT a no-op,
 * it also makes every NEGATIVE handle (including the -1 failure value of the
 * vnacal_make_*_parameter functions) "delete successfully": no error
 * function call, errno untouched, return 0 - although vnacal_parameter(3)
 * documents -1/EINVAL for an invalid parameter handle.  The function also is
 * the only one of the parameter API that never checks vcp/vc_magic, so
 * vnacal_delete_parameter(NULL, 3) dereferences NULL while all its siblings
 * return -1 with EINVAL (run "./demo null" to see that).
 */
#include <stdio.h>
#include <stdlib.h>
#include <string.h>
#include <errno.h>
#include <complex.h>
#include <vnacal.h>

static int error_calls = 0;
static void error_fn(const char *msg, void *arg, vnaerr_category_t category)
{
    ++error_calls;
    printf("  error_fn: %s\n", msg);
}

int main(int argc, char **argv)
{
    vnacal_t *vcp = vnacal_create(error_fn, NULL);
    int bad = 0;
    static const int handles[] = { -1, -2, -1000000, 1000 };

    for (int i = 0; i < 4; ++i) {
	int rc;

	errno = 0;
	error_calls = 0;
	rc = vnacal_delete_parameter(vcp, handles[i]);
	printf("vnacal_delete_parameter(vcp, %d) -> %d, errno=%d (%s), "
		"error_fn calls=%d%s\n", handles[i], rc, errno,
		strerror(errno), error_calls,
		(rc != -1 || errno != EINVAL || error_calls != 1) ?
		"    <-- WRONG: expected -1, EINVAL, 1 call" : "");
	if (rc != -1 || errno != EINVAL || error_calls != 1)
	    ++bad;
    }
    if (argc > 1 && strcmp(argv[1], "null") == 0) {
	errno = 0;
	printf("vnacal_make_scalar_parameter(NULL, 0.5) -> %d errno=%d\n",
		vnacal_make_scalar_parameter(NULL, 0.5), errno);
	printf("calling vnacal_delete_parameter(NULL, 3) "
		"(expected -1/EINVAL)...\n");
	fflush(stdout);
	printf("-> %d\n", vnacal_delete_parameter(NULL, 3));
    }
    vnacal_free(vcp);
    printf("%s\n", bad ? "DEFECT REPRODUCED" : "ok");
    return bad != 0;
}

/*
 * Defect 8: _vnacommon_spline_calc() silently requires consecutive x values
 * to differ by at least MIN_DX = 0.0001 (an absolute, unit-dependent
 * constant) and fails with errno = EINVAL otherwise; its callers
 * (vnacal_make_correlated_parameter, vnacal_new_set_m_error) assume the only
 * possible failure is memory exhaustion and report
 *     VNAERR_SYSTEM "malloc: Invalid argument".
 * So a perfectly legal, strictly ascending sigma frequency vector - e.g.
 * frequencies expressed in GHz with a 50 kHz step, which
 * vnacal_make_vector_parameter and vnacal_new_set_frequency_vector accept -
 * is refused, and the refusal is reported as a system/malloc error instead
 * of a usage error that names the problem.
 */
#include <stdio.h>
#include <stdlib.h>
#include <string.h>
#include <errno.h>
#include <complex.h>
#include <vnacal.h>

static vnaerr_category_t last_category = -1;
static void error_fn(const char *msg, void *arg, vnaerr_category_t category)
{
    last_category = category;
    printf("  error_fn(category=%d%s): %s\n", category,
	    category == VNAERR_SYSTEM ? " VNAERR_SYSTEM" :
	    category == VNAERR_USAGE ? " VNAERR_USAGE" : "", msg);
}

int main(void)
{
    vnacal_t *vcp = vnacal_create(error_fn, NULL);
    /* frequencies in GHz, 50 kHz apart: strictly ascending, positive */
    static const double f_ghz[3] = { 1.00000, 1.00005, 1.00010 };
    /* the same points in Hz */
    static const double f_hz[3]  = { 1.00000e+9, 1.00005e+9, 1.00010e+9 };
    static const double complex gamma[3] = { 0.1, 0.2, 0.3 };
    static const double sigma[3] = { 0.01, 0.02, 0.03 };
    int v, c1, c2, c3;

    v = vnacal_make_vector_parameter(vcp, f_ghz, 3, gamma);
    printf("vnacal_make_vector_parameter (GHz units) -> %d (accepted)\n", v);

    c1 = vnacal_make_correlated_parameter(vcp, VNACAL_MATCH, f_hz, 3, sigma);
    printf("vnacal_make_correlated_parameter, Hz units  -> %d\n", c1);

    errno = 0;
    c2 = vnacal_make_correlated_parameter(vcp, VNACAL_MATCH, f_ghz, 3, sigma);
    printf("vnacal_make_correlated_parameter, GHz units -> %d, errno=%s\n",
	    c2, strerror(errno));

    errno = 0;
    c3 = vnacal_make_correlated_parameter(vcp, v, NULL, 3, sigma);
    printf("vnacal_make_correlated_parameter, frequencies taken from the "
	    "accepted vector parameter -> %d, errno=%s\n", c3, strerror(errno));

    vnacal_free(vcp);
    if (c2 == -1 && last_category == VNAERR_SYSTEM) {
	printf("DEFECT REPRODUCED: legal input refused and reported as a "
		"malloc/system error\n");
	return 1;
    }
    return 0;
}

/*
 * Defect 9: vnacal_add_calibration() validates vcp and vnp but not name.
 * A NULL name goes straight into strcmp()/strdup() in
 * _vnacal_add_calibration_common(): SIGSEGV instead of -1/EINVAL with a
 * "vnacal_add_calibration: invalid NULL name" style message, as every other
 * pointer argument of this API gets.
 */
#include <stdio.h>
#include <stdlib.h>
#include <string.h>
#include <errno.h>
#include <complex.h>
#include <vnacal.h>

#define F 2
static void error_fn(const char *msg, void *arg, vnaerr_category_t category)
{
    printf("  error_fn: %s\n", msg);
}

int main(void)
{
    static const double fv[F] = { 1.0e+9, 2.0e+9 };
    vnacal_t *vcp = vnacal_create(error_fn, NULL);
    vnacal_new_t *vnp = vnacal_new_alloc(vcp, VNACAL_E12, 1, 1, F);
    double complex mv[F];
    double complex *m[1] = { mv };
    int rc;

    vnacal_new_set_frequency_vector(vnp, fv);
    for (int i = 0; i < F; ++i) mv[i] = -1.0;
    vnacal_new_add_single_reflect_m(vnp, m, 1, 1, VNACAL_SHORT, 1);
    for (int i = 0; i < F; ++i) mv[i] = 1.0;
    vnacal_new_add_single_reflect_m(vnp, m, 1, 1, VNACAL_OPEN, 1);
    for (int i = 0; i < F; ++i) mv[i] = 0.0;
    vnacal_new_add_single_reflect_m(vnp, m, 1, 1, VNACAL_MATCH, 1);
    if (vnacal_new_solve(vnp) == -1)
	return 2;

    /* other invalid pointer arguments are answered properly */
    errno = 0;
    rc = vnacal_add_calibration(vcp, "x", NULL);
    printf("vnacal_add_calibration(vcp, \"x\", NULL) -> %d errno=%s\n",
	    rc, strerror(errno));

    printf("calling vnacal_add_calibration(vcp, NULL, vnp) "
	    "(expected -1/EINVAL)...\n");
    fflush(stdout);
    errno = 0;
    rc = vnacal_add_calibration(vcp, NULL, vnp);
    printf("-> %d errno=%s\n", rc, strerror(errno));
    vnacal_new_free(vnp);
    vnacal_free(vcp);
    return 0;
}

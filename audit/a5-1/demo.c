/*
 * Defect 1: vnadata_init() ignores an allocation failure inside its
 * internal vnadata_set_all_z0() call.  With a single failed calloc the
 * call reports the error through the error callback, then returns 0
 * (success) and leaves the object in per-frequency-z0 mode, which a
 * successful vnadata_init must never do.
 */
#include <complex.h>
#include <errno.h>
#include <math.h>
#include <stdbool.h>
#include <stdio.h>
#include <stdlib.h>
#include <string.h>
#include <vnadata.h>

/* ---- single-shot allocation fault injection (-Wl,--wrap=...) ---- */
static int fail_next_calloc;
void *__real_malloc(size_t);
void *__real_calloc(size_t, size_t);
void *__real_realloc(void *, size_t);
void *__wrap_malloc(size_t n)            { return __real_malloc(n); }
void *__wrap_realloc(void *p, size_t n)  { return __real_realloc(p, n); }
void *__wrap_calloc(size_t a, size_t b)
{
    if (fail_next_calloc) {
	fail_next_calloc = 0;
	errno = ENOMEM;
	return NULL;
    }
    return __real_calloc(a, b);
}

static int error_calls;
static void error_fn(const char *msg, void *arg, vnaerr_category_t category)
{
    ++error_calls;
    printf("    error callback: \"%s\" (category %d)\n", msg, (int)category);
}

int main(void)
{
    vnadata_t *vdp;
    int rc, bad = 0;

    if ((vdp = vnadata_alloc_and_init(error_fn, NULL, VPT_S, 2, 2, 3)) == NULL)
	return 2;
    /* switch the object to per-frequency reference impedances */
    if (vnadata_set_fz0(vdp, 0, 0, 75.0) == -1)
	return 2;
    printf("before: has_fz0=%d\n", (int)vnadata_has_fz0(vdp));

    /* re-initialise; the first allocation the call makes fails */
    error_calls = 0;
    fail_next_calloc = 1;
    errno = 0;
    rc = vnadata_init(vdp, VPT_S, 2, 2, 3);
    printf("vnadata_init with one failed calloc: rc=%d errno=%d (%s), "
	    "error callback called %d time(s)\n",
	    rc, errno, strerror(errno), error_calls);
    fail_next_calloc = 0;

    if (rc == -1) {
	if (errno != ENOMEM || error_calls != 1) {
	    printf("DEFECT: failure not reported as ENOMEM / one message\n");
	    bad = 1;
	}
    } else {
	/* call claims success: must be indistinguishable from a fault-free
	 * init, and must not have reported an error */
	double complex z;
	int n0;

	if (error_calls != 0) {
	    printf("DEFECT: error callback invoked on a call that "
		    "returned success\n");
	    bad = 1;
	}
	if (vnadata_has_fz0(vdp)) {
	    printf("DEFECT: after successful vnadata_init the object is "
		    "still in per-frequency z0 mode (has_fz0 = true)\n");
	    bad = 1;
	}
	n0 = error_calls;
	z = vnadata_get_z0(vdp, 0);
	printf("vnadata_get_z0(vdp, 0) after init -> %g%+gi\n",
		creal(z), cimag(z));
	if (creal(z) != 50.0 || error_calls != n0) {
	    printf("DEFECT: vnadata_get_z0 fails on a freshly initialised "
		    "object (expected 50 ohms)\n");
	    bad = 1;
	}
    }
    vnadata_free(vdp);
    printf(bad ? "RESULT: defect shown\n" : "RESULT: ok\n");
    return bad;
}

/*
 * Defect 2: vnadata_set_format() that fails with ENOMEM in its last
 * allocation has already replaced the format vector and freed the old
 * format string: the failed call changes the object (half-updated).
 */
#include <complex.h>
#include <errno.h>
#include <math.h>
#include <stdio.h>
#include <stdlib.h>
#include <string.h>
#include <vnadata.h>

static int countdown;		/* fail the countdown-th allocation */
void *__real_malloc(size_t);
void *__real_calloc(size_t, size_t);
void *__real_realloc(void *, size_t);
static int hit(void)
{
    if (countdown > 0 && --countdown == 0) {
	errno = ENOMEM;
	return 1;
    }
    return 0;
}
void *__wrap_malloc(size_t n)           { return hit() ? NULL : __real_malloc(n); }
void *__wrap_calloc(size_t a, size_t b) { return hit() ? NULL : __real_calloc(a, b); }
void *__wrap_realloc(void *p, size_t n) { return hit() ? NULL : __real_realloc(p, n); }

static void error_fn(const char *msg, void *arg, vnaerr_category_t category)
{
    printf("    error callback: \"%s\"\n", msg);
}

static void show_saved_header(vnadata_t *vdp, const char *tag)
{
    FILE *fp;
    char line[256];

    if (vnadata_save(vdp, "demo2.npd") == -1) {
	printf("  [%s] vnadata_save failed\n", tag);
	return;
    }
    if ((fp = fopen("demo2.npd", "r")) == NULL)
	return;
    while (fgets(line, sizeof(line), fp) != NULL) {
	if (strncmp(line, "#:format", 8) == 0 ||
		strncmp(line, "#:parameters", 12) == 0)
	    printf("  [%s] saved file says: %s", tag, line);
    }
    fclose(fp);
}

int main(void)
{
    vnadata_t *vdp;
    const char *before, *after;
    char before_copy[64];
    int rc, bad = 0;

    if ((vdp = vnadata_alloc_and_init(error_fn, NULL, VPT_S, 2, 2, 1)) == NULL)
	return 2;
    vnadata_set_frequency(vdp, 0, 1.0e+9);
    vnadata_set_cell(vdp, 0, 0, 1, 0.5);
    vnadata_set_cell(vdp, 0, 1, 0, 0.5);
    if (vnadata_set_format(vdp, "SdB") == -1)
	return 2;
    before = vnadata_get_format(vdp);
    snprintf(before_copy, sizeof(before_copy), "%s", before ? before : "(null)");
    printf("format before          : %s\n", before_copy);
    show_saved_header(vdp, "before");

    /* third allocation of the call (the new format string) fails */
    countdown = 3;
    errno = 0;
    rc = vnadata_set_format(vdp, "Zma,Yri");
    countdown = 0;
    printf("vnadata_set_format(\"Zma,Yri\") with 3rd allocation failing: "
	    "rc=%d errno=%d (%s)\n", rc, errno, strerror(errno));
    after = vnadata_get_format(vdp);
    printf("format after failed set: %s\n", after ? after : "(null)");
    show_saved_header(vdp, "after ");

    if (rc == -1) {
	if (after == NULL || strcmp(after, before_copy) != 0) {
	    printf("DEFECT: the failed call changed the object: "
		    "vnadata_get_format was \"%s\", now %s; the save format "
		    "in effect is the one the failed call asked for\n",
		    before_copy, after ? after : "NULL");
	    bad = 1;
	}
    } else if (after == NULL || strcmp(after, "Zma,Yri") != 0) {
	printf("DEFECT: success but format not set\n");
	bad = 1;
    }
    /*
     * Consequence: the file just written by the (successful) vnadata_save
     * carries "#:parameters (null)" and cannot be loaded back.
     */
    {
	vnadata_t *vdp2 = vnadata_alloc(error_fn, NULL);
	int rc2 = vnadata_load(vdp2, "demo2.npd");

	printf("vnadata_load of the file saved after the failed call: rc=%d\n",
		rc2);
	if (rc2 == -1) {
	    printf("DEFECT: object left half-built: vnadata_save succeeds "
		    "but writes a file vnadata_load rejects\n");
	    bad = 1;
	}
	vnadata_free(vdp2);
    }
    vnadata_free(vdp);
    remove("demo2.npd");
    printf(bad ? "RESULT: defect shown\n" : "RESULT: ok\n");
    return bad;
}

/*
 * Defect 3: vnadata_convert() of a zero-port S (or Z, Y) object into a
 * second object with new type VPT_ZIN reads one reference impedance from
 * the source's (non-existent) z0 vector: NULL dereference / heap overread.
 *
 * A 0 x 0 S-parameter object is accepted by vnadata_init and the same
 * conversion done in place (vdp_out == vdp_in) works and yields a 1 x 0
 * Zin object.
 */
#include <complex.h>
#include <errno.h>
#include <stdio.h>
#include <stdlib.h>
#include <string.h>
#include <vnadata.h>

static void error_fn(const char *msg, void *arg, vnaerr_category_t category)
{
    printf("    error callback: \"%s\"\n", msg);
}

int main(void)
{
    vnadata_t *in, *out, *ip;
    int rc;

    setvbuf(stdout, NULL, _IONBF, 0);

    /* in-place reference: works */
    ip = vnadata_alloc_and_init(error_fn, NULL, VPT_S, 0, 0, 2);
    if (ip == NULL) {
	printf("0 x 0 S object refused by vnadata_init\n");
	return 0;
    }
    rc = vnadata_convert(ip, ip, VPT_ZIN);
    printf("in-place  0x0 S -> Zin: rc=%d, result type %s %d x %d x %d\n",
	    rc, vnadata_get_type_name(vnadata_get_type(ip)),
	    vnadata_get_rows(ip), vnadata_get_columns(ip),
	    vnadata_get_frequencies(ip));
    vnadata_free(ip);

    /* the same conversion into a second object */
    in  = vnadata_alloc_and_init(error_fn, NULL, VPT_S, 0, 0, 2);
    out = vnadata_alloc(error_fn, NULL);
    if (in == NULL || out == NULL)
	return 2;
    printf("calling vnadata_convert(in, out, VPT_ZIN) with in = 0 x 0 x 2 S "
	    "(expected: rc 0 and a 1 x 0 Zin object, or a clean -1) ...\n");
    rc = vnadata_convert(in, out, VPT_ZIN);	/* SIGSEGV here */
    printf("two-object 0x0 S -> Zin: rc=%d, result type %s %d x %d x %d\n",
	    rc, vnadata_get_type_name(vnadata_get_type(out)),
	    vnadata_get_rows(out), vnadata_get_columns(out),
	    vnadata_get_frequencies(out));
    vnadata_free(in);
    vnadata_free(out);
    printf("RESULT: ok\n");
    return 0;
}

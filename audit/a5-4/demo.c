/*
 * Defect 4: several vnadata functions call memcpy()/memset() with a NULL
 * pointer and length zero when the object has zero ports / zero cells /
 * zero frequencies (nothing allocated yet).  Passing NULL to memcpy/memset
 * is undefined behaviour even for length 0 (C11 7.24.1p2; glibc declares the
 * arguments __nonnull).  UndefinedBehaviorSanitizer stops each call.
 *
 * Build with clang -fsanitize=address,undefined -fno-sanitize-recover=undefined.
 * Every case runs in a child process; the parent counts the children that
 * were stopped by the sanitizer.
 */
#include <complex.h>
#include <errno.h>
#include <stdio.h>
#include <stdlib.h>
#include <string.h>
#include <sys/wait.h>
#include <unistd.h>
#include <vnadata.h>

static void error_fn(const char *msg, void *arg, vnaerr_category_t category)
{
    printf("    error callback: \"%s\"\n", msg);
}

static int run_case(int c)
{
    static const double complex z[2] = { 50.0, 50.0 };
    static const double f[2] = { 1.0, 2.0 };
    vnadata_t *vdp;
    int rc = 0;

    switch (c) {
    case 0:	/* set_z0_vector on a freshly allocated (0 x 0) object */
	vdp = vnadata_alloc(error_fn, NULL);
	rc = vnadata_set_z0_vector(vdp, z);
	break;
    case 1:	/* set_frequency_vector on a freshly allocated object */
	vdp = vnadata_alloc(error_fn, NULL);
	rc = vnadata_set_frequency_vector(vdp, f);
	break;
    case 2:	/* set_matrix on a 0 x 0 x 2 object */
	vdp = vnadata_alloc_and_init(error_fn, NULL, VPT_UNDEF, 0, 0, 2);
	rc = vnadata_set_matrix(vdp, 0, z);
	break;
    case 3:	/* set_fz0_vector on a 0 x 0 x 2 object */
	vdp = vnadata_alloc_and_init(error_fn, NULL, VPT_S, 0, 0, 2);
	rc = vnadata_set_fz0_vector(vdp, 0, z);
	break;
    case 4:	/* shrinking the frequencies of a 0 x 0 x 2 object
		   (also done by every vnadata_init / vnadata_load on it) */
	vdp = vnadata_alloc_and_init(error_fn, NULL, VPT_S, 0, 0, 2);
	rc = vnadata_resize(vdp, VPT_S, 0, 0, 1);
	break;
    default:
	return 0;
    }
    vnadata_free(vdp);
    return rc == 0 ? 0 : 3;
}

int main(void)
{
    static const char *const names[] = {
	"vnadata_alloc; vnadata_set_z0_vector",
	"vnadata_alloc; vnadata_set_frequency_vector",
	"vnadata_init(0x0x2); vnadata_set_matrix(findex 0)",
	"vnadata_init(0x0x2); vnadata_set_fz0_vector(findex 0)",
	"vnadata_init(0x0x2); vnadata_resize(0x0x1)",
    };
    int stopped = 0;

    setvbuf(stdout, NULL, _IONBF, 0);
    for (int c = 0; c < 5; ++c) {
	pid_t pid;
	int status = 0;

	printf("case %d: %s\n", c, names[c]);
	if ((pid = fork()) == 0) {
	    _exit(run_case(c));
	}
	(void)waitpid(pid, &status, 0);
	if (WIFEXITED(status) && WEXITSTATUS(status) == 0) {
	    printf("  -> completed normally\n");
	} else {
	    printf("  -> DEFECT: child stopped (status 0x%x): undefined "
		    "behaviour reported above\n", status);
	    ++stopped;
	}
    }
    printf("%d of 5 call sequences executed undefined behaviour\n", stopped);
    printf(stopped ? "RESULT: defect shown\n" : "RESULT: ok\n");
    return stopped != 0;
}

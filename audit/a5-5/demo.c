/*
 * Defect 5: vnadata_get_fmin()/vnadata_get_fmax() are documented to
 * "return the lowest and highest frequencies, respectively" but return
 * the first and last vector entries.  vnadata places no ordering
 * requirement on the frequency vector (vnadata_set_frequency,
 * vnadata_set_frequency_vector, vnadata_add_frequency and the NPD loader all
 * accept a descending sweep), so fmin > fmax is returned.
 */
#include <complex.h>
#include <errno.h>
#include <math.h>
#include <stdio.h>
#include <stdlib.h>
#include <vnadata.h>

static void error_fn(const char *msg, void *arg, vnaerr_category_t category)
{
    printf("    error callback: \"%s\"\n", msg);
}

int main(void)
{
    static const double sweep[3] = { 3.0e+9, 2.0e+9, 1.0e+9 };
    vnadata_t *vdp;
    FILE *fp;
    double fmin, fmax;
    int bad = 0;

    /* 1: built through the API */
    vdp = vnadata_alloc_and_init(error_fn, NULL, VPT_S, 1, 1, 0);
    if (vdp == NULL)
	return 2;
    for (int i = 0; i < 3; ++i) {
	if (vnadata_add_frequency(vdp, sweep[i]) == -1)	/* all accepted */
	    return 2;
    }
    fmin = vnadata_get_fmin(vdp);
    fmax = vnadata_get_fmax(vdp);
    printf("API-built  {3e9, 2e9, 1e9}: get_fmin=%g get_fmax=%g\n", fmin, fmax);
    if (fmin != 1.0e+9 || fmax != 3.0e+9) {
	printf("DEFECT: expected lowest=1e+09 highest=3e+09\n");
	bad = 1;
    }

    /* 2: loaded by the library itself from an NPD file */
    if ((fp = fopen("demo5.npd", "w")) == NULL)
	return 2;
    fprintf(fp, "#NPD\n#:version 1.0\n#:ports 1\n#:frequencies 3\n"
	    "#:parameters Sri\n#:z0 50 0\n"
	    "3e9 0.1 0\n2e9 0.2 0\n1e9 0.3 0\n");
    fclose(fp);
    if (vnadata_load(vdp, "demo5.npd") == 0) {
	fmin = vnadata_get_fmin(vdp);
	fmax = vnadata_get_fmax(vdp);
	printf("NPD-loaded {3e9, 2e9, 1e9}: get_fmin=%g get_fmax=%g\n",
		fmin, fmax);
	if (fmin != 1.0e+9 || fmax != 3.0e+9) {
	    printf("DEFECT: expected lowest=1e+09 highest=3e+09\n");
	    bad = 1;
	}
    } else {
	printf("(NPD load of a descending sweep was refused)\n");
    }
    remove("demo5.npd");
    vnadata_free(vdp);
    printf(bad ? "RESULT: defect shown\n" : "RESULT: ok\n");
    return bad;
}

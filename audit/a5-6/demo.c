/*
 * Defect 6: the n-port conversion functions keep their n x n work
 * matrices in variable-length arrays on the stack, so a large but
 * legal port count overflows the stack and the process dies with SIGSEGV
 * instead of converting (or failing cleanly).  Shown both through
 * vnadata_convert (Z -> Y of an 800-port object, 10 MB per matrix) and
 * directly through vnaconv_stozn.
 */
#include <complex.h>
#include <errno.h>
#include <signal.h>
#include <stdio.h>
#include <stdlib.h>
#include <string.h>
#include <sys/resource.h>
#include <unistd.h>
#include <vnaconv.h>
#include <vnadata.h>

#define PORTS	800

static void error_fn(const char *msg, void *arg, vnaerr_category_t category)
{
    printf("    error callback: \"%s\"\n", msg);
}

static const char *where = "?";
static void on_segv(int sig)
{
    static const char m1[] = "DEFECT: SIGSEGV (stack overflow) inside ";
    static const char m2[] = "\nRESULT: defect shown\n";

    (void)!write(1, m1, sizeof(m1) - 1);
    (void)!write(1, where, strlen(where));
    (void)!write(1, m2, sizeof(m2) - 1);
    _exit(1);
}

int main(int argc, char **argv)
{
    static char altstack[1 << 16];
    stack_t ss = { .ss_sp = altstack, .ss_size = sizeof(altstack) };
    struct sigaction sa;
    struct rlimit rl;
    vnadata_t *vdp;
    int n = PORTS;

    setvbuf(stdout, NULL, _IONBF, 0);
    sigaltstack(&ss, NULL);
    memset(&sa, 0, sizeof(sa));
    sa.sa_handler = on_segv;
    sa.sa_flags = SA_ONSTACK;
    sigaction(SIGSEGV, &sa, NULL);
    getrlimit(RLIMIT_STACK, &rl);
    printf("stack limit: %lu kB, ports: %d (one matrix = %lu kB)\n",
	    (unsigned long)(rl.rlim_cur / 1024), n,
	    (unsigned long)((size_t)n * n * sizeof(double complex) / 1024));

    /* a perfectly well-conditioned network: Z = 50 * identity */
    vdp = vnadata_alloc_and_init(error_fn, NULL, VPT_Z, n, n, 1);
    if (vdp == NULL) {
	printf("could not build the object (no defect shown)\n");
	return 0;
    }
    vnadata_set_frequency(vdp, 0, 1.0e+9);
    for (int i = 0; i < n; ++i) {
	vnadata_set_cell(vdp, 0, i, i, 50.0);
    }
    if (argc > 1) {		/* direct vnaconv call */
	double complex *s = calloc((size_t)n * n, sizeof(double complex));
	double complex *z = calloc((size_t)n * n, sizeof(double complex));
	double complex *z0 = calloc(n, sizeof(double complex));

	for (int i = 0; i < n; ++i)
	    z0[i] = 50.0;		/* S = 0: matched n-port */
	where = "vnaconv_stozn(s, z, z0, 800)";
	printf("calling %s ...\n", where);
	vnaconv_stozn(s, z, z0, n);
	printf("returned; z[0][0] = %g\n", creal(z[0]));
    } else {
	int rc;

	where = "vnadata_convert(vdp, vdp, VPT_Y) on an 800 x 800 Z object";
	printf("calling %s ...\n", where);
	rc = vnadata_convert(vdp, vdp, VPT_Y);
	printf("returned %d; y11 = %g (expected 0.02)\n", rc,
		creal(vnadata_get_cell(vdp, 0, 0, 0)));
    }
    vnadata_free(vdp);
    printf("RESULT: ok\n");
    return 0;
}

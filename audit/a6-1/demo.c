/*
 * Defect 1: vnacal_free() aborts (assertion) when a parameter that was
 * deleted by the user is still referenced by an unknown/correlated
 * parameter that lives in a LOWER slot of the parameter table.
 *
 * exit 0 = vnacal_free returned normally; abort/non-zero = defect.
 */
#include <stdio.h>
#include <stdlib.h>
#include <complex.h>
#include <vnacal.h>

static void errfn(const char *msg, void *arg, vnaerr_category_t cat)
{
    (void)arg; (void)cat;
    fprintf(stderr, "libvna: %s\n", msg);
}

int main(void)
{
    vnacal_t *vcp = vnacal_create(errfn, NULL);
    int a, p, u;

    if (vcp == NULL)
	return 2;
    a = vnacal_make_scalar_parameter(vcp, 0.5);	/* slot 3 */
    p = vnacal_make_scalar_parameter(vcp, 0.3);	/* slot 4 */
    if (vnacal_delete_parameter(vcp, a) == -1)	/* slot 3 free again */
	return 2;
    u = vnacal_make_unknown_parameter(vcp, p);	/* re-uses slot 3, holds p */
    printf("a=%d p=%d u=%d\n", a, p, u);
    if (u == -1 || u >= p) {
	printf("unexpected handle numbering; cannot run the scenario\n");
	return 2;
    }
    /*
     * Legal according to vnacal_parameter(3): p is the initial guess of u,
     * "a copy of the parameter will continue to exist internally until the
     * last reference has been released".
     */
    if (vnacal_delete_parameter(vcp, p) == -1) {
	printf("delete of p failed\n");
	return 2;
    }
    printf("calling vnacal_free...\n");
    fflush(stdout);
    vnacal_free(vcp);		/* aborts in _vnacal_teardown_parameter_collection */
    printf("vnacal_free returned normally\n");
    return 0;
}

/*
 * Defect 10: Touchstone 2 two-port files are written with the keyword
 * "[Two-Port Order]"; the Touchstone 2.0 specification (IBIS Open Forum,
 * 2009) names the mandatory two-port keyword "[Two-Port Data Order]".
 * An independent reader does not find the required keyword in files written
 * by vnadata_save(), and vnadata_load() rejects files that use the keyword
 * of the specification.
 *
 * exit 0 = standard keyword written and accepted; exit 1 = defect shown.
 */
#include <stdio.h>
#include <stdlib.h>
#include <string.h>
#include <errno.h>
#include <complex.h>
#include <vnadata.h>

static void errfn(const char *msg, void *arg, vnaerr_category_t cat)
{
    (void)arg; (void)cat;
    fprintf(stderr, "    libvna: %s\n", msg);
}

int main(void)
{
    vnadata_t *vdp = vnadata_alloc_and_init(errfn, NULL, VPT_S, 2, 2, 1);
    vnadata_t *v2 = vnadata_alloc(errfn, NULL);
    FILE *fp;
    char line[256];
    int have_standard = 0, have_nonstandard = 0, defects = 0, rc;

    if (vdp == NULL || v2 == NULL)
	return 2;
    vnadata_set_frequency(vdp, 0, 1e9);
    vnadata_set_cell(vdp, 0, 0, 0, 0.1);
    vnadata_set_cell(vdp, 0, 0, 1, 0.7);
    vnadata_set_cell(vdp, 0, 1, 0, 0.9);
    vnadata_set_cell(vdp, 0, 1, 1, 0.2);
    if (vnadata_save(vdp, "demo10_written.ts") == -1)
	return 2;
    if ((fp = fopen("demo10_written.ts", "r")) == NULL)
	return 2;
    printf("file written by vnadata_save:\n");
    while (fgets(line, sizeof(line), fp) != NULL) {
	printf("    %s", line);
	if (strncmp(line, "[Two-Port Data Order]", 21) == 0)
	    have_standard = 1;
	if (strncmp(line, "[Two-Port Order]", 16) == 0)
	    have_nonstandard = 1;
    }
    fclose(fp);
    printf("contains \"[Two-Port Data Order]\": %s, contains "
	    "\"[Two-Port Order]\": %s\n",
	    have_standard ? "yes" : "no", have_nonstandard ? "yes" : "no");
    if (!have_standard)
	++defects;

    /* the same data as the specification spells it */
    if ((fp = fopen("demo10_spec.ts", "w")) == NULL)
	return 2;
    fprintf(fp,
	    "[Version] 2.0\n"
	    "# Hz S RI R 50\n"
	    "[Number of Ports] 2\n"
	    "[Two-Port Data Order] 12_21\n"
	    "[Number of Frequencies] 1\n"
	    "[Network Data]\n"
	    "1e9 0.1 0 0.7 0 0.9 0 0.2 0\n"
	    "[End]\n");
    fclose(fp);
    errno = 0;
    rc = vnadata_load(v2, "demo10_spec.ts");
    printf("vnadata_load of a file using \"[Two-Port Data Order] 12_21\": "
	    "%d (errno=%d)\n", rc, rc == -1 ? errno : 0);
    if (rc == -1)
	++defects;
    else if (vnadata_get_cell(v2, 0, 0, 1) != 0.7)
	++defects;
    vnadata_free(v2);
    vnadata_free(vdp);
    remove("demo10_written.ts");
    remove("demo10_spec.ts");
    return defects != 0;
}

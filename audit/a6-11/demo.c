/*
 * Defect 11: the frequency validation of the parameter functions is written
 * with comparisons that are all false for NaN, so NaN slips through:
 *  - vnacal_make_vector_parameter() accepts a frequency vector containing
 *    NaN, even one that is not ascending ({3e9, NaN, 1e9});
 *  - vnacal_get_parameter_value() with frequency NaN is not refused: it
 *    returns NaN with errno untouched and no error message instead of
 *    HUGE_VAL / EINVAL.
 *
 * exit 0 = all invalid inputs refused; exit 1 = defect shown.
 */
#include <stdio.h>
#include <stdlib.h>
#include <string.h>
#include <errno.h>
#include <math.h>
#include <complex.h>
#include <vnacal.h>

static int messages;
static void errfn(const char *msg, void *arg, vnaerr_category_t cat)
{
    (void)arg; (void)cat;
    ++messages;
    fprintf(stderr, "    libvna: %s\n", msg);
}

int main(void)
{
    vnacal_t *vcp = vnacal_create(errfn, NULL);
    static const double good_f[3] = { 1e9, 2e9, 3e9 };
    double bad_f1[3] = { 1e9, NAN, 3e9 };
    double bad_f2[3] = { 3e9, NAN, 1e9 };	/* not ascending either */
    double bad_f3[3] = { NAN, 2e9, 3e9 };
    static const double complex g[3] = { 0.1, 0.2, 0.3 };
    double complex v;
    int p, q, defects = 0;

    if (vcp == NULL)
	return 2;
    /* control: a descending vector is refused */
    {
	double desc[3] = { 3e9, 2e9, 1e9 };

	errno = 0;
	q = vnacal_make_vector_parameter(vcp, desc, 3, g);
	printf("make_vector_parameter {3e9,2e9,1e9}: %d errno=%d (control)\n",
		q, errno);
    }
    errno = 0; messages = 0;
    q = vnacal_make_vector_parameter(vcp, bad_f1, 3, g);
    printf("make_vector_parameter {1e9,NaN,3e9}: %d errno=%d messages=%d\n",
	    q, errno, messages);
    if (q != -1) {
	++defects;
	errno = 0;
	v = vnacal_get_parameter_value(vcp, q, 2e9);
	printf("    value of that parameter at 2e9 (given 0.1,0.2,0.3): "
		"%g%+gj errno=%d\n", creal(v), cimag(v), errno);
    }
    errno = 0; messages = 0;
    q = vnacal_make_vector_parameter(vcp, bad_f2, 3, g);
    printf("make_vector_parameter {3e9,NaN,1e9}: %d errno=%d messages=%d\n",
	    q, errno, messages);
    if (q != -1)
	++defects;
    errno = 0; messages = 0;
    q = vnacal_make_vector_parameter(vcp, bad_f3, 3, g);
    printf("make_vector_parameter {NaN,2e9,3e9}: %d errno=%d messages=%d\n",
	    q, errno, messages);
    if (q != -1)
	++defects;

    p = vnacal_make_vector_parameter(vcp, good_f, 3, g);
    if (p == -1)
	return 2;
    errno = 0; messages = 0;
    v = vnacal_get_parameter_value(vcp, p, 0.5e9);
    printf("get_parameter_value(f=0.5e9, out of range): %g errno=%d "
	    "messages=%d (control)\n", creal(v), errno, messages);
    errno = 0; messages = 0;
    v = vnacal_get_parameter_value(vcp, p, NAN);
    printf("get_parameter_value(f=NaN): %g%+gj errno=%d messages=%d\n",
	    creal(v), cimag(v), errno, messages);
    if (!(creal(v) == HUGE_VAL && errno == EINVAL && messages == 1))
	++defects;
    vnacal_free(vcp);
    printf("%d invalid input(s) accepted\n", defects);
    return defects != 0;
}

/*
 * Defect 2: a single allocation failure inside vnacal_save() makes it
 * return 0 (success) while writing a file in which user properties have
 * silently been replaced by null ("~") or an empty list.
 *
 * Build with -Wl,--wrap=malloc,--wrap=calloc,--wrap=realloc,--wrap=strdup
 * exit 0 = every faulted call either failed with ENOMEM or wrote the same
 * file as the fault-free call; exit 1 = defect shown.
 */
#include <stdio.h>
#include <stdlib.h>
#include <string.h>
#include <errno.h>
#include <complex.h>
#include <vnacal.h>

/* ---- allocation fault injection ---- */
static long fi_count, fi_fail_at = -1;
static int fi_on;
void *__real_malloc(size_t);
void *__real_calloc(size_t, size_t);
void *__real_realloc(void *, size_t);
char *__real_strdup(const char *);
static int fi_hit(void)
{
    if (!fi_on)
	return 0;
    if (++fi_count == fi_fail_at) {
	errno = ENOMEM;
	return 1;
    }
    return 0;
}
void *__wrap_malloc(size_t n) { return fi_hit() ? NULL : __real_malloc(n); }
void *__wrap_calloc(size_t a, size_t b) { return fi_hit() ? NULL : __real_calloc(a, b); }
void *__wrap_realloc(void *p, size_t n) { return fi_hit() ? NULL : __real_realloc(p, n); }
char *__wrap_strdup(const char *s) { return fi_hit() ? NULL : __real_strdup(s); }

static void errfn(const char *msg, void *arg, vnaerr_category_t cat)
{
    (void)arg; (void)cat;
    fprintf(stderr, "    libvna: %s\n", msg);
}

/* one-port E12 calibration from three reflect measurements */
static vnacal_t *make_vcp(void)
{
    static const double fv[3] = { 1e9, 2e9, 3e9 };
    double complex sh[3] = { -0.9, -0.8+0.1*I, -0.7 };
    double complex op[3] = {  0.9,  0.8-0.1*I,  0.7 };
    double complex ld[3] = {  0.01, 0.02, 0.03*I };
    double complex *m[1];
    vnacal_t *vcp;
    vnacal_new_t *vnp;

    if ((vcp = vnacal_create(errfn, NULL)) == NULL)
	exit(2);
    if ((vnp = vnacal_new_alloc(vcp, VNACAL_E12, 1, 1, 3)) == NULL)
	exit(2);
    vnacal_new_set_frequency_vector(vnp, fv);
    m[0] = sh; vnacal_new_add_single_reflect_m(vnp, m, 1, 1, VNACAL_SHORT, 1);
    m[0] = op; vnacal_new_add_single_reflect_m(vnp, m, 1, 1, VNACAL_OPEN, 1);
    m[0] = ld; vnacal_new_add_single_reflect_m(vnp, m, 1, 1, VNACAL_MATCH, 1);
    if (vnacal_new_solve(vnp) == -1 ||
	    vnacal_add_calibration(vcp, "cal", vnp) == -1)
	exit(2);
    vnacal_new_free(vnp);
    if (vnacal_property_set(vcp, -1, "instrument.ports[1]=B") == -1 ||
	    vnacal_property_set(vcp, 0, "operator=alice") == -1)
	exit(2);
    return vcp;
}

int main(void)
{
    int defects = 0;

    for (int k = 1; k < 1000; ++k) {
	vnacal_t *vcp = make_vcp();
	int rc, e;
	long count;

	if (vnacal_save(vcp, "good.vnacal") == -1)
	    return 2;
	fi_count = 0; fi_fail_at = k; errno = 0;
	fi_on = 1;
	rc = vnacal_save(vcp, "faulted.vnacal");
	e = errno;
	fi_on = 0;
	count = fi_count;
	vnacal_free(vcp);
	if (count < k) {
	    printf("vnacal_save makes %ld interceptable allocations\n", count);
	    break;
	}
	if (rc == -1) {
	    if (e != ENOMEM) {
		printf("allocation #%d failed: rc=-1 but errno=%d\n", k, e);
		++defects;
	    }
	    continue;
	}
	if (system("cmp -s good.vnacal faulted.vnacal") != 0) {
	    vnacal_t *v2;
	    const char *s1, *s2;

	    printf("allocation #%d failed: vnacal_save returned 0 but the "
		    "file differs from the fault-free one:\n", k);
	    fflush(stdout);
	    system("diff good.vnacal faulted.vnacal | sed 's/^/    /'");
	    if ((v2 = vnacal_load("faulted.vnacal", errfn, NULL)) != NULL) {
		s1 = vnacal_property_get(v2, -1, "instrument.ports[1]");
		s2 = vnacal_property_get(v2, 0, "operator");
		printf("    reloaded: instrument.ports[1]=%s operator=%s\n",
			s1 ? s1 : "(missing)", s2 ? s2 : "(missing)");
		vnacal_free(v2);
	    }
	    ++defects;
	}
    }
    printf("%d defective outcome(s)\n", defects);
    return defects != 0;
}

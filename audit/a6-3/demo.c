/*
 * Defect 3: an allocation failure in _vnadata_update_format_string()
 * (reached from vnadata_set_format() and from vnadata_save()) leaves the
 * vnadata_t with a format vector but a NULL format string.  The failed call
 * does report ENOMEM, but the object is half-built: the next, fault-free
 * vnadata_save() passes NULL to printf("%s") and writes
 * "#:parameters (null)", a file vnadata_load() rejects.
 *
 * Build with -Wl,--wrap=malloc,--wrap=calloc,--wrap=realloc,--wrap=strdup
 * exit 0 = object stayed consistent; exit 1 = defect shown.
 */
#include <stdio.h>
#include <stdlib.h>
#include <string.h>
#include <errno.h>
#include <complex.h>
#include <vnadata.h>

static long fi_count, fi_fail_at = -1;
static int fi_on;
void *__real_malloc(size_t);
void *__real_calloc(size_t, size_t);
void *__real_realloc(void *, size_t);
char *__real_strdup(const char *);
static int fi_hit(void)
{
    if (!fi_on)
	return 0;
    if (++fi_count == fi_fail_at) {
	errno = ENOMEM;
	return 1;
    }
    return 0;
}
void *__wrap_malloc(size_t n) { return fi_hit() ? NULL : __real_malloc(n); }
void *__wrap_calloc(size_t a, size_t b) { return fi_hit() ? NULL : __real_calloc(a, b); }
void *__wrap_realloc(void *p, size_t n) { return fi_hit() ? NULL : __real_realloc(p, n); }
char *__wrap_strdup(const char *s) { return fi_hit() ? NULL : __real_strdup(s); }

static void errfn(const char *msg, void *arg, vnaerr_category_t cat)
{
    (void)arg; (void)cat;
    fprintf(stderr, "    libvna: %s\n", msg);
}

static vnadata_t *make(void)
{
    vnadata_t *vdp = vnadata_alloc_and_init(errfn, NULL, VPT_S, 2, 2, 2);

    if (vdp == NULL)
	exit(2);
    vnadata_set_frequency(vdp, 0, 1e9);
    vnadata_set_frequency(vdp, 1, 2e9);
    for (int f = 0; f < 2; ++f) {
	vnadata_set_cell(vdp, f, 0, 0, 0.1 + 0.1 * I);
	vnadata_set_cell(vdp, f, 0, 1, 0.8);
	vnadata_set_cell(vdp, f, 1, 0, 0.8);
	vnadata_set_cell(vdp, f, 1, 1, 0.2 - 0.1 * I);
    }
    return vdp;
}

/* after the faulted call: is the object still usable? */
static int check_usable(vnadata_t *vdp, const char *what, int k)
{
    vnadata_t *v2;
    const char *fmt = vnadata_get_format(vdp);
    int bad = 0;

    printf("%s, allocation #%d failed -> vnadata_get_format()=%s\n",
	    what, k, fmt ? fmt : "NULL");
    if (vnadata_save(vdp, "after.npd") == -1) {
	printf("    fault-free vnadata_save afterwards FAILED\n");
	return 1;
    }
    fflush(stdout);
    system("grep '^#:parameters' after.npd | sed 's/^/    file says: /'");
    if ((v2 = vnadata_alloc(errfn, NULL)) == NULL)
	exit(2);
    if (vnadata_load(v2, "after.npd") == -1) {
	printf("    vnadata_save returned 0 but vnadata_load rejects the file\n");
	bad = 1;
    }
    vnadata_free(v2);
    return bad;
}

int main(void)
{
    int defects = 0;

    /* A: vnadata_set_format */
    for (int k = 1; k < 100; ++k) {
	vnadata_t *vdp = make();
	int rc;
	long count;

	vnadata_set_format(vdp, "Sma");
	fi_count = 0; fi_fail_at = k; fi_on = 1;
	rc = vnadata_set_format(vdp, "Sri,Zri");
	fi_on = 0;
	count = fi_count;
	if (count >= k && rc == -1)
	    defects += check_usable(vdp, "vnadata_set_format(\"Sri,Zri\")", k);
	vnadata_free(vdp);
	if (count < k)
	    break;
    }
    /* B: vnadata_save with no format set (default format is installed) */
    for (int k = 1; k < 100; ++k) {
	vnadata_t *vdp = make();
	int rc;
	long count;

	fi_count = 0; fi_fail_at = k; fi_on = 1;
	rc = vnadata_save(vdp, "first.npd");
	fi_on = 0;
	count = fi_count;
	if (count >= k && rc == -1)
	    defects += check_usable(vdp, "vnadata_save() with default format", k);
	vnadata_free(vdp);
	if (count < k)
	    break;
    }
    printf("%d defective outcome(s)\n", defects);
    return defects != 0;
}

/*
 * Defect 4: _vnacal_calibration_free() and vnacal_free() dispose of the
 * property trees with vnaproperty_delete(&root, "."), a call that allocates
 * memory and whose result is ignored.  One allocation failure in
 *   vnacal_delete_calibration()  -> returns 0 but leaks the property tree
 *   vnacal_free()                -> leaks, or aborts on
 *                                   assert(vcp->vc_properties == NULL)
 *
 * Build with ASan and -Wl,--wrap=malloc,--wrap=calloc,--wrap=realloc,--wrap=strdup
 * usage: demo [mode [k]]   mode 0: delete_calibration, 1: vnacal_free
 * Without arguments runs all scenarios in child processes.
 * exit 0 = clean; non-zero / LeakSanitizer report / abort = defect.
 */
#include <stdio.h>
#include <stdlib.h>
#include <string.h>
#include <errno.h>
#include <complex.h>
#include <vnacal.h>

static long fi_count, fi_fail_at = -1;
static int fi_on;
void *__real_malloc(size_t);
void *__real_calloc(size_t, size_t);
void *__real_realloc(void *, size_t);
char *__real_strdup(const char *);
static int fi_hit(void)
{
    if (!fi_on)
	return 0;
    if (++fi_count == fi_fail_at) {
	errno = ENOMEM;
	return 1;
    }
    return 0;
}
void *__wrap_malloc(size_t n) { return fi_hit() ? NULL : __real_malloc(n); }
void *__wrap_calloc(size_t a, size_t b) { return fi_hit() ? NULL : __real_calloc(a, b); }
void *__wrap_realloc(void *p, size_t n) { return fi_hit() ? NULL : __real_realloc(p, n); }
char *__wrap_strdup(const char *s) { return fi_hit() ? NULL : __real_strdup(s); }

static void errfn(const char *msg, void *arg, vnaerr_category_t cat)
{
    (void)arg; (void)cat;
    fprintf(stderr, "    libvna: %s\n", msg);
}

static vnacal_t *make_vcp(void)
{
    static const double fv[3] = { 1e9, 2e9, 3e9 };
    double complex sh[3] = { -0.9, -0.8+0.1*I, -0.7 };
    double complex op[3] = {  0.9,  0.8-0.1*I,  0.7 };
    double complex ld[3] = {  0.01, 0.02, 0.03*I };
    double complex *m[1];
    vnacal_t *vcp;
    vnacal_new_t *vnp;

    if ((vcp = vnacal_create(errfn, NULL)) == NULL)
	exit(2);
    if ((vnp = vnacal_new_alloc(vcp, VNACAL_E12, 1, 1, 3)) == NULL)
	exit(2);
    vnacal_new_set_frequency_vector(vnp, fv);
    m[0] = sh; vnacal_new_add_single_reflect_m(vnp, m, 1, 1, VNACAL_SHORT, 1);
    m[0] = op; vnacal_new_add_single_reflect_m(vnp, m, 1, 1, VNACAL_OPEN, 1);
    m[0] = ld; vnacal_new_add_single_reflect_m(vnp, m, 1, 1, VNACAL_MATCH, 1);
    if (vnacal_new_solve(vnp) == -1 ||
	    vnacal_add_calibration(vcp, "cal", vnp) == -1)
	exit(2);
    vnacal_new_free(vnp);
    if (vnacal_property_set(vcp, 0, "foo.bar=baz") == -1 ||
	    vnacal_property_set(vcp, -1, "global=1") == -1)
	exit(2);
    return vcp;
}

int main(int argc, char **argv)
{
    if (argc < 3) {
	int status, bad = 0;
	char cmd[512];

	for (int mode = 0; mode < 2; ++mode) {
	    for (int k = 1; k <= 2; ++k) {
		snprintf(cmd, sizeof(cmd), "%s %d %d > child.log 2>&1",
			argv[0], mode, k);
		status = system(cmd);
		printf("---- %s, allocation #%d of the call fails: child "
			"status 0x%x\n", mode == 0 ?
			"vnacal_delete_calibration" : "vnacal_free", k, status);
		fflush(stdout);
		system("grep -m4 'rc=\\|Assertion\\|LeakSanitizer\\|SUMMARY' "
			"child.log | sed 's/^/    /'");
		if (status != 0)
		    ++bad;
	    }
	}
	remove("child.log");
	printf("%d scenario(s) ended with a leak or an abort\n", bad);
	return bad != 0;
    }
    {
	int mode = atoi(argv[1]), k = atoi(argv[2]);
	vnacal_t *vcp = make_vcp();
	int rc = 0;

	fi_count = 0; fi_fail_at = k; errno = 0;
	if (mode == 0) {
	    fi_on = 1;
	    rc = vnacal_delete_calibration(vcp, 0);
	    fi_on = 0;
	    printf("vnacal_delete_calibration rc=%d errno=%d (%ld allocations "
		    "attempted)\n", rc, errno, fi_count);
	    vnacal_free(vcp);
	} else {
	    fi_on = 1;
	    vnacal_free(vcp);
	    fi_on = 0;
	    printf("vnacal_free returned rc=0 (%ld allocations attempted)\n",
		    fi_count);
	}
	fflush(stdout);
	return 0;	/* LeakSanitizer turns this into non-zero on a leak */
    }
}

/*
 * Defect 5: vnadata_cksave() accepts parameter-type/format combinations
 * that vnadata_save() then refuses: a format that names a two-port-only
 * parameter type (T, U, H, G, A, B) with data that is not 2x2.
 *
 * exit 0 = cksave and save agree everywhere; exit 1 = defect shown.
 */
#include <stdio.h>
#include <stdlib.h>
#include <string.h>
#include <errno.h>
#include <complex.h>
#include <vnadata.h>

static void errfn(const char *msg, void *arg, vnaerr_category_t cat)
{
    (void)arg; (void)cat;
    fprintf(stderr, "    libvna: %s\n", msg);
}

int main(void)
{
    static const struct {
	vnadata_parameter_type_t type;
	int ports;
	const char *format;
	const char *filename;
    } cases[] = {
	{ VPT_S, 3, "Tri",     "demo5.npd" },
	{ VPT_S, 3, "Hma",     "demo5.ts"  },
	{ VPT_Z, 1, "Gri",     "demo5.s1p" },
	{ VPT_Y, 4, "Sri,Ari", "demo5.npd" },
	{ VPT_S, 2, "Tri",     "demo5.npd" },	/* control: 2x2 is fine */
    };
    int defects = 0;

    for (int i = 0; i < (int)(sizeof(cases) / sizeof(cases[0])); ++i) {
	int n = cases[i].ports;
	vnadata_t *vdp = vnadata_alloc_and_init(errfn, NULL, cases[i].type,
		n, n, 2);
	int ck, sv;

	if (vdp == NULL)
	    return 2;
	for (int f = 0; f < 2; ++f) {
	    vnadata_set_frequency(vdp, f, 1e9 * (f + 1));
	    for (int r = 0; r < n; ++r)
		for (int c = 0; c < n; ++c)
		    vnadata_set_cell(vdp, f, r, c,
			    (r == c ? 0.5 : 0.2) + 0.05 * I * (r - c + f));
	}
	if (vnadata_set_format(vdp, cases[i].format) == -1)
	    return 2;
	remove(cases[i].filename);
	ck = vnadata_cksave(vdp, cases[i].filename);
	sv = vnadata_save(vdp, cases[i].filename);
	printf("%s %dx%d format \"%s\" -> %s: cksave=%d save=%d%s\n",
		vnadata_get_type_name(cases[i].type), n, n, cases[i].format,
		cases[i].filename, ck, sv, ck != sv ? "   <-- DISAGREE" : "");
	if (ck != sv)
	    ++defects;
	vnadata_free(vdp);
	remove(cases[i].filename);
    }
    printf("%d disagreement(s) between vnadata_cksave and vnadata_save\n",
	    defects);
    return defects != 0;
}

/*
 * Defect 6: with a type-less format ("ri", "ma" or "db" - meaning "the
 * object's own parameter type") a Z, Y, H or G object saved as Touchstone 1
 * with z0 != 1 ohm is written as S-parameters ("# Hz S RI R 50"), while the
 * very same object is written as Z with z0 == 1, with Touchstone 2, with NPD
 * or with no format set at all.
 *
 * exit 0 = the file always carries the object's type; exit 1 = defect shown.
 */
#include <stdio.h>
#include <stdlib.h>
#include <string.h>
#include <errno.h>
#include <complex.h>
#include <vnadata.h>

static void errfn(const char *msg, void *arg, vnaerr_category_t cat)
{
    (void)arg; (void)cat;
    fprintf(stderr, "    libvna: %s\n", msg);
}

static vnadata_t *make_z(double z0)
{
    vnadata_t *vdp = vnadata_alloc_and_init(errfn, NULL, VPT_Z, 2, 2, 2);

    if (vdp == NULL)
	exit(2);
    for (int f = 0; f < 2; ++f) {
	vnadata_set_frequency(vdp, f, 1e9 * (f + 1));
	vnadata_set_cell(vdp, f, 0, 0, 60.0 + 5.0 * I);
	vnadata_set_cell(vdp, f, 0, 1, 20.0 - 2.0 * I);
	vnadata_set_cell(vdp, f, 1, 0, 20.0 - 2.0 * I);
	vnadata_set_cell(vdp, f, 1, 1, 45.0 + 10.0 * I * (f + 1));
    }
    if (vnadata_set_all_z0(vdp, z0) == -1)
	exit(2);
    return vdp;
}

static int try(const char *format, double z0, const char *filename)
{
    vnadata_t *vdp = make_z(z0);
    vnadata_t *v2 = vnadata_alloc(errfn, NULL);
    char cmd[128];
    int bad = 0;

    if (format != NULL && vnadata_set_format(vdp, format) == -1)
	exit(2);
    if (vnadata_save(vdp, filename) == -1)
	exit(2);
    if (vnadata_load(v2, filename) == -1)
	exit(2);
    printf("Z object, z0=%g, format %-6s -> %-9s: loads back as %s, option "
	    "line: ", z0, format ? format : "(none)", filename,
	    vnadata_get_type_name(vnadata_get_type(v2)));
    fflush(stdout);
    snprintf(cmd, sizeof(cmd), "grep -m1 '^# ' %s", filename);
    if (system(cmd) != 0)
	printf("(none)\n");
    if (vnadata_get_type(v2) != VPT_Z) {
	printf("    ^^^ object type Z was not preserved\n");
	bad = 1;
    }
    vnadata_free(v2);
    vnadata_free(vdp);
    remove(filename);
    return bad;
}

int main(void)
{
    int defects = 0;

    defects += try(NULL, 50.0, "demo6.s2p");	/* control: no format */
    defects += try("Zri", 50.0, "demo6.s2p");	/* control: explicit type */
    defects += try("ri",  1.0,  "demo6.s2p");	/* control: z0 == 1 */
    defects += try("ri",  50.0, "demo6.ts");	/* control: Touchstone 2 */
    defects += try("ri",  50.0, "demo6.s2p");	/* defect */
    defects += try("ma",  75.0, "demo6.s2p");	/* defect */
    defects += try("db",  50.0, "demo6.s2p");	/* defect */
    printf("%d case(s) in which the saved type differs from the object's\n",
	    defects);
    return defects != 0;
}

/*
 * Defect 7: a vnadata_cksave()/vnadata_save() call that is REFUSED still
 * changes the object: the file type and the format are overwritten before
 * the checks are made.  A later save that would have succeeded now fails.
 *
 * exit 0 = refused call left the object as it was; exit 1 = defect shown.
 */
#include <stdio.h>
#include <stdlib.h>
#include <string.h>
#include <errno.h>
#include <complex.h>
#include <vnadata.h>

static void errfn(const char *msg, void *arg, vnaerr_category_t cat)
{
    (void)arg; (void)cat;
    fprintf(stderr, "    libvna: %s\n", msg);
}

static const char *ftname(vnadata_filetype_t t)
{
    switch (t) {
    case VNADATA_FILETYPE_AUTO:		return "AUTO";
    case VNADATA_FILETYPE_NPD:		return "NPD";
    case VNADATA_FILETYPE_TOUCHSTONE1:	return "TOUCHSTONE1";
    case VNADATA_FILETYPE_TOUCHSTONE2:	return "TOUCHSTONE2";
    }
    return "?";
}

/* S-parameters with frequency-dependent reference impedances: NPD only */
static vnadata_t *make(void)
{
    vnadata_t *vdp = vnadata_alloc_and_init(errfn, NULL, VPT_S, 2, 2, 2);

    if (vdp == NULL)
	exit(2);
    for (int f = 0; f < 2; ++f) {
	vnadata_set_frequency(vdp, f, 1e9 * (f + 1));
	for (int p = 0; p < 2; ++p)
	    vnadata_set_fz0(vdp, f, p, 50.0 + f);
    }
    return vdp;
}

int main(void)
{
    vnadata_t *a = make(), *b = make();
    vnadata_filetype_t ft0, ft1;
    const char *fmt0, *fmt1;
    char fmt0_copy[64];
    int rc, rc_control, rc_after, defects = 0;

    /* control object: never saw the refused call */
    rc_control = vnadata_save(b, "demo7_control.dat");
    printf("control: vnadata_save(\"demo7_control.dat\") = %d (type %s)\n",
	    rc_control, ftname(vnadata_get_filetype(b)));

    ft0 = vnadata_get_filetype(a);
    fmt0 = vnadata_get_format(a);
    snprintf(fmt0_copy, sizeof(fmt0_copy), "%s", fmt0 ? fmt0 : "(null)");
    errno = 0;
    rc = vnadata_cksave(a, "demo7.s2p");	/* must be refused: per-f z0 */
    ft1 = vnadata_get_filetype(a);
    fmt1 = vnadata_get_format(a);
    printf("vnadata_cksave(\"demo7.s2p\") = %d errno=%d\n", rc, errno);
    printf("  vnadata_get_filetype: %s -> %s\n", ftname(ft0), ftname(ft1));
    printf("  vnadata_get_format:   %s -> %s\n", fmt0_copy,
	    fmt1 ? fmt1 : "(null)");
    if (rc != -1)
	return 2;
    if (ft1 != ft0) {
	printf("  refused call changed the file type\n");
	++defects;
    }
    if (strcmp(fmt0_copy, fmt1 ? fmt1 : "(null)") != 0) {
	printf("  refused call changed the format\n");
	++defects;
    }
    rc_after = vnadata_save(a, "demo7_after.dat");
    printf("vnadata_save(\"demo7_after.dat\") after the refused check = %d "
	    "(control object: %d)\n", rc_after, rc_control);
    if (rc_after != rc_control) {
	printf("  the same save now behaves differently\n");
	++defects;
    }
    vnadata_free(a);
    vnadata_free(b);
    remove("demo7_control.dat");
    remove("demo7_after.dat");
    remove("demo7.s2p");
    return defects != 0;
}

/*
 * Defect 8: vnacal_save() (and vnadata_save()) print frequencies with the
 * frequency precision (default 7 significant digits) without checking that
 * the printed values are still distinct.  A legal calibration on a 1 Hz grid
 * around 10 MHz is saved "successfully" to a file that vnacal_load() rejects
 * ("frequencies are not in ascending order").
 *
 * exit 0 = every successfully saved file loads again; exit 1 = defect shown.
 */
#include <stdio.h>
#include <stdlib.h>
#include <string.h>
#include <errno.h>
#include <complex.h>
#include <vnacal.h>
#include <vnadata.h>

static void errfn(const char *msg, void *arg, vnaerr_category_t cat)
{
    (void)arg; (void)cat;
    fprintf(stderr, "    libvna: %s\n", msg);
}

static vnacal_t *make_vcp(const double *fv)
{
    double complex sh[3] = { -0.9, -0.8+0.1*I, -0.7 };
    double complex op[3] = {  0.9,  0.8-0.1*I,  0.7 };
    double complex ld[3] = {  0.01, 0.02, 0.03*I };
    double complex *m[1];
    vnacal_t *vcp;
    vnacal_new_t *vnp;

    if ((vcp = vnacal_create(errfn, NULL)) == NULL)
	exit(2);
    if ((vnp = vnacal_new_alloc(vcp, VNACAL_E12, 1, 1, 3)) == NULL)
	exit(2);
    if (vnacal_new_set_frequency_vector(vnp, fv) == -1)
	exit(2);
    m[0] = sh; vnacal_new_add_single_reflect_m(vnp, m, 1, 1, VNACAL_SHORT, 1);
    m[0] = op; vnacal_new_add_single_reflect_m(vnp, m, 1, 1, VNACAL_OPEN, 1);
    m[0] = ld; vnacal_new_add_single_reflect_m(vnp, m, 1, 1, VNACAL_MATCH, 1);
    if (vnacal_new_solve(vnp) == -1 ||
	    vnacal_add_calibration(vcp, "crystal", vnp) == -1)
	exit(2);
    vnacal_new_free(vnp);
    return vcp;
}

int main(void)
{
    static const double fv[3] = { 10000000.0, 10000001.0, 10000002.0 };
    int defects = 0;

    /* calibration file, default precisions */
    {
	vnacal_t *vcp = make_vcp(fv), *v2;
	int rc = vnacal_save(vcp, "demo8.vnacal");

	printf("vnacal_save (default fprecision) = %d\n", rc);
	if (rc == 0) {
	    errno = 0;
	    v2 = vnacal_load("demo8.vnacal", errfn, NULL);
	    printf("vnacal_load = %s (errno=%d)\n",
		    v2 ? "ok" : "NULL", v2 ? 0 : errno);
	    if (v2 == NULL)
		++defects;
	    vnacal_free(v2);
	}
	/* smallest precision the setter accepts */
	if (vnacal_set_fprecision(vcp, 1) == -1)
	    return 2;
	{
	    static const double f2[3] = { 1e9, 1.2e9, 1.4e9 };
	    vnacal_t *vcp2 = make_vcp(f2);

	    vnacal_set_fprecision(vcp2, 1);
	    rc = vnacal_save(vcp2, "demo8.vnacal");
	    printf("vnacal_save (fprecision 1, 1.0/1.2/1.4 GHz) = %d\n", rc);
	    if (rc == 0) {
		v2 = vnacal_load("demo8.vnacal", errfn, NULL);
		printf("vnacal_load = %s\n", v2 ? "ok" : "NULL");
		if (v2 == NULL)
		    ++defects;
		vnacal_free(v2);
	    }
	    vnacal_free(vcp2);
	}
	vnacal_free(vcp);
    }

    /* network data, default precisions */
    {
	static const char *names[] = { "demo8.s1p", "demo8.ts" };

	for (int i = 0; i < 2; ++i) {
	    vnadata_t *vdp = vnadata_alloc_and_init(errfn, NULL, VPT_S,
		    1, 1, 3);
	    vnadata_t *v2 = vnadata_alloc(errfn, NULL);
	    int ck, sv, ld = -2;

	    for (int f = 0; f < 3; ++f) {
		vnadata_set_frequency(vdp, f, fv[f]);
		vnadata_set_cell(vdp, f, 0, 0, 0.1 * (f + 1));
	    }
	    ck = vnadata_cksave(vdp, names[i]);
	    sv = vnadata_save(vdp, names[i]);
	    if (sv == 0)
		ld = vnadata_load(v2, names[i]);
	    printf("%s: vnadata_cksave=%d vnadata_save=%d vnadata_load=%d\n",
		    names[i], ck, sv, ld);
	    if (sv == 0 && ld != 0)
		++defects;
	    vnadata_free(v2);
	    vnadata_free(vdp);
	    remove(names[i]);
	}
    }
    remove("demo8.vnacal");
    printf("%d file(s) written successfully but not loadable\n", defects);
    return defects != 0;
}

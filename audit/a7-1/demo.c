/*
 * Defect 1: _vnacal_rfi() (rational function interpolation) returns grossly
 * wrong values between the given points when one of the given values is
 * exactly zero, even for data that are exactly LINEAR in frequency.
 *
 * Part A: a vector parameter (a calibration standard) gamma(f) = k*(f-2GHz)
 *         given at 0, 1, 2, 3, 4 GHz (perfectly matched at the 2 GHz point)
 *         evaluated with vnacal_get_parameter_value between the points.
 * Part B: a 1-port calibration made at 1..5 GHz whose directivity term is
 *         linear in f and exactly zero at the 3 GHz calibration point; the
 *         calibration is applied (vnacal_apply_m) between calibration points.
 * Part C: linear data that cross zero exactly half way between two points:
 *         the value returned exactly at the crossing is the neighbouring
 *         table value instead of zero.
 *
 * exit 0 = interpolation reproduces the linear dependence; 1 = defect shown
 */
#include <stdio.h>
#include <stdlib.h>
#include <complex.h>
#include <math.h>
#include <errno.h>
#include <string.h>
#include <vnacal.h>
#include <vnadata.h>

static void errfn(const char *msg, void *arg, vnaerr_category_t cat)
{
    (void)arg; (void)cat;
    printf("  [libvna] %s\n", msg);
}

/* 1-port error box in T terms: m = (ts s + ti) / (tx s + 1) */
static double complex ts_f(double f) { return 0.9 + 0.1*I + (0.02 - 0.01*I) * f / 1e9; }
static double complex ti_f(double f) { return (0.04 + 0.03*I) * (f / 1e9 - 3.0); } /* 0 at 3 GHz */
static double complex tx_f(double f) { return 0.10 - 0.05*I + (0.01 + 0.01*I) * f / 1e9; }
static double complex meas(double f, double complex s)
{
    return (ts_f(f) * s + ti_f(f)) / (tx_f(f) * s + 1.0);
}

int main(void)
{
    vnacal_t *vcp;
    int bad = 0;

    if ((vcp = vnacal_create(errfn, NULL)) == NULL) {
	return 2;
    }

    /* ---------------- Part A ---------------- */
    {
	const double complex k = 0.02 + 0.01*I;		/* per GHz */
	double fv[5] = { 0.0, 1e9, 2e9, 3e9, 4e9 };
	double complex gv[5];
	double q[] = { 0.25e9, 0.5e9, 1.5e9, 2.5e9, 3.5e9 };
	int p;

	for (int i = 0; i < 5; ++i) {
	    gv[i] = k * (fv[i] / 1e9 - 2.0);
	}
	p = vnacal_make_vector_parameter(vcp, fv, 5, gv);
	printf("Part A: vector parameter gamma(f) = (0.02+0.01j)*(f/GHz - 2), "
		"points at 0,1,2,3,4 GHz\n");
	for (int i = 0; i < 5; ++i) {
	    double complex v = vnacal_get_parameter_value(vcp, p, q[i]);
	    double complex t = k * (q[i] / 1e9 - 2.0);
	    double e = cabs(v - t);

	    printf("  f=%4.2f GHz  got %+.6f%+.6fj  true %+.6f%+.6fj  "
		    "|err|=%.3e (%.0f%% of true)\n",
		    q[i] / 1e9, creal(v), cimag(v), creal(t), cimag(t),
		    e, 100.0 * e / cabs(t));
	    if (!(e <= 1e-9)) {
		bad = 1;
	    }
	}
    }

    /* ---------------- Part B ---------------- */
    {
	double fc[5] = { 1e9, 2e9, 3e9, 4e9, 5e9 };
	double complex g[3] = { -1.0, 1.0, 0.0 };
	int par[3] = { VNACAL_SHORT, VNACAL_OPEN, VNACAL_MATCH };
	double complex mv[3][5];
	vnacal_new_t *vnp;
	vnadata_t *vdp;
	int ci;
	double fa[4] = { 1.5e9, 2.5e9, 3.5e9, 4.5e9 };
	double complex sd = 0.3 - 0.4*I;		/* true DUT */
	double complex md[4];
	double complex *m[1];

	vnp = vnacal_new_alloc(vcp, VNACAL_T8, 1, 1, 5);
	vnacal_new_set_frequency_vector(vnp, fc);
	for (int k2 = 0; k2 < 3; ++k2) {
	    for (int i = 0; i < 5; ++i) {
		mv[k2][i] = meas(fc[i], g[k2]);
	    }
	    m[0] = mv[k2];
	    if (vnacal_new_add_single_reflect_m(vnp, m, 1, 1, par[k2], 1) == -1)
		return 2;
	}
	if (vnacal_new_solve(vnp) == -1)
	    return 2;
	if ((ci = vnacal_add_calibration(vcp, "cal", vnp)) == -1)
	    return 2;
	for (int i = 0; i < 4; ++i) {
	    md[i] = meas(fa[i], sd);
	}
	m[0] = md;
	vdp = vnadata_alloc(NULL, NULL);
	if (vnacal_apply_m(vcp, ci, fa, 4, m, 1, 1, vdp) == -1)
	    return 2;
	printf("Part B: 1-port T8 calibration at 1..5 GHz, all error terms "
		"linear in f,\n        directivity exactly 0 at the 3 GHz "
		"point; DUT s11 = 0.3-0.4j\n");
	for (int i = 0; i < 4; ++i) {
	    double complex v = vnadata_get_cell(vdp, i, 0, 0);
	    double e = cabs(v - sd);

	    printf("  f=%3.1f GHz  corrected s11 = %+.6f%+.6fj  |err|=%.3e\n",
		    fa[i] / 1e9, creal(v), cimag(v), e);
	    if (!(e <= 1e-6)) {
		bad = 1;
	    }
	}
	vnadata_free(vdp);
	vnacal_new_free(vnp);
    }

    /* ---------------- Part C ---------------- */
    {
	const double complex k = 0.5 + 0.25*I;
	double fv[5] = { 1e9, 2e9, 3e9, 4e9, 5e9 };
	double complex gv[5];
	double complex v;
	int p;

	for (int i = 0; i < 5; ++i) {
	    gv[i] = k * (fv[i] / 1e9 - 2.5);
	}
	p = vnacal_make_vector_parameter(vcp, fv, 5, gv);
	v = vnacal_get_parameter_value(vcp, p, 2.5e9);
	printf("Part C: gamma(f) = (0.5+0.25j)*(f/GHz - 2.5) at 1..5 GHz, "
		"evaluated at 2.5 GHz:\n  got %+.6f%+.6fj, true 0 "
		"(|err|=%.3e)\n", creal(v), cimag(v), cabs(v));
	if (!(cabs(v) <= 1e-9)) {
	    bad = 1;
	}
    }
    vnacal_free(vcp);
    printf(bad ? "DEFECT: linear frequency dependence not reproduced\n" :
	         "ok\n");
    return bad;
}

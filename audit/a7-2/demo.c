/*
 * Defect 2: the analytic TRL solver (_vnacal_new_solve_trl) computes the
 * unknown reflect as sqrt(n/d) where n and d are both exactly zero when the
 * error boxes have no directivity and no port-match error (Ti = Tx = 0).
 * With an exactly ideal box vnacal_new_solve fails (EDOM); with nearly ideal
 * boxes it "succeeds" but returns a wrong reflect value and a wrong
 * calibration, although the problem is perfectly conditioned: the general
 * (iterative) solver of the same library solves the same data.
 *
 * exit 0 = TRL recovers the reflect, the line and the DUT; 1 = defect shown
 */
#include <stdio.h>
#include <stdlib.h>
#include <complex.h>
#include <math.h>
#include <errno.h>
#include <string.h>
#include <vnacal.h>
#include <vnadata.h>

typedef double complex cx;

static void errfn(const char *msg, void *arg, vnaerr_category_t cat)
{
    (void)arg; (void)cat;
    printf("    [libvna] %s\n", msg);
}
static void mm2(cx *c, const cx *a, const cx *b)
{
    cx t[4];
    t[0] = a[0]*b[0] + a[1]*b[2]; t[1] = a[0]*b[1] + a[1]*b[3];
    t[2] = a[2]*b[0] + a[3]*b[2]; t[3] = a[2]*b[1] + a[3]*b[3];
    memcpy(c, t, sizeof(t));
}
static void inv2(cx *c, const cx *a)
{
    cx d = a[0]*a[3] - a[1]*a[2];
    cx t[4] = { a[3]/d, -a[1]/d, -a[2]/d, a[0]/d };
    memcpy(c, t, sizeof(t));
}
/* M = (Ts S + Ti) (Tx S + Tm)^-1 with diagonal Ts, Ti, Tx, Tm (8-term model) */
static void measure(cx *m, const cx *s, const cx *ts, const cx *ti,
	const cx *tx, const cx *tm)
{
    cx Ts[4] = { ts[0], 0, 0, ts[1] }, Ti[4] = { ti[0], 0, 0, ti[1] };
    cx Tx[4] = { tx[0], 0, 0, tx[1] }, Tm[4] = { tm[0], 0, 0, tm[1] };
    cx n[4], d[4], di[4];

    mm2(n, Ts, s); for (int i = 0; i < 4; ++i) n[i] += Ti[i];
    mm2(d, Tx, s); for (int i = 0; i < 4; ++i) d[i] += Tm[i];
    inv2(di, d); mm2(m, n, di);
}

static const cx r_true = -0.95 + 0.1*I;
static cx l_true;

/*
 * run: T-R-L calibration of a T8 2x2 system
 *   @eps: scale of the directivity (Ti) and port match (Tx) error terms
 *   @general: 0 = plain TRL (analytic solver), 1 = same data, but a noise
 *             model is declared, which routes the solve to the general solver
 * Returns max |error| of the corrected DUT, or -1 if the solve failed.
 */
static double run(double eps, int general, cx *r_out, cx *l_out)
{
    vnacal_t *vcp = vnacal_create(errfn, NULL);
    vnacal_new_t *vnp;
    double f[1] = { 1e9 };
    cx ts[2] = { 1.1 + 0.1*I, 0.9 - 0.2*I }, tm[2] = { 1.0, 0.8 + 0.1*I };
    cx ti[2] = { eps * (0.05 + 0.02*I), eps * (-0.03 + 0.04*I) };
    cx tx[2] = { eps * (0.07 - 0.03*I), eps * (0.02 + 0.06*I) };
    cx sT[4] = { 0, 1, 1, 0 }, sR[4] = { r_true, 0, 0, r_true };
    cx sL[4] = { 0, l_true, l_true, 0 };
    cx sD[4] = { 0.3 + 0.1*I, 0.5 - 0.2*I, 0.45 + 0.1*I, -0.2 + 0.3*I };
    cx mT[4], mR[4], mL[4], mD[4];
    cx *m[4];
    int pr, pl, sl[4];
    double maxerr = -1.0;

    measure(mT, sT, ts, ti, tx, tm);
    measure(mR, sR, ts, ti, tx, tm);
    measure(mL, sL, ts, ti, tx, tm);
    measure(mD, sD, ts, ti, tx, tm);
    vnp = vnacal_new_alloc(vcp, VNACAL_T8, 2, 2, 1);
    vnacal_new_set_frequency_vector(vnp, f);
    pr = vnacal_make_unknown_parameter(vcp, VNACAL_SHORT);
    pl = vnacal_make_unknown_parameter(vcp,
	    vnacal_make_scalar_parameter(vcp, cexp(-I * 0.9)));
    if (general) {
	double nf = 1.0e-6;

	vnacal_new_set_m_error(vnp, NULL, 1, &nf, NULL);
    }
    for (int i = 0; i < 4; ++i) m[i] = &mT[i];
    vnacal_new_add_through_m(vnp, m, 2, 2, 1, 2);
    for (int i = 0; i < 4; ++i) m[i] = &mR[i];
    vnacal_new_add_double_reflect_m(vnp, m, 2, 2, pr, pr, 1, 2);
    for (int i = 0; i < 4; ++i) m[i] = &mL[i];
    sl[0] = VNACAL_ZERO; sl[1] = pl; sl[2] = pl; sl[3] = VNACAL_ZERO;
    vnacal_new_add_line_m(vnp, m, 2, 2, sl, 1, 2);
    errno = 0;
    if (vnacal_new_solve(vnp) == 0) {
	vnadata_t *vdp = vnadata_alloc(NULL, NULL);
	int ci = vnacal_add_calibration(vcp, "c", vnp);

	*r_out = vnacal_get_parameter_value(vcp, pr, 1e9);
	*l_out = vnacal_get_parameter_value(vcp, pl, 1e9);
	for (int i = 0; i < 4; ++i) m[i] = &mD[i];
	if (vnacal_apply_m(vcp, ci, f, 1, m, 2, 2, vdp) == 0) {
	    maxerr = 0.0;
	    for (int i = 0; i < 2; ++i) {
		for (int j = 0; j < 2; ++j) {
		    double e = cabs(vnadata_get_cell(vdp, 0, i, j) -
			    sD[2 * i + j]);
		    if (e > maxerr) maxerr = e;
		}
	    }
	}
	vnadata_free(vdp);
    } else {
	printf("    vnacal_new_solve failed: %s\n", strerror(errno));
    }
    vnacal_new_free(vnp);
    vnacal_free(vcp);
    return maxerr;
}

int main(void)
{
    double eps[] = { 1.0, 1e-6, 1e-10, 1e-13, 0.0 };
    int bad = 0;

    l_true = 0.98 * cexp(-I * 1.0);
    printf("true reflect %.6f%+.6fj, true line %.6f%+.6fj\n",
	    creal(r_true), cimag(r_true), creal(l_true), cimag(l_true));
    for (int k = 0; k < 5; ++k) {
	for (int general = 0; general <= 1; ++general) {
	    cx r = 0, l = 0;
	    double e;

	    printf("directivity/match error scale %g, %s:\n", eps[k],
		    general ? "general solver (noise model declared)" :
		              "analytic TRL solver");
	    e = run(eps[k], general, &r, &l);
	    if (e >= 0.0) {
		printf("    r=%.6f%+.6fj (err %.1e)  l=%.6f%+.6fj (err %.1e)  "
			"max DUT error %.1e\n", creal(r), cimag(r),
			cabs(r - r_true), creal(l), cimag(l),
			cabs(l - l_true), e);
	    }
	    if (!general && !(e >= 0.0 && e < 1e-6 &&
			cabs(r - r_true) < 1e-6)) {
		bad = 1;
	    }
	}
    }
    printf(bad ? "DEFECT: TRL fails / is wrong for (nearly) ideal "
	         "directivity and match\n" : "ok\n");
    return bad;
}

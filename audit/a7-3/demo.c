/*
 * Defect 3: vnacal_new_set_et_tolerance() has no effect on solves with
 * unknown parameters (_vnacal_new_solve_auto).  The convergence test compares
 * x_vector with best_x_vector AFTER best_x_vector has just been overwritten
 * with x_vector, so the "change in the error terms" is always exactly 0 and
 * only p_tolerance is ever tested.  In addition the error terms returned
 * belong to the unknown-parameter values of the previous iteration.
 *
 * The demo solves a T8 2x2 calibration with one unknown reflect standard
 * (through, unknown reflect pair, match pair, open/short pair) with a loose
 * p_tolerance and a very tight et_tolerance.  By the manual ("Both tolerances
 * must be met before the system is considered to be converged") the error
 * terms must have stopped changing at the 1e-12 level; instead the solver
 * stops at once and the calibration is off by up to 1e-1.
 *
 * exit 0 = tight et_tolerance is honoured; 1 = defect shown
 */
#include <stdio.h>
#include <stdlib.h>
#include <complex.h>
#include <math.h>
#include <errno.h>
#include <string.h>
#include <vnacal.h>
#include <vnadata.h>

typedef double complex cx;

static void errfn(const char *msg, void *arg, vnaerr_category_t cat)
{
    (void)arg; (void)cat;
    printf("    [libvna] %s\n", msg);
}
static void mm2(cx *c, const cx *a, const cx *b)
{
    cx t[4];
    t[0] = a[0]*b[0] + a[1]*b[2]; t[1] = a[0]*b[1] + a[1]*b[3];
    t[2] = a[2]*b[0] + a[3]*b[2]; t[3] = a[2]*b[1] + a[3]*b[3];
    memcpy(c, t, sizeof(t));
}
static void inv2(cx *c, const cx *a)
{
    cx d = a[0]*a[3] - a[1]*a[2];
    cx t[4] = { a[3]/d, -a[1]/d, -a[2]/d, a[0]/d };
    memcpy(c, t, sizeof(t));
}
static const cx ts[2] = { 1.1 + 0.1*I, 0.9 - 0.2*I };
static const cx ti[2] = { 0.05 + 0.02*I, -0.03 + 0.04*I };
static const cx tx[2] = { 0.07 - 0.03*I, 0.02 + 0.06*I };
static const cx tm[2] = { 1.0, 0.8 + 0.1*I };
/* M = (Ts S + Ti) (Tx S + Tm)^-1 */
static void measure(cx *m, const cx *s)
{
    cx Ts[4] = { ts[0], 0, 0, ts[1] }, Ti[4] = { ti[0], 0, 0, ti[1] };
    cx Tx[4] = { tx[0], 0, 0, tx[1] }, Tm[4] = { tm[0], 0, 0, tm[1] };
    cx n[4], d[4], di[4];

    mm2(n, Ts, s); for (int i = 0; i < 4; ++i) n[i] += Ti[i];
    mm2(d, Tx, s); for (int i = 0; i < 4; ++i) d[i] += Tm[i];
    inv2(di, d); mm2(m, n, di);
}

static const cx r_true = -0.8 + 0.3*I;	/* initial guess is -1 (short) */

static double run(double p_tol, double et_tol, cx *r_out)
{
    vnacal_t *vcp = vnacal_create(errfn, NULL);
    double f[1] = { 1e9 };
    vnacal_new_t *vnp = vnacal_new_alloc(vcp, VNACAL_T8, 2, 2, 1);
    cx sT[4] = { 0, 1, 1, 0 }, sR[4] = { r_true, 0, 0, r_true };
    cx sM[4] = { 0, 0, 0, 0 }, sO[4] = { 1, 0, 0, -1 };
    cx sD[4] = { 0.3 + 0.1*I, 0.5 - 0.2*I, 0.45 + 0.1*I, -0.2 + 0.3*I };
    cx mT[4], mR[4], mM[4], mO[4], mD[4];
    cx *m[4];
    int pr;
    double maxerr = -1.0;

    measure(mT, sT); measure(mR, sR); measure(mM, sM); measure(mO, sO);
    measure(mD, sD);
    vnacal_new_set_frequency_vector(vnp, f);
    pr = vnacal_make_unknown_parameter(vcp, VNACAL_SHORT);
    if (vnacal_new_set_p_tolerance(vnp, p_tol) == -1 ||
	    vnacal_new_set_et_tolerance(vnp, et_tol) == -1) {
	exit(2);
    }
    for (int i = 0; i < 4; ++i) m[i] = &mT[i];
    vnacal_new_add_through_m(vnp, m, 2, 2, 1, 2);
    for (int i = 0; i < 4; ++i) m[i] = &mR[i];
    vnacal_new_add_double_reflect_m(vnp, m, 2, 2, pr, pr, 1, 2);
    for (int i = 0; i < 4; ++i) m[i] = &mM[i];
    vnacal_new_add_double_reflect_m(vnp, m, 2, 2, VNACAL_MATCH, VNACAL_MATCH,
	    1, 2);
    for (int i = 0; i < 4; ++i) m[i] = &mO[i];
    vnacal_new_add_double_reflect_m(vnp, m, 2, 2, VNACAL_OPEN, VNACAL_SHORT,
	    1, 2);
    if (vnacal_new_solve(vnp) == 0) {
	int ci = vnacal_add_calibration(vcp, "c", vnp);
	vnadata_t *vdp = vnadata_alloc(NULL, NULL);

	*r_out = vnacal_get_parameter_value(vcp, pr, 1e9);
	for (int i = 0; i < 4; ++i) m[i] = &mD[i];
	if (vnacal_apply_m(vcp, ci, f, 1, m, 2, 2, vdp) == 0) {
	    maxerr = 0.0;
	    for (int i = 0; i < 2; ++i) {
		for (int j = 0; j < 2; ++j) {
		    double e = cabs(vnadata_get_cell(vdp, 0, i, j) -
			    sD[2 * i + j]);
		    if (e > maxerr) maxerr = e;
		}
	    }
	}
	vnadata_free(vdp);
    }
    vnacal_new_free(vnp);
    vnacal_free(vcp);
    return maxerr;
}

int main(void)
{
    double p_tol[] = { 1.0, 1e-2, 1e-6 };
    double et_tol[] = { 1.0, 1e-6, 1e-12 };
    int bad = 0;

    printf("true reflect %.6f%+.6fj; corrected-DUT error is a direct measure "
	    "of the error in the error terms\n", creal(r_true), cimag(r_true));
    for (int i = 0; i < 3; ++i) {
	double first = -2.0;

	for (int j = 0; j < 3; ++j) {
	    cx r = 0;
	    double e = run(p_tol[i], et_tol[j], &r);

	    printf("p_tolerance=%-6g et_tolerance=%-6g -> r=%.6f%+.6fj "
		    "(err %.1e), max DUT error %.3e\n", p_tol[i], et_tol[j],
		    creal(r), cimag(r), cabs(r - r_true), e);
	    if (j == 0) {
		first = e;
	    } else if (e == first) {
		printf("    identical to the et_tolerance=1 result: "
			"et_tolerance was not used\n");
	    }
	    /*
	     * With et_tolerance = 1e-12 the error terms must be converged
	     * far better than 1e-6, whatever p_tolerance is.
	     */
	    if (et_tol[j] == 1e-12 && !(e >= 0.0 && e < 1e-6)) {
		bad = 1;
	    }
	}
    }
    printf(bad ? "DEFECT: et_tolerance is ignored by the iterative solver\n" :
	         "ok\n");
    return bad;
}

/*
 * Defect 4: with a measurement-noise model enabled (vnacal_new_set_m_error),
 * an exactly determined calibration -- e.g. the classic 1-port
 * short/open/load calibration -- is always rejected with
 *   "measurements are inconsistent with the error model with a pvalue of 0"
 * even though the data fit the model exactly.  _vnacal_new_solve_calc_pvalue
 * returns 0.0 when there are no degrees of freedom, and 0 < pvalue_limit.
 *
 * exit 0 = every exactly determined calibration solves; 1 = defect shown
 */
#include <stdio.h>
#include <stdlib.h>
#include <complex.h>
#include <math.h>
#include <errno.h>
#include <string.h>
#include <vnacal.h>
#include <vnadata.h>

static void errfn(const char *msg, void *arg, vnaerr_category_t cat)
{
    (void)arg; (void)cat;
    printf("    [libvna] %s\n", msg);
}

static int run(vnacal_type_t type, int with_noise_model)
{
    vnacal_t *vcp = vnacal_create(errfn, NULL);
    double f[2] = { 1e9, 2e9 };
    vnacal_new_t *vnp = vnacal_new_alloc(vcp, type, 1, 1, 2);
    /* 1-port error box: directivity, source match, reflection tracking */
    const double complex e00 = 0.1 + 0.05*I, e11 = 0.2 - 0.1*I,
	  e10e01 = 0.9 + 0.1*I;
    const double complex gamma[3] = { -1.0, 1.0, 0.0 };
    const int standard[3] = { VNACAL_SHORT, VNACAL_OPEN, VNACAL_MATCH };
    double complex mv[3][2];
    int rc;

    vnacal_new_set_frequency_vector(vnp, f);
    if (with_noise_model) {
	double sigma_nf = 1.0e-4;

	if (vnacal_new_set_m_error(vnp, NULL, 1, &sigma_nf, NULL) == -1)
	    exit(2);
    }
    for (int k = 0; k < 3; ++k) {
	double complex *m[1] = { mv[k] };

	for (int i = 0; i < 2; ++i) {
	    mv[k][i] = e00 + e10e01 * gamma[k] / (1.0 - e11 * gamma[k]);
	}
	if (vnacal_new_add_single_reflect_m(vnp, m, 1, 1, standard[k], 1) == -1)
	    exit(2);
    }
    errno = 0;
    rc = vnacal_new_solve(vnp);
    printf("  %-5s %s noise model: vnacal_new_solve -> %d (%s)\n",
	    vnacal_type_to_name(type), with_noise_model ? "with" : "no  ",
	    rc, rc == 0 ? "ok" : strerror(errno));
    if (rc == 0) {	/* check the calibration */
	int ci = vnacal_add_calibration(vcp, "c", vnp);
	vnadata_t *vdp = vnadata_alloc(NULL, NULL);
	double complex sd = 0.3 - 0.4*I, md[2];
	double complex *m[1] = { md };

	md[0] = md[1] = e00 + e10e01 * sd / (1.0 - e11 * sd);
	if (vnacal_apply_m(vcp, ci, f, 2, m, 1, 1, vdp) == -1 ||
		cabs(vnadata_get_cell(vdp, 0, 0, 0) - sd) > 1e-9) {
	    printf("    wrong correction\n");
	    rc = -1;
	}
	vnadata_free(vdp);
    }
    vnacal_new_free(vnp);
    vnacal_free(vcp);
    return rc;
}

int main(void)
{
    static const vnacal_type_t types[] = {
	VNACAL_T8, VNACAL_U8, VNACAL_TE10, VNACAL_UE10,
	VNACAL_T16, VNACAL_U16, VNACAL_UE14, VNACAL_E12
    };
    int bad = 0;

    printf("1-port short/open/match calibration, exact (noise-free) data, "
	    "3 equations / 3 unknowns:\n");
    for (int t = 0; t < 8; ++t) {
	if (run(types[t], 0) != 0) {
	    bad = 1;			/* not expected */
	}
	if (run(types[t], 1) != 0) {
	    bad = 1;
	}
    }
    printf(bad ? "DEFECT: exactly determined, consistent calibration "
	         "rejected as inconsistent\n" : "ok\n");
    return bad;
}

/*
 * Defect 5: chisq_pvalue() in vnacal_new_solve_pvalue.c evaluates
 * exp(-x) * sum(x^i / i!) directly.  For a grossly inconsistent data set
 * (x = chisq/2 > ~745) exp(-x) underflows to 0, and when there are a few
 * hundred degrees of freedom the finite sum overflows to +inf: the p-value
 * becomes 0 * inf = NaN, "NaN < pvalue_limit" is false, and the grossly
 * inconsistent calibration is ACCEPTED (vnacal_new_solve returns 0).
 *
 * Scenario A: T8 2x2, the standard set {through, short-short, open-open,
 *             match-match, short-open} measured N times with noise of exactly
 *             the declared size; in the first through measurement every cell
 *             is off by 100 (or 1000) standard deviations.
 * Scenario B: 4-port E12 calibration by the usual 6 throughs + 12 single
 *             reflects with full 4x4 measurement matrices (384 leakage
 *             degrees of freedom); one standard is off by 100 sigma.
 *
 * exit 0 = every grossly wrong data set is rejected; 1 = defect shown
 */
#include <stdio.h>
#include <stdlib.h>
#include <complex.h>
#include <math.h>
#include <errno.h>
#include <string.h>
#include <vnacal.h>

typedef double complex cx;
#define NF	1.0e-4			/* declared noise floor (sigma) */

static int quiet;
static void errfn(const char *msg, void *arg, vnaerr_category_t cat)
{
    (void)arg; (void)cat;
    if (!quiet) printf("    [libvna] %s\n", msg);
}
static double gauss(void)
{
    double u1 = (rand() + 1.0) / (RAND_MAX + 2.0);
    double u2 = (rand() + 1.0) / (RAND_MAX + 2.0);
    return sqrt(-2.0 * log(u1)) * cos(2.0 * M_PI * u2);
}
static cx noise(void) { return NF * (gauss() + I * gauss()) / sqrt(2.0); }

/* n-port 8-term style model: M = (Ts S + Ti) (Tx S + Tm)^-1, diagonal T's */
static void measure(int n, cx *m, const cx *s, const cx *ts, const cx *ti,
	const cx *tx, const cx *tm)
{
    cx num[n][n], den[n][n], inv[n][n];

    for (int i = 0; i < n; ++i) {
	for (int j = 0; j < n; ++j) {
	    num[i][j] = ts[i] * s[i * n + j] + (i == j ? ti[i] : 0.0);
	    den[i][j] = tx[i] * s[i * n + j] + (i == j ? tm[i] : 0.0);
	    inv[i][j] = (i == j) ? 1.0 : 0.0;
	}
    }
    for (int c = 0; c < n; ++c) {		/* Gauss-Jordan, den is */
	cx p = den[c][c];			/* diagonally dominant   */
	for (int j = 0; j < n; ++j) { den[c][j] /= p; inv[c][j] /= p; }
	for (int r = 0; r < n; ++r) {
	    if (r != c) {
		cx q = den[r][c];
		for (int j = 0; j < n; ++j) {
		    den[r][j] -= q * den[c][j];
		    inv[r][j] -= q * inv[c][j];
		}
	    }
	}
    }
    for (int i = 0; i < n; ++i) {
	for (int j = 0; j < n; ++j) {
	    cx sum = 0.0;
	    for (int k = 0; k < n; ++k) sum += num[i][k] * inv[k][j];
	    m[i * n + j] = sum;
	}
    }
}

/* Scenario A */
static int scenario_a(int reps, double off_sigmas)
{
    const cx ts[2] = { 1.1 + 0.1*I, 0.9 - 0.2*I };
    const cx ti[2] = { 0.05 + 0.02*I, -0.03 + 0.04*I };
    const cx tx[2] = { 0.07 - 0.03*I, 0.02 + 0.06*I };
    const cx tm[2] = { 1.0, 0.8 + 0.1*I };
    const cx S[5][4] = { {0,1,1,0}, {-1,0,0,-1}, {1,0,0,1}, {0,0,0,0},
			 {-1,0,0,1} };
    vnacal_t *vcp = vnacal_create(errfn, NULL);
    vnacal_new_t *vnp = vnacal_new_alloc(vcp, VNACAL_T8, 2, 2, 1);
    double f[1] = { 1e9 }, nf = NF;
    int par[5][4], equations = 0, rc;

    vnacal_new_set_frequency_vector(vnp, f);
    vnacal_new_set_m_error(vnp, NULL, 1, &nf, NULL);
    for (int k = 0; k < 5; ++k)
	for (int i = 0; i < 4; ++i)
	    par[k][i] = (S[k][i] == 0.0) ? VNACAL_ZERO :
		vnacal_make_scalar_parameter(vcp, S[k][i]);
    srand(7);
    for (int rep = 0; rep < reps; ++rep) {
	for (int k = 0; k < 5; ++k) {
	    cx mv[4], *m[4];

	    measure(2, mv, S[k], ts, ti, tx, tm);
	    for (int i = 0; i < 4; ++i) {
		mv[i] += noise();
		if (rep == 0 && k == 0) mv[i] += off_sigmas * NF;
		m[i] = &mv[i];
	    }
	    if (vnacal_new_add_mapped_matrix_m(vnp, m, 2, 2, par[k], 2, 2,
			NULL) == -1) exit(2);
	    equations += (k == 0) ? 4 : 2;
	}
    }
    errno = 0;
    rc = vnacal_new_solve(vnp);
    printf("  A: %2d repetitions, %3d equations, 7 unknowns (%3d d.f.), "
	    "first through off by %4g sigma: solve -> %d %s\n", reps,
	    equations, 2 * (equations - 7), off_sigmas, rc,
	    rc == 0 ? "ACCEPTED" : "(rejected)");
    vnacal_new_free(vnp);
    vnacal_free(vcp);
    return rc;
}

/* Scenario B */
static int scenario_b(double off_sigmas)
{
    enum { N = 4 };
    const cx ts[N] = { 1.1+0.1*I, 0.9-0.2*I, 1.05-0.1*I, 0.95+0.15*I };
    const cx ti[N] = { 0.05+0.02*I, -0.03+0.04*I, 0.02-0.05*I, 0.04+0.01*I };
    const cx tx[N] = { 0.07-0.03*I, 0.02+0.06*I, -0.04+0.02*I, 0.03+0.03*I };
    const cx tm[N] = { 1.0, 0.8+0.1*I, 1.1-0.1*I, 0.9+0.05*I };
    const cx gamma[3] = { -1.0, 1.0, 0.0 };
    const int refl[3] = { VNACAL_SHORT, VNACAL_OPEN, VNACAL_MATCH };
    vnacal_t *vcp = vnacal_create(errfn, NULL);
    vnacal_new_t *vnp = vnacal_new_alloc(vcp, VNACAL_E12, N, N, 1);
    double f[1] = { 1e9 }, nf = NF;
    int rc, count = 0;

    vnacal_new_set_frequency_vector(vnp, f);
    vnacal_new_set_m_error(vnp, NULL, 1, &nf, NULL);
    srand(11);
    for (int p1 = 0; p1 < N; ++p1) {		/* 6 throughs */
	for (int p2 = p1 + 1; p2 < N; ++p2) {
	    cx s[N * N], mv[N * N], *m[N * N];

	    memset(s, 0, sizeof(s));		/* other ports matched */
	    s[p1 * N + p2] = s[p2 * N + p1] = 1.0;
	    measure(N, mv, s, ts, ti, tx, tm);
	    for (int i = 0; i < N * N; ++i) { mv[i] += noise(); m[i] = &mv[i]; }
	    if (vnacal_new_add_through_m(vnp, m, N, N, p1 + 1, p2 + 1) == -1)
		exit(2);
	    ++count;
	}
    }
    for (int p = 0; p < N; ++p) {		/* 12 single reflects */
	for (int k = 0; k < 3; ++k) {
	    cx s[N * N], mv[N * N], *m[N * N];

	    memset(s, 0, sizeof(s));
	    s[p * N + p] = gamma[k];
	    measure(N, mv, s, ts, ti, tx, tm);
	    for (int i = 0; i < N * N; ++i) {
		mv[i] += noise();
		if (p == 2 && k == 0) mv[i] += off_sigmas * NF;
		m[i] = &mv[i];
	    }
	    if (vnacal_new_add_single_reflect_m(vnp, m, N, N, refl[k],
			p + 1) == -1) exit(2);
	    ++count;
	}
    }
    errno = 0;
    rc = vnacal_new_solve(vnp);
    printf("  B: 4-port E12, %d standards, short on port 3 off by %4g sigma "
	    "in every cell: solve -> %d %s\n", count, off_sigmas, rc,
	    rc == 0 ? "ACCEPTED" : "(rejected)");
    vnacal_new_free(vnp);
    vnacal_free(vcp);
    return rc;
}

int main(void)
{
    int bad = 0;

    quiet = 1;
    printf("Controls (noise of exactly the declared size, no gross error):\n");
    if (scenario_a(12, 0.0) != 0) printf("  (control A rejected)\n");
    if (scenario_b(0.0) != 0)     printf("  (control B rejected)\n");
    printf("Grossly wrong standard, few degrees of freedom:\n");
    if (scenario_a(1, 100.0) == 0) bad = 1;
    if (scenario_a(5, 100.0) == 0) bad = 1;
    printf("Grossly wrong standard, a few hundred degrees of freedom:\n");
    if (scenario_a(12, 100.0) == 0) bad = 1;
    if (scenario_a(12, 1000.0) == 0) bad = 1;
    if (scenario_a(40, 1000.0) == 0) bad = 1;
    if (scenario_b(100.0) == 0) bad = 1;
    if (scenario_b(1000.0) == 0) bad = 1;
    printf(bad ? "DEFECT: data with a standard off by >= 100 sigma accepted "
	         "as consistent\n" : "ok\n");
    return bad;
}

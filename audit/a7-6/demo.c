/*
 * Defect 6: a rectangular (partially known) S matrix given to
 * vnacal_new_add_mapped_matrix[_m] passes all argument checks of
 * _vnacal_new_add_common (which documents: "When a rectangular S matrix is
 * given, it means that we don't fully know the S parameters of the standard
 * ... we have to use U when S has more rows than columns ... T when S has
 * more columns than rows"), but for T8/TE10/U8/UE10/UE14/E12 the equation
 * builder then dereferences the missing cells: assert(vnprp != NULL) aborts
 * the process.
 *
 * Each case is run in a child process; exit 0 = every call returns 0 or -1,
 * exit 1 = at least one call killed the process.
 */
#include <stdio.h>
#include <stdlib.h>
#include <complex.h>
#include <errno.h>
#include <string.h>
#include <unistd.h>
#include <sys/wait.h>
#include <vnacal.h>

static void errfn(const char *msg, void *arg, vnaerr_category_t cat)
{
    (void)arg; (void)cat;
    printf("    [libvna] %s\n", msg);
}

/* add a 2-port standard of which only one column (T) / one row (U) is known */
static int try_add(vnacal_type_t type, int s_rows, int s_columns)
{
    vnacal_t *vcp = vnacal_create(errfn, NULL);
    vnacal_new_t *vnp = vnacal_new_alloc(vcp, type, 2, 2, 1);
    double f[1] = { 1e9 };
    double complex mv[4] = { 0.1 + 0.2*I, 0.5, 0.45 - 0.1*I, -0.2 };
    double complex *m[4] = { &mv[0], &mv[1], &mv[2], &mv[3] };
    int s[2], map[2] = { 1, 2 };
    int rc;

    vnacal_new_set_frequency_vector(vnp, f);
    s[0] = vnacal_make_scalar_parameter(vcp, 0.1 - 0.1*I);	/* s11 */
    s[1] = vnacal_make_scalar_parameter(vcp, 0.7 + 0.2*I);	/* s21 or s12 */
    errno = 0;
    rc = vnacal_new_add_mapped_matrix_m(vnp, m, 2, 2, s, s_rows, s_columns,
	    map);
    vnacal_new_free(vnp);
    vnacal_free(vcp);
    return rc;
}

int main(void)
{
    static const struct { vnacal_type_t type; int s_rows, s_columns; } c[] = {
	{ VNACAL_T8,   2, 1 }, { VNACAL_TE10, 2, 1 }, { VNACAL_T16, 2, 1 },
	{ VNACAL_U8,   1, 2 }, { VNACAL_UE10, 1, 2 }, { VNACAL_U16, 1, 2 },
	{ VNACAL_UE14, 1, 2 }, { VNACAL_E12,  1, 2 },
    };
    int bad = 0;

    for (int i = 0; i < (int)(sizeof(c) / sizeof(c[0])); ++i) {
	pid_t pid;
	int status = 0;

	printf("%-5s 2x2 calibration, vnacal_new_add_mapped_matrix_m with a "
		"%dx%d S matrix:\n", vnacal_type_to_name(c[i].type),
		c[i].s_rows, c[i].s_columns);
	fflush(stdout);
	if ((pid = fork()) == 0) {
	    int rc = try_add(c[i].type, c[i].s_rows, c[i].s_columns);

	    printf("    returned %d (%s)\n", rc, rc ? strerror(errno) : "ok");
	    fflush(stdout);
	    _exit(0);
	}
	waitpid(pid, &status, 0);
	if (WIFSIGNALED(status)) {
	    printf("    PROCESS KILLED by signal %d (%s)\n", WTERMSIG(status),
		    strsignal(WTERMSIG(status)));
	    bad = 1;
	}
    }
    printf(bad ? "DEFECT: accepted argument combination aborts the process\n" :
	         "ok\n");
    return bad;
}

/*
 * Defect 8: the solvers place their coefficient matrices in variable-length
 * arrays on the stack (vnacal_new_solve_simple.c: a_matrix[equations][unknowns];
 * vnacal_new_solve_auto.c: a_matrix, q_matrix[equations][equations], r_matrix,
 * j_matrix ...).  Their size grows with the 4th power of the port count, so a
 * legal multi-port calibration overruns the default 8 MiB stack and
 * vnacal_new_solve dies with SIGSEGV instead of solving or failing with
 * ENOMEM.
 *
 * The demo calibrates a T16 system of N ports with 4 fully known N-port
 * standards (measurements = S, i.e. an ideal VNA) in a child process with the
 * customary 8 MiB stack limit.
 *
 * exit 0 = every solve returns; 1 = a solve crashed the process
 */
#include <stdio.h>
#include <stdlib.h>
#include <complex.h>
#include <errno.h>
#include <string.h>
#include <unistd.h>
#include <sys/wait.h>
#include <sys/resource.h>
#include <vnacal.h>

static void errfn(const char *msg, void *arg, vnaerr_category_t cat)
{
    (void)arg; (void)cat;
    printf("    [libvna] %s\n", msg);
}

static int solve_nport(int n)
{
    vnacal_t *vcp = vnacal_create(errfn, NULL);
    vnacal_new_t *vnp = vnacal_new_alloc(vcp, VNACAL_T16, n, n, 1);
    double f[1] = { 1e9 };
    double complex *mv = malloc(sizeof(double complex) * n * n);
    double complex **m = malloc(sizeof(double complex *) * n * n);
    int *s = malloc(sizeof(int) * n * n);
    int rc;

    vnacal_new_set_frequency_vector(vnp, f);
    srand(1);
    for (int k = 0; k < 4; ++k) {
	for (int i = 0; i < n * n; ++i) {
	    mv[i] = (rand() / (double)RAND_MAX - 0.5) +
		I * (rand() / (double)RAND_MAX - 0.5);
	    m[i] = &mv[i];
	    s[i] = vnacal_make_scalar_parameter(vcp, mv[i]);
	}
	if (vnacal_new_add_mapped_matrix_m(vnp, m, n, n, s, n, n, NULL) == -1)
	    return -2;
    }
    errno = 0;
    rc = vnacal_new_solve(vnp);
    vnacal_new_free(vnp);
    vnacal_free(vcp);
    free(s); free(m); free(mv);
    return rc;
}

int main(void)
{
    int ports[] = { 4, 8, 14 };
    int bad = 0;
    struct rlimit rl;

    getrlimit(RLIMIT_STACK, &rl);
    if (rl.rlim_cur == RLIM_INFINITY || rl.rlim_cur > 8u * 1024 * 1024) {
	rl.rlim_cur = 8u * 1024 * 1024;	/* the usual default */
	setrlimit(RLIMIT_STACK, &rl);
    }
    printf("stack limit: %lu KiB\n", (unsigned long)(rl.rlim_cur / 1024));
    for (int i = 0; i < 3; ++i) {
	int n = ports[i], status = 0;
	long unknowns = 4L * n * n - 1, equations = 4L * n * n;
	pid_t pid;

	printf("T16 %2d-port, 4 standards: %ld equations x %ld unknowns, "
		"a_matrix VLA = %.1f MiB\n", n, equations, unknowns,
		(double)equations * unknowns * 16 / 1048576.0);
	fflush(stdout);
	if ((pid = fork()) == 0) {
	    int rc = solve_nport(n);

	    printf("    vnacal_new_solve returned %d (%s)\n", rc,
		    rc ? strerror(errno) : "ok");
	    fflush(stdout);
	    _exit(0);
	}
	waitpid(pid, &status, 0);
	if (WIFSIGNALED(status)) {
	    printf("    PROCESS KILLED by signal %d (%s)\n", WTERMSIG(status),
		    strsignal(WTERMSIG(status)));
	    bad = 1;
	}
    }
    printf(bad ? "DEFECT: vnacal_new_solve crashed (stack exhausted by VLAs)\n"
	       : "ok\n");
    return bad;
}

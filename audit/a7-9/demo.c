/*
 * Defect 9: vnacal_apply / vnacal_apply_m accept frequencies == 0 (only a
 * negative count is refused), initialise the result with
 * vnadata_init(..., 0 frequencies) -- which leaves vd_frequency_vector NULL --
 * and then call vnadata_set_frequency_vector(), which does
 *     memcpy(vdp->vd_frequency_vector, frequency_vector, 0)    with a NULL destination
 * Passing a null pointer to memcpy is undefined behaviour even for length 0
 * (C11 7.24.1p2); UBSan stops the program.
 *
 * Build with -fsanitize=undefined -fno-sanitize-recover=undefined:
 * exit 0 = no undefined behaviour; sanitizer stop = defect shown
 */
#include <stdio.h>
#include <stdlib.h>
#include <complex.h>
#include <errno.h>
#include <string.h>
#include <vnacal.h>
#include <vnadata.h>

static void errfn(const char *msg, void *arg, vnaerr_category_t cat)
{
    (void)arg; (void)cat;
    printf("  [libvna] %s\n", msg);
}

int main(void)
{
    vnacal_t *vcp = vnacal_create(errfn, NULL);
    double f[2] = { 1e9, 2e9 };
    vnacal_new_t *vnp = vnacal_new_alloc(vcp, VNACAL_T8, 1, 1, 2);
    const double complex e00 = 0.1 + 0.05*I, e11 = 0.2 - 0.1*I, er = 0.9 + 0.1*I;
    const double complex g[3] = { -1.0, 1.0, 0.0 };
    const int par[3] = { VNACAL_SHORT, VNACAL_OPEN, VNACAL_MATCH };
    double complex mv[3][2];
    double complex *m[1];
    vnadata_t *vdp;
    int ci, rc;

    vnacal_new_set_frequency_vector(vnp, f);
    for (int k = 0; k < 3; ++k) {
	for (int i = 0; i < 2; ++i) {
	    mv[k][i] = e00 + er * g[k] / (1.0 - e11 * g[k]);
	}
	m[0] = mv[k];
	if (vnacal_new_add_single_reflect_m(vnp, m, 1, 1, par[k], 1) == -1)
	    return 2;
    }
    if (vnacal_new_solve(vnp) == -1)
	return 2;
    if ((ci = vnacal_add_calibration(vcp, "cal", vnp)) == -1)
	return 2;
    vdp = vnadata_alloc(NULL, NULL);
    m[0] = mv[0];
    printf("calling vnacal_apply_m with frequencies = 0 ...\n");
    fflush(stdout);
    rc = vnacal_apply_m(vcp, ci, f, 0, m, 1, 1, vdp);
    printf("vnacal_apply_m returned %d, result has %d frequencies\n", rc,
	    vnadata_get_frequencies(vdp));
    vnadata_free(vdp);
    vnacal_new_free(vnp);
    vnacal_free(vcp);
    printf("ok (no sanitizer report)\n");
    return 0;
}

/* helper: build a solved 1x1 E12 calibration with two frequencies */
#include <complex.h>
#include <vnacal.h>
static int make_cal(vnacal_t *vcp, const char *name)
{
    double f[2] = { 1.23456789012e9, 2.34567890123e9 };
    double complex m[3][2] = {{-0.9+0.1*I,-0.8},{0.95,0.9+0.05*I},{0.0123456789012,0.02*I}};
    double complex *mm[1];
    vnacal_new_t *vnp = vnacal_new_alloc(vcp, VNACAL_E12, 1, 1, 2);
    int ci;
    if (vnp == NULL) return -1;
    vnacal_new_set_frequency_vector(vnp, f);
    mm[0]=m[0]; vnacal_new_add_single_reflect_m(vnp,mm,1,1,VNACAL_SHORT,1);
    mm[0]=m[1]; vnacal_new_add_single_reflect_m(vnp,mm,1,1,VNACAL_OPEN,1);
    mm[0]=m[2]; vnacal_new_add_single_reflect_m(vnp,mm,1,1,VNACAL_MATCH,1);
    if (vnacal_new_solve(vnp) == -1) { vnacal_new_free(vnp); return -1; }
    ci = vnacal_add_calibration(vcp, name, vnp);
    vnacal_new_free(vnp);
    return ci;
}

#include <stdio.h>
#include <vnaproperty.h>
static void dump(const char *title, const vnaproperty_t *root)
{
    printf("%s\n", title); fflush(stdout);
    vnaproperty_export_yaml_to_file(root, stdout, "-", NULL, NULL);
    fflush(stdout);
}

/* Simple allocation fault injector: interposes malloc/calloc/realloc/free.
 * fi_arm(k): the k-th allocation (1-based) made while armed fails with ENOMEM.
 * fi_disarm(): returns the number of allocations seen while armed.
 * fi_live(): number of live blocks allocated while tracking is on. */
#include <stddef.h>
#include <errno.h>
#include <string.h>
extern void *__libc_malloc(size_t);
extern void *__libc_calloc(size_t, size_t);
extern void *__libc_realloc(void *, size_t);
extern void  __libc_free(void *);
static long fi_count, fi_fail_at; static int fi_armed, fi_track;
#define FI_TAB 65536
static void *fi_tab[FI_TAB]; static long fi_nlive;
static void fi_add(void *p){ if(!fi_track||!p) return; size_t h=((size_t)p>>4)%FI_TAB; while(fi_tab[h]&&fi_tab[h]!=(void*)1) h=(h+1)%FI_TAB; fi_tab[h]=p; fi_nlive++; }
static void fi_del(void *p){ if(!p) return; size_t h=((size_t)p>>4)%FI_TAB; for(int i=0;i<FI_TAB;i++,h=(h+1)%FI_TAB){ if(fi_tab[h]==p){ fi_tab[h]=(void*)1; fi_nlive--; return;} if(!fi_tab[h]) return; } }
static int fi_should_fail(void){ if(!fi_armed) return 0; ++fi_count; if (fi_count==fi_fail_at){ errno=ENOMEM; return 1;} return 0; }
void *malloc(size_t n){ if(fi_should_fail()) return NULL; void *p=__libc_malloc(n); fi_add(p); return p; }
void *calloc(size_t a,size_t b){ if(fi_should_fail()) return NULL; void *p=__libc_calloc(a,b); fi_add(p); return p; }
void *realloc(void *o,size_t n){ if(fi_should_fail()) return NULL; void *p=__libc_realloc(o,n); if(p){ fi_del(o); fi_add(p);} return p; }
void free(void *p){ fi_del(p); __libc_free(p); }
static void fi_arm(long k){ fi_count=0; fi_fail_at=k; fi_armed=1; }
static long fi_disarm(void){ fi_armed=0; return fi_count; }
static void fi_track_on(void){ memset(fi_tab,0,sizeof fi_tab); fi_nlive=0; fi_track=1; }
static long fi_live(void){ return fi_nlive; }

/* replay of finding R76|vnaproperty.c|_vnaproperty_yaml_export|sysfail:vnaproperty_get:
 * a single failed allocation inside vnaproperty_export_yaml_to_file on a scalar root is reported with
 * category VNAERR_INTERNAL and errno ENOSYS instead of ENOMEM.  Build: gcc -g -O0 -w -I/repo/src -I/verif/audit demo.c /repo/src/.libs/libvna.a -lyaml -lm */
#include "fi.h"
#include <stdio.h>
#include <stdlib.h>
#include <vnaproperty.h>
static int last_cat = -1;
static void efn(const char *m, void *a, vnaerr_category_t c) { last_cat = c; printf("   error_fn[%d]: %s\n", (int)c, m); }
int main(void)
{
    vnaproperty_t *root = NULL;
    int bad = 0;
    if (vnaproperty_set(&root, ".=hello") == -1) return 2;
    for (long k = 1; k < 40; ++k) {
	FILE *fp = fopen("r76.yml", "w");
	int rc;
	last_cat = -1;
	fi_arm(k);
	errno = 0;
	rc = vnaproperty_export_yaml_to_file(root, fp, "r76.yml", efn, NULL);
	int e = errno;
	long n = fi_disarm();
	fclose(fp);
	if (k > n) break;
	if (rc == -1 && e != ENOMEM) {
	    printf("allocation #%ld fails: rc=-1 errno=%d (%s), category %d  <-- not ENOMEM\n", k, e, strerror(e), last_cat);
	    bad = 1;
	}
    }
    printf(bad ? "DEFECT: an allocation failure is reported with another errno class\n" : "ok\n");
    return bad;
}

#!/usr/bin/env python3
"""benign.py [ids...]: run every registered check against each stored *behaviour-preserving* change.

/verif/benign/<id>/patch.diff are refactorings written by independent sub-agents (rename, helper extraction,
loop rewriting, reordering of independent checks, ...) that compile and keep the 25 tests green.  A check that
prints a FINDING for one of them raises a false alarm; a check that ends with ANALYSIS-BROKEN (exit 2) is brittle
(an anchor it needs was renamed or reshaped).  Each patch is applied to a scratch copy of /repo/src (removed
afterwards) and all checks analyse the copy (`check <id> --src`).  Results: /verif/benign/RESULTS.json.
`--import DIR` first copies DIR/out/<n>/{patch.diff,notes.txt} into /verif/benign/<tag><n>/.
"""
import concurrent.futures
import json
import os
import shutil
import subprocess
import sys
import tempfile

VERIF = os.path.dirname(os.path.abspath(__file__))
BEN = os.path.join(VERIF, "benign")


def sh(cmd, cwd=None):
    r = subprocess.run(cmd, shell=True, cwd=cwd, capture_output=True, text=True)
    return r.returncode, r.stdout + r.stderr


def props_all():
    return [c["property_id"] for c in json.load(open(os.path.join(VERIF, "MANIFEST.json")))["checks"]]


def one(bid, props):
    patch = os.path.join(BEN, bid, "patch.diff")
    tmp = tempfile.mkdtemp(prefix="benign_%s_" % bid, dir="/tmp")
    try:
        os.makedirs(os.path.join(tmp, "src"))
        shutil.copy("/repo/config.h", tmp)
        for fn in os.listdir("/repo/src"):
            if fn.endswith((".c", ".h")) or fn in ("Makefile.am", "Makefile"):
                shutil.copy(os.path.join("/repo/src", fn), os.path.join(tmp, "src"))
        rc, out = sh("patch -p1 -s --no-backup-if-mismatch < %s" % patch, cwd=tmp)
        if rc != 0:
            return bid, {"error": "patch does not apply: " + out[-200:]}

        def run(p):
            rc, out = sh("%s/check %s --src %s/src" % (VERIF, p, tmp))
            return p, rc, [l[:400] for l in out.splitlines() if l.startswith(("FINDING", "ANALYSIS-BROKEN"))][:5]
        res = {}
        with concurrent.futures.ThreadPoolExecutor(max_workers=16) as ex:
            for p, rc, lines in ex.map(run, props):
                if rc != 0:
                    res[p] = {"exit": rc, "lines": lines}
        return bid, res
    finally:
        shutil.rmtree(tmp, ignore_errors=True)


def main():
    args = sys.argv[1:]
    if args and args[0] == "--import":
        root, tag = args[1], args[2]
        for n in sorted(os.listdir(os.path.join(root, "out"))):
            src = os.path.join(root, "out", n)
            if os.path.exists(os.path.join(src, "patch.diff")):
                dst = os.path.join(BEN, "%s%s" % (tag, n))
                os.makedirs(dst, exist_ok=True)
                for fn in ("patch.diff", "notes.txt"):
                    if os.path.exists(os.path.join(src, fn)):
                        shutil.copy(os.path.join(src, fn), dst)
        args = args[3:]
    ids = args or sorted(x for x in os.listdir(BEN) if os.path.isdir(os.path.join(BEN, x)))
    props = props_all()
    rpath = os.path.join(BEN, "RESULTS.json")
    results = json.load(open(rpath)) if os.path.exists(rpath) else {}
    for bid in ids:
        b, r = one(bid, props)
        results[b] = r
        print(b, "clean" if not r else r, flush=True)
        json.dump(results, open(rpath, "w"), indent=1, sort_keys=True)
    bad = {k: v for k, v in results.items() if v}
    print("%d benign changes, %d with a non-zero check" % (len(results), len(bad)))


if __name__ == "__main__":
    main()

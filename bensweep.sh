#!/bin/sh
# bensweep.sh <benign-id> rule_module...: apply one stored benign refactoring to a scratch copy and run the given rule modules on it
b=$1; shift
D=$(mktemp -d /tmp/vtry.XXXXXX)
mkdir -p $D/src; cp /repo/config.h $D/; cp /repo/src/*.c /repo/src/*.h /repo/src/Makefile.am /repo/src/Makefile $D/src/
( cd $D && patch -p1 -s < /verif/benign/$b/patch.diff ) || echo "PATCH FAILED"
python3 /verif/multirule.py --src $D/src "$@"
rm -rf $D

#!/usr/bin/env python3
"""Regenerates MANIFEST.json from the table below (keeps it schema-valid)."""
import json, os
HERE = os.path.dirname(os.path.abspath(__file__))
props = [json.loads(l) for l in open(os.path.join(HERE, "properties.jsonl"))]
from manifest_table import CHECKS, NOT_APPLICABLE  # noqa

checks = []
for pid, c in sorted(CHECKS.items()):
    checks.append({
        "property_id": pid,
        "quick_cmd": "./check %s --tier quick" % pid,
        "thorough_cmd": "./check %s --tier thorough" % pid,
        "evidence_file": "/verif/evidence/%s.json" % pid,
        "replay_cmd_template": "./check %s --replay {path}" % pid,
        "engine": "vstat",
        "level_claimed": {"category": "other", "text": c["text"], "design_ref": c.get("design_ref", "DESIGN.md section 3 " + pid)},
        "level_note": c["note"],
        "technique": c["technique"],
    })
na = []
for p in props:
    if p["id"] not in CHECKS:
        na.append({"property_id": p["id"], "reason": NOT_APPLICABLE.get(p["id"], "check not yet implemented (DESIGN.md section 7 gives the order)")})
m = {
    "version": 1,
    "setup_cmd": "make -C /verif all",
    "hooks": {"guard": "LIBVNA_VERIF",
              "enable": "no hooks exist: the checks parse /repo/src with the build's own flags (-DHAVE_CONFIG_H -I. -I..), nothing is compiled in",
              "baseline_off_cmd": "make -C /repo check", "source_commits": [], "add_only": True},
    "engines": [{"name": "vstat", "path": "/verif/vstat", "serves_properties": sorted(CHECKS),
                 "kind_free_text": "custom static analysis: clang-14 plugin (vfacts) exports type-resolved AST + clang::CFG of all 179 library "
                                   "translation units; Python rule engine decides repo-specific rules (dominance, path/typestate, table and sibling "
                                   "agreement, symbolic layout identities). Nothing from /repo is executed."}],
    "checks": checks,
    "notes": "exit 0 = all rule instances hold or are listed in known_findings.json (printed as KNOWN-FINDING); exit 1 + VIOLATION line = an unlisted rule "
             "instance is violated; exit 2 + ANALYSIS-BROKEN = the source cannot be parsed, an anchor vanished or a rule matched fewer instances than its floor.",
    "not_applicable": na,
}
json.dump(m, open(os.path.join(HERE, "MANIFEST.json"), "w"), indent=1)
print("MANIFEST.json: %d checks, %d not applicable" % (len(checks), len(na)))

"""Per-property claim texts for MANIFEST.json (see gen_manifest.py)."""
CHECKS = {
    "C05": {
        "technique": "static table/dispatch agreement: conversion_table cells evaluated through vnadata_convert's own decoding, switch arms, function-pointer tables and vnaconv prototypes (clang AST)",
        "text": "Decides, for all 121 (from,to) cells, that the cell dispatches to the vnaconv function its position names with the matching signature group, that each "
                "dispatch arm passes (in[f], out[f], per-frequency z0 via get_fz0_vector, n) inside a loop over all frequencies, and that the destination set-up copies "
                "frequencies, z0 (both modes), filetype, format and precisions. Does not decide numerical equality or A->B->C composition.",
        "note": "trusts clang's semantic initialiser resolution and the naming scheme vnaconv_<x>to<y>[n] of vnaconv(3)",
    },
}
CHECKS["C15"] = {
    "technique": "static dataflow (range facts over clang CFG): exact index guards vs paired extent for every accessor",
    "text": "Decides, on every CFG path of every non-static accessor (17 header inlines + out-of-line z0/fz0 functions + calibration/parameter slot "
            "lookups), that a caller-supplied index reaches an object-array subscript only after guards establishing 0 <= i < paired extent of the same "
            "object; index n (guard written with > instead of >=) and negative indices are reported. Does not decide the preserve/reset semantics of "
            "resize over histories.",
    "note": "extent pairing table (DESIGN A.2) encodes vnadata_internal.h as read; only subscripts indexed directly by a parameter are obligations",
}
NOT_APPLICABLE = {
    "C14": "YAML fidelity of arbitrary scalars/keys depends on libyaml's emitter/scanner behaviour on run-time strings; no clause is visible in libvna's source shape (DESIGN.md section 3, C14)",
}

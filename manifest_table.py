"""Per-property claim texts for MANIFEST.json (see gen_manifest.py)."""
CHECKS = {
    "C05": {
        "technique": "static table/dispatch agreement: conversion_table cells evaluated through vnadata_convert's own decoding, switch arms, function-pointer tables and vnaconv prototypes (clang AST)",
        "text": "Decides, for all 121 (from,to) cells, that the cell dispatches to the vnaconv function its position names with the matching signature group, that each "
                "dispatch arm passes (in[f], out[f], per-frequency z0 via get_fz0_vector, n) inside a loop over all frequencies, and that the destination set-up copies "
                "frequencies, z0 (both modes), filetype, format and precisions. Does not decide numerical equality or A->B->C composition.",
        "note": "trusts clang's semantic initialiser resolution and the naming scheme vnaconv_<x>to<y>[n] of vnaconv(3)",
    },
}
CHECKS["C15"] = {
    "technique": "static dataflow (range facts over clang CFG): exact index guards vs paired extent for every accessor",
    "text": "Decides, on every CFG path of every non-static accessor (17 header inlines + out-of-line z0/fz0 functions + calibration/parameter slot "
            "lookups), that a caller-supplied index reaches an object-array subscript only after guards establishing 0 <= i < paired extent of the same "
            "object; index n (guard written with > instead of >=) and negative indices are reported. Does not decide the preserve/reset semantics of "
            "resize over histories.",
    "note": "extent pairing table (DESIGN A.2) encodes vnadata_internal.h as read; only subscripts indexed directly by a parameter are obligations",
}
CHECKS["C03"] = {
    "technique": "static path-sensitive typestate analysis (state-splitting dataflow over clang CFG) for resource pairing; range-fact dataflow for index guards",
    "text": "Decides, over every CFG path of all library functions (incl. all error and allocation-failure continuations no test executes), that each local that "
            "receives an owned resource (malloc/calloc/realloc/strdup/vasprintf/fopen, libyaml parser/emitter/document, solve state, or a library function "
            "summarised bottom-up as returning an owned object) is released or handed over exactly once before the function exits, and that caller-supplied "
            "indices are exactly guarded before subscripts. Does not decide absence of all undefined behaviour (overflow, aliasing) nor struct-field ownership.",
    "note": "interprocedural summaries are optimistic (a callee that may consume an argument is assumed to consume it): missed leaks possible, no false alarms from them",
}
CHECKS["C11"] = {
    "technique": "static failure-discipline dataflow: constant propagation of return values + error-report counting per CFG path with bottom-up callee summaries",
    "text": "Decides on every return path of every library function: no success value after an error report (own or callee's), no second report on the same error "
            "channel, no silent failure of a public vnacal_*/vnadata_* function caused by a failed system call, no failure value of a fallible callee dropped "
            "(overwritten/discarded) and the index returned by add_calibration/make_*_parameter is the slot stored. Does not decide errno text or manual wording.",
    "note": "report channels and failure constants (-1/NULL/HUGE_VAL) are tables read from vnaerr/vnacal/vnadata internals; documented silent queries are not asserted",
}
CHECKS["C16"] = {
    "technique": "static sibling/slot agreement over clang AST+CFG (returned index = stored slot; vpmr_index pairing; exact slot guards)",
    "text": "Decides that the index handed back by add/make functions is the slot the object was stored in, that delete clears exactly the validated slot and that "
            "calibration/parameter slot lookups are exactly range-guarded. Does not decide uniqueness over histories or values of solved parameters.",
    "note": "slot vectors vc_calibration_vector / vprmc_vector are named in the rule table",
}
CHECKS["C19"] = {
    "technique": "static must-check analysis (reaching definitions + failure dataflow) of every solver result; homogeneity-degree analysis of the LU pivot metric",
    "text": "Decides that every determinant returned by LU-based solves to calibration code is tested == 0 and every QR rank is tested < unknowns, that the singular "
            "edge reaches only failure returns with a VNAERR_MATH report (own or every caller's), and that the LU pivot selection metric is invariant under row "
            "scaling (degree 0). Does not decide backward stability or residual bounds numerically.",
    "note": "vnaconv_* callers are exempt (documented non-finite output); degree analysis covers _vnacommon_lu only",
}
CHECKS["C10"] = {
    "technique": "static interprocedural data-dependence classification (MIN/MAX end of a frequency vector) of every slack-bound comparison",
    "text": "Decides for all comparisons against a (1 +/- VNACAL_F_EXTRAPOLATION)*X bound (standards, noise vectors, apply, parameter values) that the slack loosens "
            "the test in the right direction, that like ends are compared (first element with first, last with last, followed through locals, parameters, "
            "out-parameters and bound-returning helpers) and that each range check tests both ends. Does not decide interpolation exactness at knots, rational or "
            "linear reproduction or order independence (values, not shape).",
    "note": "first/last element subscripts [0] and [n-1] are the MIN/MAX sources; constants such as 0.0/INFINITY are neutral",
}
CHECKS["C02"] = {
    "technique": "static loop-shape classification over natural loops of the solve call graph (back edges, every-cycle cut checks) + recursion check",
    "text": "Decides only the termination clause ('the iteration limit bounds the work: the call always returns'): every loop reachable from vnacal_new_solve is "
            "counted, a list/chain walk, an iterator loop, or bounded by vn_iteration_limit with the counter increment and the limit test on every cycle "
            "(a continue that bypasses the test, a counter reset, or a dropped test is reported); no unbounded recursion. Does not decide convergence to the true "
            "parameters, accuracy versus tolerances or TRL root selection.",
    "note": "linked lists are assumed acyclic; loops of unrecognised shape are reported as unclassified, not as violations",
}
CHECKS["C20"] = {
    "technique": "static must-pass-through (dominance) of the equations<unknowns test before every solve and every equation-sized VLA; failure dataflow on its edge",
    "text": "Decides that in the error-term solvers every linear-solve call and every variable-length array sized by the equation count is dominated by an "
            "equations < unknowns test whose edge ends in a VNAERR_MATH failure, that a failing frequency yields -1 (no success code left in rc, no dropped "
            "callee failure), that solver results are checked, and that vn_calibration is replaced only on the success path. Does not decide identifiability of "
            "arbitrary standard sets (needs values).",
    "note": "equation count = data dependence on vns_equation_count/vn_equations, unknown count = dependence on vl_t_terms (followed through locals and call-site arguments)",
}
CHECKS["C07"] = {
    "technique": "static sibling agreement (mini-interpreter over the per-type switch arms of saver and loader, canonical layout expressions) + symbolic sprintf bound over the setter-admitted precision range",
    "text": "Decides, for all 8 calibration types, that the ordered (key, data offset, extents, no_diagonal) emitter calls of vnacal_save equal the parser calls of "
            "vnacal_load (packing loops included), that written keys are recognised, required-matrix masks equal the matrices parsed, matrix_names follows "
            "matrix_id_t, the version line is accepted, and that every number-formatting sprintf fits its stack buffer for every precision the validating setters "
            "admit (witness precision reported). Does not decide bit-exactness of %a, decimal round-off, property payloads or equality of applied S.",
    "note": "ID->key map is taken from parse_data's own key switch; precision ranges come from all stores into vc_fprecision/vc_dprecision",
}
CHECKS["C09"] = {
    "technique": "static tag-dominance dataflow for libyaml unions, definite-initialisation dataflow, predecessor-guard facts, typestate (leaks) and failure dataflow on every reject path of the parsers",
    "text": "Decides for the five parser entry points and their helpers: every yaml node union access is dominated by the matching node->type test (also through "
            "call sites of static helpers); believed-NULL pointer tables are initialised before they are consulted; predecessor comparisons cover the first pair; "
            "every reject path releases what it built (memory, FILE, libyaml parser/document), returns the failure value, does not report success after an error and "
            "does not drop a callee's failure. Does not decide that every byte string is classified correctly nor the save-and-reload clause.",
    "note": "termination of the scanners and bounds of header-sized buffers (R11/R25 on loaders) are not yet part of this check",
}
CHECKS["C04"] = {
    "technique": "static happens-before dataflow (loads through the input after stores through an output) over every vnaconv_* CFG; z0-use and store-once counts",
    "text": "Decides, for all 90 vnaconv_* functions, the aliasing clause (no load through the input matrix can follow a store through an output on any path, with "
            "the affine index exception of the *zin functions; no callee receives input and output together), that both reference impedances are read (2x2) or z0 "
            "is indexed per port (n-port), and that each 2x2 output element is stored exactly once. Does not decide any formula, n-port/2-port agreement or "
            "round-trip equality (values).",
    "note": "only the parameter matrix is treated as possibly aliased with the outputs, as the property states; z0 is assumed distinct",
}
CHECKS["C08"] = {
    "technique": "static qualifier analysis (raw file value vs Hz-scaled) over the Touchstone loader + enum/keyword exhaustiveness and matrix-format arm shape checks",
    "text": "Decides that every frequency stored into the vnadata_t and every ordering comparison between a file value and a stored frequency uses the multiplier-scaled "
            "value in both the version 1 and version 2 paths, that every unit keyword sets the multiplier, that each of the 14 option tokens is produced by the scanner "
            "and handled by the option switch, that keyword literals can match the upper-cased scanner text, and that the Full/Upper/Lower arms store (r,c)/(c,r) as "
            "the format defines (21_12 transposes in Full). Does not decide numeric equality of loaded values or the v1 2/4-port disambiguation.",
    "note": "qualifier sources: tps_double / tps_value_vector = raw, multiplier*raw and vnadata_get_frequency = hz",
}
CHECKS["C06"] = {
    "technique": "static symbolic field accounting (polynomials in ports from saver loop nests vs loader arithmetic), failure-class reachability after the check-only return, symbolic sprintf bounds",
    "text": "Decides that for every (parameter type, format) pair the saver prints as many numeric fields per NPD data line as the loader expects (as polynomials in "
            "the port count), that after the point where vnadata_cksave returns success vnadata_save takes no failure edge of a callee that can fail for argument "
            "reasons, and that print_value's buffers fit every accepted precision. Does not decide that printed digits round-trip, Touchstone-1 normalisation "
            "arithmetic or the independent-reader clause.",
    "note": "S matrices are taken square (rows = ports) when comparing counts; Touchstone option letters are covered under C08",
}
CHECKS["C12"] = {
    "technique": "static fault enumeration: path-sensitive typestate and commit-order dataflow over the failure continuation of every allocation site",
    "text": "Decides for every allocation site in the library (not a scripted subset) that on its failure continuation: the result is tested before use, every "
            "resource acquired so far is released, rows allocated in a loop stay covered by the allocation extent, no integer counter/index/flag of a pre-existing "
            "object and no parameter hold was committed before the failed allocation without undo, the failure value is delivered (no uninitialised or success "
            "return) and no fallible callee's failure is dropped. Does not decide behaviour of failures inside libyaml/libc nor full observational equivalence "
            "of the repeated call.",
    "note": "pointer fields published from realloc and *_allocation capacity fields are bookkeeping, not logical state; exceptions are one symbol wide with a reason",
}
CHECKS["C13"] = {
    "technique": "static sibling agreement and dataflow over the property-tree code (delete releases child, symbolic memmove extents, validate-before-mutate, wrapper anchors, scanner/quote_key character classes)",
    "text": "Decides structural clauses of the document model: container delete operations release the removed child and shift exactly the following elements "
            "(polynomial extent check), vnaproperty_vdelete reaches the container's delete on every success path, a refused set/delete has not modified the tree "
            "(known finding: vset creates nodes before validating), the vnacal_property_* wrappers pass the calibration's own root anchor, and quote_key classifies "
            "characters with the scanner's macros. Does not decide equality with the abstract document model over operation histories.",
    "note": "the descriptor grammar itself is not modelled",
}
CHECKS["C17"] = {
    "technique": "static sibling agreement of the ten vnacal_new_add_* entry points (argument-structure fields), through==line literal check, paired port-map look-ups, ordered-chain agreement",
    "text": "Decides only the funnel clause: the a/b and m forms of each standard fill the common argument structure identically apart from the measurement fields, "
            "through is line with the literal {{0,1},{1,0}} matrix and the same flags and port map, all ten entry points end in _vnacal_new_add_common, the row and "
            "column of a mapped cell are looked up through the same port map, and the parameter hash keeps the chain order its readers rely on (so the order of "
            "adding standards cannot hide a parameter). Does not decide any numerical metamorphic relation.",
    "note": "field comparison is textual on the S-side fields, whose parameter names are shared by the two forms",
}
CHECKS["C18"] = {
    "technique": "static index-space analysis of per-equation vectors across the system loop, typestate pairing of spline coefficient buffers, vector-dereference lint",
    "text": "Decides that the per-equation weight vector is written and read with counters that run across all column systems (multi-system types), that every spline "
            "evaluation of a noise vector uses coefficients computed for that same vector on every path, and that the per-frequency error-model vector is "
            "subscripted rather than dereferenced as one object. Does not decide any statistical rate or the p-value arithmetic.",
    "note": "system loops are recognised by a bound depending on vn_systems; per-equation vectors by an allocation depending on vn_equations",
}
CHECKS["C01"] = {
    "technique": "static evaluation of the integer index skeleton of every equation-term builder (clang AST; no floating point, no library code run) against the expansion of the documented M/S matrix equation at _vnacal_layout's offsets; sibling port-map and accumulator-pair agreement rules; must-check of solver results",
    "text": "Decides the layout/term-structure clause only: for all 8 in-system types and every shape with rows, columns <= 4 (a unisolvent set for the quadratic index maps, so "
            "all shapes) the (column, sign, M cell, S cell, V cell) arguments of every add_term call are exactly the expansion of -Ts S V - Ti V + M Tx S V + M Tm V = 0 "
            "(or the U form) at the offsets stored by _vnacal_layout with the unity term of _vl_unity_offset moved to the right-hand side; a term is dropped exactly for "
            "its own zero S cell or unconnected V cell; every unknown is used; e_vector assembly inverts the unity removal; row and column of a cell are mapped "
            "through the same port map; the leakage sum and its divisor are accumulated under the same tests; every LU/QR result is checked. Does not decide "
            "numerical recovery of S, conditioning, the fill_* arithmetic of vnacal_apply or the saved error terms' values.",
    "note": "the matrix equation and sub-matrix shapes are transcribed from vnacal_layout.h; offsets and the unity position are read from the code on every run",
}
CHECKS["C14"] = {
    "technique": "static writer/reader agreement of the YAML exporter and importer of property trees: constant folding of the importer's null predicate and "
                 "the exporter's scalar-style decision over the finite set of spellings named by the predicate's own literals (clang AST, nothing executed); "
                 "raw/quoted qualifier analysis of exported map keys against the importer's descriptor-parsing call; switch exhaustiveness over node kinds",
    "text": "Decides only the decisions libvna itself makes on both sides of the file (libyaml resolves no tags): every spelling the importer takes for null as a plain "
            "scalar is written in a quoted style when it is a string, and the importer does not take that quoted style for null; the text and style written for a null "
            "node are accepted by the importer's null test; map keys are written in vnaproperty_quote_key form exactly because the importer parses keys as descriptors, "
            "and the exporter's own look-ups use the quoted key; the exporter has a returning case for every node kind a tree can hold (and NULL) and the importer a case "
            "for every libyaml node type the exporter creates. Does not decide libyaml's emitter/scanner behaviour (which bytes survive a given scalar style, "
            "line folding, non-printable and multi-byte characters), list order, or the descriptor quoting grammar itself.",
    "note": "libyaml's yaml_scalar_style_t / yaml_node_type_t values are transcribed from yaml.h; a predicate shape the constant folder does not understand is ANALYSIS-BROKEN, never a pass",
    "design_ref": "DESIGN.md section 9.15",
}
NOT_APPLICABLE = {
}


# ---- clauses added with rules R37-R40, ABS-TOL, MAPPED-INDEX ---------------------------------------------------------------
def _extend(pid, tech, text):
    CHECKS[pid]["technique"] = CHECKS[pid]["technique"] + "; " + tech
    t = CHECKS[pid]["text"]
    i = t.rfind(" Does not decide")
    CHECKS[pid]["text"] = (t[:i] + " " + text + t[i:]) if i >= 0 else t + " " + text


_extend("C02", "stated-bound agreement of the iteration-limit setter",
        "Also decides that vnacal_new_set_iteration_limit refuses exactly what its own report states (values below 1), so the documented smallest limit can be set.")
_extend("C11", "message/test agreement of argument refusals",
        "Also decides that each argument refusal whose report states the bound (at least N, positive, nonnegative, ascending) tests exactly that bound.")
_extend("C08", "sibling agreement of frequency lower-bound refusals",
        "Also decides that every entry point validating a frequency refuses negative values only (0 Hz loads through every framing).")
_extend("C07", "slope analysis of the printf precision argument; row-major fill-order rule for the loader's row/column nests",
        "Also decides that the digits written by add_double/add_complex follow the configured precision without an upper clamp, and that "
        "every row/column loop nest of vnacal_load.c (incl. the old-version E-matrix reader) stores cells row-major.")
_extend("C06", "slope analysis of the printf precision argument",
        "Also decides that the digits written by print_value and the angle formats follow the configured precisions without an upper clamp.")
_extend("C09", "append/terminator slack contract of the scanners' growable text buffers",
        "Also decides that the Touchstone and NPD token buffers grow early enough for the terminator stored by end_text.")
_extend("C03", "append/terminator slack contract of the scanners' growable text buffers",
        "Also decides that the Touchstone and NPD token buffers grow early enough for the terminator stored by end_text.")
_extend("C19", "taint rule: no comparison of matrix data with a non-zero absolute constant in the LU/QR kernels",
        "Also decides that no branch of the LU/QR kernels compares matrix data with a non-zero absolute constant (scale dependence).")
_extend("C20", "mapped-index rule on the row/column-given flags of _vnacal_new_add_common",
        "Also decides that the row/column-given flags that select which equations exist are indexed in the full port grid (mapped index, not the raw counter of an abbreviated matrix).")
_extend("C17", "mapped-index rule", "Also decides that full-grid flag arrays are indexed by the mapped index wherever one is in scope.")

_extend("C03", "destructor-completeness, field-overwrite, half-built-object, dangling-field and assert-establish rules over structure fields",
        "Also decides, for structure fields: every member that receives an owned allocation is released in the call closure of its structure's destructor; no path "
        "overwrites a field that still holds a fresh allocation; a constructor stores a count only after its vector is allocated and checked and before the elements; "
        "a field whose object was released is reassigned before return; an establisher's failure is not discarded in front of a callee that asserts what it establishes; "
        "the port-map validation guards cover every map entry.")
_extend("C12", "half-built-object, field-overwrite and assert-establish rules",
        "Also decides the half-built-object contract of count/vector constructors (no NULL walk, no leak of elements in their destructor) and that a failed establisher "
        "is not ignored in front of the callee asserting its result.")
_extend("C09", "half-built-object rule", "Also decides the count/vector constructor contract on the loader's allocation-failure paths.")
_extend("C11", "dangling-field rule", "Also decides that no function returns with an object field still pointing at an object it released (a retried call frees it twice).")
_extend("C20", "count-space agreement and refusal-class rules; dangling-field rule",
        "Also decides that the count test compares like with like (all systems vs one system), that every equation-count refusal is a VNAERR_MATH report, and that "
        "vn_calibration never dangles after a failed solve.")
_extend("C16", "destructor-completeness rule", "Also decides that vnacal_free releases every calibration slot it owns.")
_extend("C13", "wrapper-verb agreement and vacated-slot rules",
        "Also decides that each vnacal_property_<verb> wrapper forwards to vnaproperty_v<verb> only and that list_delete clears the slot it vacates (the sparse-extend path relies on it).")
_extend("C10", "range-intersection rule", "Also decides that like ends of two ranges are combined as an intersection (lower ends by maximum, upper ends by minimum).")
_extend("C04", "no-allocation / no-data-dependent-return rule for the void conversions",
        "Also decides that no vnaconv_* conversion allocates from the heap or returns before writing its output (other than for a non-positive dimension).")
_extend("C05", "in-place alias analysis of the conversions the dispatcher calls",
        "Also decides (with the C04 alias rule) that every conversion the table can dispatch to is safe when vnadata_convert passes the same matrix as input and output.")
_extend("C19", "no data-dependent early return in the LU/QR kernels", "Also decides that no kernel returns before writing its result depending on the matrix data.")
_extend("C18", "system-scope rule for the vs_* iterator accessors", "Also decides that per-system iterator state (vs_have_v, ...) is read only where a vs_start_system of the same function dominates.")
_extend("C08", "header-order independence of the NPD header handlers", "Also decides that no NPD header-line handler depends on a value set by another header line without testing it for unset.")
_extend("C01", "sorted-map and hash-chain-order rules", "Also decides that abbreviated measurement matrices are placed through a sorted copy of the port map and that the parameter hash keeps the chain order its look-ups rely on (identity of the zero parameter).")

_extend("C09", "scanner-progress cut check over the natural loops of the Touchstone/NPD parsers",
        "Also decides (termination clause) that every cycle of every token-level loop of the Touchstone and NPD loaders passes through a call that consumes input; "
        "loops inside the character-level scanners are reported as unclassified.")
_extend("C03", "borrow-guard shape agreement; signed modulo-index guard; row/column kind agreement of the flag loops",
        "Also decides that a conditionally released borrowed pointer is compared with the object it was borrowed from, that `table[key % size]` is reached only "
        "with a validated non-negative key, and that row-extent (column-extent) flag arrays are filled by row-bounded (column-bounded) loops.")
_extend("C16", "borrow-guard and modulo-index rules", "Also decides that an invalid (negative) parameter index is refused before it selects a hash bucket and that deleting "
        "parameters frees borrowed vectors exactly once.")
_extend("C02", "self-difference typestate (memcpy equality facts)",
        "Also decides that no convergence measure is the element-wise difference of a vector with its own unmodified copy (the recorded finding: the error-term "
        "tolerance of the iterative solver).")

_extend("C05", "who-may-write rule for the vnadata dimensions", "Also decides that vnadata_convert changes the logical dimensions only through vnadata_resize (so the in-place conversion to Zin leaves a freshly-built 1 x ports object).")
_extend("C15", "who-may-write rule for the vnadata dimensions", "Also decides that vd_rows, vd_columns and vd_frequencies are assigned only by vnadata_resize (increments excepted), the function R14 checks for vacated-cell resets.")
_extend("C09", "extent-stale typestate for header-sized buffers; re-executed acquisition sites in loops",
        "Also decides that no buffer sized from a header value is used after that value was assigned again, and that an allocation site executed again in a keyword loop does not overwrite a still-owned object.")


# ---- clauses added in the audit-driven round (R13, R51-R64 and the R09/R18/R19b/R20/R37 extensions) ------------------------------
_extend("C03", "VLA-declaration-order rule; optional-member and optional-element belief checks across functions; mapped-extent enumeration for port-map "
               "subscripts; output-buffer read-before-initialisation summaries; product-overflow rule for allocation sizes; interprocedural parameter "
               "bounds for `v[E-c]`",
        "Also decides that no VLA is sized before the refusal that bounds its extent, that conditionally allocated vector members and NULL-able vector "
        "elements are dereferenced only under a NULL test (in the function or in every caller chain), that every `A[portmap[j]-1]` of "
        "_vnacal_new_add_common stays inside A for all shapes up to 3x3, that no callee reads a caller's uninitialised output buffer before initialising it, "
        "and that rows*columns cannot wrap before it sizes an allocation.")
_extend("C02", "optional-member belief check", "Also decides that the V-matrix vector, allocated only for over-determined systems with an error model, "
               "is never subscripted without a NULL test (the iterative solver's save/restore).")
_extend("C20", "optional-element belief check", "Also decides that the TRL detector and the solvers test an S-matrix cell for NULL before dereferencing it "
               "(a standard that leaves cells unspecified is classified, not crashed on).")
_extend("C18", "output-buffer read-before-initialisation summaries", "Also decides that the solvers do not read slices of the unknown vector that no "
               "system has written yet (a result that depended on stack contents).")
_extend("C09", "loader-shape rules: shaped-on-success typestate, forced slot counts, shape sibling of the constructor, NaN-safe refusals of file doubles, "
               "error class of file values handed to API setters, product overflow",
        "Also decides that every success exit of the Touchstone/NPD loaders has shaped the object, that a slot count is never raised by decree, that "
        "vnacal_load refuses the calibration shapes vnacal_new_alloc refuses, that a frequency read from a .vnacal file cannot pass its ordered refusals "
        "as NaN, and that a file value reaches an API setter's usage refusal (EINVAL) only after the loader has refused that range itself as a syntax "
        "error.")
_extend("C08", "forced-slot-count / merge-start rule of the NPD scanner", "Also decides that the `#:parameters` join keeps every field (blank- and "
               "comma-separated spellings load alike).")
_extend("C07", "shape sibling of the constructor", "Also decides that a saved calibration's rows/columns relation is one the loader accepts and the "
               "constructor could have produced.")
_extend("C10", "spline segment-count agreement (n = 0..4); ignored-argument refusal enumeration; derived-vector staleness rule",
        "Also decides that the spline helpers and their callers agree that n counts segments (two points are interpolated, not held constant), that "
        "vnacal_new_set_m_error cannot refuse a call for the contents of a frequency vector it ignores, and that vnacal_new_set_frequency_vector takes "
        "notice of the error vector interpolated onto the old frequencies.")
_extend("C11", "atomic refusal through by-value argument structures, repeated mutating callees and delegated validation; mapped-extent and VLA-order "
               "rules; loader error class; ignored-argument refusals",
        "Also decides that vnadata_init and the vnacal_new_add_* funnel do not modify the object before a callee refuses the same arguments (one recorded "
        "finding: parameters stay registered after a refused add), and that out-of-range port-map entries are refused rather than written through.")
_extend("C12", "mode-switch commit rule; count/vector constructor contracts incl. untested member dereference in destructors",
        "Also decides that a pointer member whose non-NULL-ness other files read as a mode switch is not installed before an allocation that can still "
        "fail (vnacal_new_set_m_error builds aside).")
_extend("C15", "invariant-writer rule for z0 vectors; delegated-validation atomicity of vnadata_init; checker-callee lower bounds",
        "Also decides that writers of the per-frequency z0 vectors use vd_frequencies of the same object and that vnadata_init validates before it "
        "empties the object.")
_extend("C06", "precision-range agreement of setters and loader", "Also decides that the precision setters and the NPD loader accept exactly the range "
               "the formatters' buffers are sized for.")


# ---- R65-R74 ----------------------------------------------------------------------------------------------------------------
_extend("C12", "errno-clobber typestate after allocator failure; libyaml status rule",
        "Also decides that no unconditional errno store of another class follows a failed allocator call and that no fallible libyaml call has its "
        "status discarded.")
_extend("C11", "one-line message rule over all reporter format literals; one-sided success returns; fopen-name agreement",
        "Also decides that no message literal contains a newline, that no public function reports success for a handle it bounded only from above, and "
        "that a failed fopen is reported against the path that was opened.")
_extend("C13", "output-establishment typestate of the recursive tree builders",
        "Also decides that vnaproperty_copy's recursive worker writes its destination node on every successful path through the loop over the "
        "children (empty maps and lists are created).")
_extend("C09", "recursion-guard rule for walks over the libyaml document graph; signed-char shift rule; libyaml status rule",
        "Also decides that the YAML importer bounds its recursion over aliased documents, that no file byte is shifted left as a signed char and that "
        "parser initialisation failures are noticed.")
_extend("C03", "recursion-guard and signed-char shift rules", "Also decides the two undefined-behaviour clauses above (unbounded recursion on `&a [*a]`, "
               "left shift of a negative char).")
_extend("C07", "default-pairing rule (macro provenance)", "Also decides that an untouched vnacal_t saves frequencies with the default named for frequencies "
               "and data with the default named for data.")
_extend("C06", "default-pairing rule (macro provenance)", "Also decides the same pairing for every precision member initialised from a named default.")
_extend("C16", "one-sided success returns", "Also decides that vnacal_delete_parameter refuses negative handles instead of treating them like the predefined ones.")
_extend("C12", "failure-class rule for silent allocating helpers", "Also decides that the failure of a helper that allocates and reports nothing itself is "
               "reported as a system error (errno kept) unless errno is examined first.")
_extend("C13", "mark/count pairing of vnaproperty_quote_key", "Also decides that every position marked for quoting advances the counter that sizes the quoted key.")
_extend("C09", "strtol-narrowing rule", "Also decides that no integer scanned from a file becomes an int without a range check.")
_extend("C13", "strtol-narrowing rule", "Also decides that a list subscript in a descriptor is range-checked before it becomes an int (no overflow of index + 1).")
_extend("C12", "destructor-infallibility rule", "Also decides that no destructor releases a member through a discarded call that itself needs memory.")
_extend("C10", "NaN-safe ascending-order refusals", "Also decides that every ascending-order refusal of a user frequency vector refuses NaN elements.")
_extend("C19", "no absolute threshold in MATH refusals", "Also decides that no singular/cannot-solve verdict compares a computed quantity with a non-zero literal "
               "(one recorded finding: the analytic TRL solver).")
_extend("C17", "no absolute threshold in MATH refusals", "Also decides the same for the TRL path, whose verdict must not depend on the scale in which equivalent "
               "measurements are expressed (recorded finding).")
_extend("C13", "raw/quoted qualifier analysis of keys", "Also decides that keys enumerated with vnaproperty_keys are quoted before they are spliced into a descriptor.")
_extend("C07", "assignment-clamp detection for the printf precision", "Also decides that the configured precision is not capped by an assignment in front of the conversion.")
_extend("C15", "element-size agreement of block operations; rows/columns argument kinds", "Also decides that vacated cells are cleared with the element size of the "
               "matrix they belong to and that shape checks receive rows and columns in that order.")
_extend("C05", "unconditional z0 transfer in the destination set-up; element-size agreement", "Also decides that the copy of the reference impedances to the "
               "destination depends on the per-frequency flag only.")
_extend("C02", "all-systems / per-system index agreement", "Also decides that the per-system column index never subscripts the all-systems unknown vector "
               "without the system offset (Jacobian and residual rows of UE14/E12).")
_extend("C18", "all-systems / per-system index agreement", "Also decides the same for the residual accumulation of the p-value.")

# ---- seed round 4 (DESIGN 9.15) ------------------------------------------------------------------------------------------
_extend("C07", "writer/reader agreement of the embedded property trees (R86); per-entry reset of the loader's presence table (R87); precision-kind agreement of the emitters (R89)",
        "Also decides that the YAML exporter and importer of the embedded property trees agree on null spellings, key form and node kinds, that the loader's "
        "per-frequency presence table is cleared for every entry, and that complex values (error terms, reference impedance) are written with the field "
        "vnacal_set_dprecision sets and frequencies with the field vnacal_set_fprecision sets.")
_extend("C09", "per-entry reset of the loader's presence table (R87)",
        "Also decides that the table of parts collected for one calibration-file data entry is cleared inside the loop over entries (a part missing from a later entry is not taken from an earlier one).")
_extend("C11", "commit-order rule on every failure of an allocation (R19b, incl. functions whose object arrives in a by-value argument structure); replace-on-success rule (R88)",
        "Also decides that no counter/index/flag of a pre-existing object is changed in front of an allocation whose failure ends the call without undo, and that a field "
        "which a function replaces on success (the solved calibration of a vnacal_new_t) is not released on a path that can still end in a failure of the work itself.")
_extend("C12", "dangling-element rule (R41 over elements of owned vectors)",
        "Also decides that no element of a vector the object owns (a calibration slot) is released in front of an allocation whose failure returns with the slot still pointing at it.")
_extend("C20", "replace-on-success rule (R88)", "Also decides that a failing solve cannot have released the result of an earlier successful one.")
_extend("C03", "row-extent rule (R90)", "Also decides that a freshly allocated vector of row pointers is filled with rows over the whole extent it was allocated with.")
_extend("C15", "row-extent rule (R90)", "Also decides that the per-frequency z0 rows are created up to the frequency allocation, not the logical size.")
_extend("C13", "character-class sibling agreement of vnaproperty_quote_key (R91)",
        "Also decides that the first-position and the interior-position escape tests of quote_key name the same explicit characters (the backslash) beside their class macros.")
CHECKS["C14"]["technique"] += "; character-class sibling agreement of quote_key's position tests (R91); no refusal by root-node kind between a file's properties key and the importer (R92)"
CHECKS["C14"]["text"] = CHECKS["C14"]["text"].replace(" Does not decide libyaml", " Also decides that quote_key escapes the same explicit characters at the first and at the "
                                                      "other positions, and that no loader refuses a property tree for the kind of its root node between the `properties` key and "
                                                      "the importer. Does not decide libyaml")
_extend("C07", "root-kind rule for embedded property trees (R92)", "Also decides that vnacal_load hands the node under every `properties` key to the importer whatever its kind.")

#!/bin/sh
# mkwt.sh <dir>: scratch git worktree of /repo with the generated build files (configure output, objects) copied in
set -e
D=$1
git -C /repo worktree add --detach "$D" HEAD >/dev/null 2>&1
rsync -a --exclude .git /repo/ "$D"/
echo "$D ready"

#!/usr/bin/env python3
"""multirule.py --src DIR rule_module...: run several rule modules on one parsed copy of the sources and print the findings
that are not recorded known findings (development aid: sweeping the benign corpus after a rule change costs one parse per
refactoring instead of one per check)"""
import importlib
import json
import os
import sys

HERE = os.path.dirname(os.path.abspath(__file__))
sys.path.insert(0, HERE)
from vstat.model import Program  # noqa: E402
from vstat.facts import AnalysisBroken  # noqa: E402

src = sys.argv[sys.argv.index("--src") + 1]
mods = [a for a in sys.argv[1:] if not a.startswith("--") and a != src]
known = {e["key"] for e in json.load(open(os.path.join(HERE, "known_findings.json")))["findings"]}
P = Program(src)
for m in mods:
    try:
        r = importlib.import_module("vstat.rules." + m).run(P, "quick")
    except AnalysisBroken as e:
        print("ANALYSIS-BROKEN", m, e)
        continue
    for x in (r if isinstance(r, (list, tuple)) else [r]):
        for fd in x.findings:
            if fd.key not in known:
                print("FINDING", fd.key, fd.msg[:200])
print("done", len(mods))

#!/usr/bin/env python3
"""onerule.py <module> [--src DIR]: run one rule module against /repo/src (or DIR) and print its findings (development aid)"""
import importlib, sys, os
sys.path.insert(0, os.path.dirname(os.path.abspath(__file__)))
from vstat.model import Program
src = sys.argv[sys.argv.index("--src") + 1] if "--src" in sys.argv else None
P = Program(src)
r = importlib.import_module("vstat.rules." + sys.argv[1]).run(P, "quick")
for x in (r if isinstance(r, (list, tuple)) else [r]):
    print(x.rule, x.counts, "ok=%d" % len(x.oks) if hasattr(x, "oks") else "")
    for fd in x.findings:
        print("%s:%d: [%s] %s: %s :: %s" % (fd.file, fd.line, fd.rule, fd.func, fd.key, fd.msg[:300]))

#!/usr/bin/env python3
"""regress.py: does every repaired defect come back as a VIOLATION when its repair is undone?

"A fixed entry suppresses nothing: the check ... reports the violation again if it ever returns."  For every entry of
known_findings.json -> fixed, the repair commit is reverted on a scratch copy of the current /repo/src
(`git show -R <commit> -- src | patch`), the checks of the entry's properties analyse the copy (`check <id> --src`)
and a FINDING with the recorded key (or, when the key format has changed since, any new finding of that rule) is
expected.  A reverse patch that no longer applies (later commits changed the same lines) is skipped.
Writes /verif/regress/RESULTS.json; exit 1 if a reverted repair is not reported.
"""
import concurrent.futures
import json
import os
import shutil
import subprocess
import sys
import tempfile

VERIF = os.path.dirname(os.path.abspath(__file__))


def sh(cmd, cwd=None):
    r = subprocess.run(cmd, shell=True, cwd=cwd, capture_output=True, text=True)
    return r.returncode, r.stdout + r.stderr


def one(commit, entries):
    tmp = tempfile.mkdtemp(prefix="regress_%s_" % commit, dir="/tmp")
    try:
        os.makedirs(os.path.join(tmp, "src"))
        shutil.copy("/repo/config.h", tmp)
        for fn in os.listdir("/repo/src"):
            if fn.endswith((".c", ".h")) or fn in ("Makefile.am", "Makefile"):
                shutil.copy(os.path.join("/repo/src", fn), os.path.join(tmp, "src"))
        rc, out = sh("git -C /repo show -R %s -- src > %s/rev.diff && patch -p1 -s --no-backup-if-mismatch < rev.diff" % (commit, tmp), cwd=tmp)
        if rc != 0:
            return commit, {"status": "skipped", "why": "reverse patch does not apply: " + out[-160:]}
        props = sorted({p for e in entries for p in e.get("properties", [])})
        keys = {e.get("key") for e in entries if e.get("key")}
        rules = {k.split("|")[0] for k in keys}
        found, anyrule = set(), set()
        for p in props:
            rc, out = sh("%s/check %s --src %s/src" % (VERIF, p, tmp))
            for l in out.splitlines():
                if l.startswith("FINDING"):
                    k = l.split()[1]
                    if k in keys:
                        found.add(k)
                    if k.split("|")[0] in rules:
                        anyrule.add(k)
                if l.startswith("ANALYSIS-BROKEN"):
                    anyrule.add(l[:120])
            if found == keys:
                break
        if found == keys:
            return commit, {"status": "reported", "keys": sorted(found)}
        if anyrule:
            return commit, {"status": "reported-under-other-key", "keys": sorted(anyrule)[:4], "expected": sorted(keys)}
        return commit, {"status": "MISSED", "expected": sorted(keys), "props": props}
    finally:
        shutil.rmtree(tmp, ignore_errors=True)


def main():
    k = json.load(open(os.path.join(VERIF, "known_findings.json")))
    by_commit = {}
    for e in k.get("fixed", []):
        if e.get("commit"):
            by_commit.setdefault(e["commit"], []).append(e)
    only = set(sys.argv[1:])
    jobs = [(c, es) for c, es in sorted(by_commit.items()) if not only or c in only]
    results = {}
    with concurrent.futures.ThreadPoolExecutor(max_workers=12) as ex:
        for c, r in ex.map(lambda a: one(*a), jobs):
            results[c] = r
            print(c, r["status"], r.get("keys") or r.get("why") or r.get("expected"), flush=True)
    os.makedirs(os.path.join(VERIF, "regress"), exist_ok=True)
    rp = os.path.join(VERIF, "regress", "RESULTS.json")
    if only and os.path.exists(rp):
        merged = json.load(open(rp))
        merged.update(results)
        results = merged
    json.dump(results, open(rp, "w"), indent=1, sort_keys=True)
    missed = [c for c, r in results.items() if r["status"] == "MISSED"]
    print("%d repairs: %d reported again when reverted, %d skipped, %d missed" % (
        len(results), sum(1 for r in results.values() if r["status"].startswith("reported")),
        sum(1 for r in results.values() if r["status"] == "skipped"), len(missed)))
    return 1 if missed else 0


if __name__ == "__main__":
    sys.exit(main())

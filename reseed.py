#!/usr/bin/env python3
"""reseed.py [--all-props] [--repo] [ids...]: run the current checks against every stored seeded change.

Default mode: each /verif/seeded/<id>/patch.diff is applied to a scratch copy of /repo/src (under /tmp, removed
afterwards) and the check of the seed's own property (--all-props: every registered check) analyses that copy
(`check <prop> --src`).  Runs in parallel.
--repo mode: the protocol of the brief, sequentially: git -C /repo apply <patch>; check <prop> --no-evidence;
git -C /repo checkout -- .
Writes /verif/seeded/MATRIX.json and refreshes the detection fields of each meta.json.
"""
import concurrent.futures
import json
import os
import shutil
import subprocess
import sys
import tempfile

VERIF = os.path.dirname(os.path.abspath(__file__))
SEEDED = os.path.join(VERIF, "seeded")


def sh(cmd, cwd=None):
    r = subprocess.run(cmd, shell=True, cwd=cwd, capture_output=True, text=True)
    return r.returncode, r.stdout + r.stderr


def props_all():
    m = json.load(open(os.path.join(VERIF, "MANIFEST.json")))
    return [c["property_id"] for c in m["checks"]]


BASELINE = {}


def baseline(props):
    """FINDING keys the checks print for the *unchanged* tree in --src mode (should be none): never credited to a seed"""
    tmp = tempfile.mkdtemp(prefix="reseed_base_", dir="/tmp")
    try:
        os.makedirs(os.path.join(tmp, "src"))
        shutil.copy("/repo/config.h", tmp)
        for fn in os.listdir("/repo/src"):
            if fn.endswith((".c", ".h")) or fn in ("Makefile.am", "Makefile"):
                shutil.copy(os.path.join("/repo/src", fn), os.path.join(tmp, "src"))

        def run(p):
            rc, out = sh("%s/check %s --src %s/src" % (VERIF, p, tmp))
            return p, {l.split()[1] for l in out.splitlines() if l.startswith("FINDING")}, rc
        with concurrent.futures.ThreadPoolExecutor(max_workers=12) as ex:
            for p, keys, rc in ex.map(run, props):
                BASELINE[p] = keys
                if keys or rc not in (0,):
                    print("BASELINE %s: exit %d, %d findings on the unchanged tree: %s" % (p, rc, len(keys), sorted(keys)[:3]), flush=True)
    finally:
        shutil.rmtree(tmp, ignore_errors=True)


def one(sid, props, repo_mode):
    d = os.path.join(SEEDED, sid)
    patch = os.path.join(d, "patch.diff")
    res = {}
    if repo_mode:
        rc, out = sh("git -C /repo apply %s" % patch)
        if rc != 0:
            return sid, {"error": "patch does not apply: " + out[-200:]}
        try:
            for p in props:
                rc, out = sh("%s/check %s --no-evidence" % (VERIF, p))
                res[p] = {"exit": rc, "lines": [l for l in out.splitlines() if l.startswith(("VIOLATION", "ANALYSIS-BROKEN"))][:6]}
        finally:
            sh("git -C /repo checkout -- .")
        return sid, res
    tmp = tempfile.mkdtemp(prefix="reseed_%s_" % sid, dir="/tmp")
    try:
        os.makedirs(os.path.join(tmp, "src"))
        shutil.copy("/repo/config.h", tmp)
        for fn in os.listdir("/repo/src"):
            if fn.endswith((".c", ".h")) or fn in ("Makefile.am", "Makefile"):
                shutil.copy(os.path.join("/repo/src", fn), os.path.join(tmp, "src"))
        rc, out = sh("patch -p1 --no-backup-if-mismatch < %s" % patch, cwd=tmp)
        if rc != 0:
            return sid, {"error": "patch does not apply: " + out[-300:]}
        for p in props:
            rc, out = sh("%s/check %s --src %s/src" % (VERIF, p, tmp))
            lines = [l[:300] for l in out.splitlines() if l.startswith(("FINDING", "ANALYSIS-BROKEN"))
                     and not (l.startswith("FINDING") and l.split()[1] in BASELINE.get(p, ()))]
            if rc == 1 and not lines:
                rc = 0          # only findings the unchanged tree has as well
            res[p] = {"exit": rc, "lines": lines[:6]}
        return sid, res
    finally:
        shutil.rmtree(tmp, ignore_errors=True)


def main():
    args = [a for a in sys.argv[1:] if not a.startswith("--")]
    allp = "--all-props" in sys.argv
    repo_mode = "--repo" in sys.argv
    ids = args or sorted(x for x in os.listdir(SEEDED) if os.path.isdir(os.path.join(SEEDED, x)))
    plist = props_all()
    jobs = []
    for sid in ids:
        own = sid.split("-")[0]
        jobs.append((sid, plist if allp else [own]))
    results = {}
    if not repo_mode:
        baseline(sorted({p for _, props in jobs for p in props}))
    if repo_mode:
        import glob
        for sid, props in jobs:
            s, r = one(sid, props, True)
            for d in glob.glob(os.path.join(tempfile.gettempdir(), "vreplay_*")):
                shutil.rmtree(d, ignore_errors=True)     # replay files of --no-evidence runs
            results[s] = r
            print(s, {p: v["exit"] for p, v in r.items()} if "error" not in r else r, flush=True)
    else:
        with concurrent.futures.ThreadPoolExecutor(max_workers=8 if allp else 14) as ex:
            futs = [ex.submit(one, sid, props, False) for sid, props in jobs]
            for fu in concurrent.futures.as_completed(futs):
                s, r = fu.result()
                results[s] = r
                print(s, {p: v["exit"] for p, v in r.items()} if "error" not in r else r, flush=True)
    mpath = os.path.join(SEEDED, "MATRIX.json")
    old = json.load(open(mpath)) if os.path.exists(mpath) and args else {}
    head = sh("git -C /repo log --format=%h -1")[1].strip()
    for sid, r in results.items():
        if "error" in r:
            old[sid] = {"error": r["error"]}
            continue
        caught = sorted(p for p, v in r.items() if v["exit"] == 1)
        broken = sorted(p for p, v in r.items() if v["exit"] not in (0, 1))
        rules = sorted({l.split()[1].split("|")[0] for v in r.values() for l in v["lines"] if l.startswith("FINDING")})
        prev = old.get(sid, {}) if isinstance(old.get(sid), dict) else {}
        ran = sorted(set(prev.get("checks_run", [])) | set(r)) if args else sorted(r)
        old[sid] = {"repo_head": head, "checks_run": ran, "caught_by": caught, "analysis_broken": broken, "rules": rules,
                    "first_finding": next((l for v in r.values() for l in v["lines"]), None)}
        mp = os.path.join(SEEDED, sid, "meta.json")
        if os.path.exists(mp):
            meta = json.load(open(mp))
            meta["detected"] = bool(caught)
            meta["detected_by_checks"] = caught
            meta["detected_by_rules"] = rules
            meta["checks_rerun_at_repo_head"] = head
            meta["checks_on_patched_tree"] = {p: {"exit": v["exit"], "findings": v["lines"][:4]} for p, v in r.items()}
            json.dump(meta, open(mp, "w"), indent=1)
    json.dump(old, open(mpath, "w"), indent=1, sort_keys=True)
    n = sum(1 for v in old.values() if v.get("caught_by"))
    print("caught %d of %d" % (n, len(old)))


if __name__ == "__main__":
    main()

#!/bin/sh
# runall.sh [tier]: run every registered check against /repo (parallel), print one summary line each
T=${1:-quick}
cd "$(dirname "$0")"
mkdir -p /tmp/vrunall
for p in $(python3 -c "import json;print(' '.join(c['property_id'] for c in json.load(open('MANIFEST.json'))['checks']))"); do
  ( ./check $p --tier $T > /tmp/vrunall/$p.out 2>&1; echo "$p exit=$? $(grep -c KNOWN-FINDING /tmp/vrunall/$p.out) known; $(tail -1 /tmp/vrunall/$p.out)" ) &
done
wait

#!/bin/sh
# rundemo.sh <audit-id>: build an archived audit demonstration against the current /repo sources (ASan/UBSan) and run it
d=/verif/audit/$1
W=""
grep -q "__wrap_malloc" $d/demo.c && W="$W,--wrap=malloc"
grep -q "__wrap_calloc" $d/demo.c && W="$W,--wrap=calloc"
grep -q "__wrap_realloc" $d/demo.c && W="$W,--wrap=realloc"
grep -q "__wrap_free" $d/demo.c && W="$W,--wrap=free"
grep -q "__wrap_strdup" $d/demo.c && W="$W,--wrap=strdup"
[ -n "$W" ] && W="-Wl$W"
T=$(mktemp -d /tmp/rd.XXXXXX)
# the demonstrations write their scratch files under the (removed) audit worktrees: recreate those directories
DIRS=$(grep -o '/tmp/au_[0-9]*/out/[0-9A-Za-z_]*' $d/demo.c | sort -u)
for x in $DIRS; do mkdir -p $x; done
SRCS=$(ls /repo/src/vna*.c | grep -v -- "-example\|/vnacal-\|test" | tr '\n' ' ')
clang -fsanitize=address,undefined -g -O0 -w -DHAVE_CONFIG_H -I/repo -I/repo/src -I/verif/audit $d/demo.c $SRCS /repo/src/archdep.c $W -lyaml -lm -o $T/demo 2>&1 | tail -3
( cd $T && timeout 60 ./demo > out.txt 2>&1; echo "exit=$?" >> out.txt; tail -${2:-6} out.txt | cut -c1-200 )
rm -rf $T /tmp/au_[0-9]*

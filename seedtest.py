#!/usr/bin/env python3
"""seedtest.py <prop> <N> [--keep]

Confirms a seeded change produced by a sub-agent (in /tmp/seed_<prop>/out/<N>/):
  - applies patch.diff to a fresh scratch worktree of /repo (current HEAD), builds, runs the
    25-test suite (must pass), builds and runs demo.c (must FAIL), reverts, rebuilds, runs the
    demo again (must PASS);
  - runs the /verif checks on the patched scratch tree (--src) and records which fire;
  - stores everything under /verif/seeded/<prop>-<N>/ (patch.diff, demo.c, notes.txt, meta.json).
The scratch worktree is removed afterwards.
"""
import json
import os
import re
import shutil
import subprocess
import sys
import time

VERIF = os.path.dirname(os.path.abspath(__file__))


def sh(cmd, cwd=None, timeout=1800):
    r = subprocess.run(cmd, shell=True, cwd=cwd, capture_output=True, text=True, timeout=timeout)
    return r.returncode, r.stdout + r.stderr


def build_demo(wt, demo, out, asan, extra=""):
    if asan:
        srcs = " ".join(sorted(
            os.path.join(wt, "src", f) for f in os.listdir(os.path.join(wt, "src"))
            if f.endswith(".c") and f.startswith("vna") and "-example" not in f and not f.startswith("vnacal-")))
        cmd = ("clang -fsanitize=address,undefined -fno-sanitize-recover=undefined -g -O0 -w -DHAVE_CONFIG_H -I%s -I%s/src %s %s %s/src/archdep.c "
               "%s -lyaml -lm -ldl -o %s" % (wt, wt, demo, srcs, wt, extra, out))
    else:
        cmd = "gcc -O1 -g -w -DHAVE_CONFIG_H -I%s -I%s/src -o %s %s %s/src/.libs/libvna.a %s -lyaml -lm -ldl" % (wt, wt, out, demo, wt, extra)
    return sh(cmd)


def main():
    prop, n = sys.argv[1], sys.argv[2]
    root = "/tmp/seed_%s" % prop
    label = n
    for i, a in enumerate(sys.argv):
        if a == "--root":
            root = sys.argv[i + 1]
        if a == "--label":
            label = sys.argv[i + 1]
    src = "%s/out/%s" % (root, n)
    if not os.path.exists(os.path.join(src, "patch.diff")):
        print("no patch in", src)
        return 2
    wt = "/tmp/sv_%s_%s" % (prop, label)
    sh("git -C /repo worktree remove --force %s" % wt)
    shutil.rmtree(wt, ignore_errors=True)
    rc, out = sh("%s/mkwt.sh %s" % (VERIF, wt))
    meta = {"property": prop, "seed": label, "at": time.strftime("%Y-%m-%d %H:%M:%S"), "repo_head": sh("git -C /repo log --format=%h -1")[1].strip()}
    notes = open(os.path.join(src, "notes.txt")).read() if os.path.exists(os.path.join(src, "notes.txt")) else ""
    asan = "fsanitize" in notes or "asan" in notes.lower()
    m = re.search(r"(-Wl,--wrap=\S+)", notes)
    extra = m.group(1) if m else ""
    if extra:
        asan = False        # wrapped allocators: link against the static library
    try:
        rc, out = sh("git apply --3way %s/patch.diff || git apply %s/patch.diff" % (src, src), cwd=wt)
        rc2, out2 = sh("git diff --stat -- src", cwd=wt)
        if not out2.strip():
            meta["status"] = "patch does not apply to current HEAD: " + out[-300:]
            print(json.dumps(meta, indent=1))
            return 1
        meta["files"] = re.findall(r"^\s*(src/\S+)", out2, re.M)
        rc, out = sh("make -C src -j4 2>&1 | tail -5", cwd=wt)
        rc, out = sh("make -C src check -j4 2>&1 | grep -E '^# (PASS|FAIL|ERROR)'", cwd=wt)
        m = re.search(r"# PASS:\s+(\d+)", out)
        meta["suite_pass_with_change"] = int(m.group(1)) if m else -1
        meta["suite_fail_with_change"] = int(re.search(r"# FAIL:\s+(\d+)", out).group(1)) if re.search(r"# FAIL:\s+(\d+)", out) else -1
        demo = os.path.join(src, "demo.c")
        exe = os.path.join(wt, "demo_bin")
        rc, out = build_demo(wt, demo, exe, asan, extra)
        if rc != 0 and not asan:
            rc, out = build_demo(wt, demo, exe, True, extra)
            asan = rc == 0 or asan
        meta["demo_build_with_change"] = rc
        rc, out = sh("timeout 300 %s" % exe, cwd=wt)
        meta["demo_exit_with_change"] = rc
        meta["demo_output_with_change"] = out[-600:]
        # run the checks on the patched tree
        fired = {}
        props = sys.argv[3].split(",") if len(sys.argv) > 3 and not sys.argv[3].startswith("--") and sys.argv[2] != sys.argv[3] else [prop]
        for p in props:
            rc, out = sh("%s/check %s --src %s/src" % (VERIF, p, wt))
            fired[p] = {"exit": rc, "findings": [l for l in out.splitlines() if l.startswith(("FINDING", "ANALYSIS-BROKEN"))][:10]}
        meta["checks_on_patched_tree"] = fired
        # revert
        sh("git checkout -- .", cwd=wt)
        # findings the unchanged tree produces as well are never credited to the seed
        for p_ in props:
            rc_b, out_b = sh("%s/check %s --src %s/src" % (VERIF, p_, wt))
            base = {l.split()[1] for l in out_b.splitlines() if l.startswith("FINDING")}
            if base:
                kept = [l for l in fired[p_]["findings"] if not (l.startswith("FINDING") and l.split()[1] in base)]
                fired[p_]["baseline_findings_subtracted"] = sorted(base)[:5]
                fired[p_]["findings"] = kept
                if fired[p_]["exit"] == 1 and not kept:
                    fired[p_]["exit"] = 0
        sh("make -C src -j4 2>&1 | tail -2", cwd=wt)
        rc, out = build_demo(wt, demo, exe, asan, extra)
        meta["demo_build_pristine"] = rc
        rc, out = sh("timeout 300 %s" % exe, cwd=wt)
        meta["demo_exit_pristine"] = rc
        meta["asan_demo"] = asan
        ok = meta["suite_pass_with_change"] == 25 and meta["suite_fail_with_change"] == 0 and \
            meta["demo_exit_with_change"] != 0 and meta["demo_exit_pristine"] == 0
        meta["confirmed"] = ok
        meta["detected"] = any(v["exit"] == 1 for v in fired.values())
        dst = os.path.join(VERIF, "seeded", "%s-%s" % (prop, label))
        if ok:
            os.makedirs(dst, exist_ok=True)
            for fn in os.listdir(src):
                if fn.endswith((".diff", ".c", ".h", ".txt", ".sh", ".vnacal", ".s2p", ".ts", ".npd")) and os.path.isfile(os.path.join(src, fn)):
                    shutil.copy(os.path.join(src, fn), dst)
            up = os.path.dirname(src)
            for fn in os.listdir(up):
                if fn.endswith((".h", ".sh")) and os.path.isfile(os.path.join(up, fn)):
                    shutil.copy(os.path.join(up, fn), dst)
            meta["breaks_property"] = prop
            meta["needs_to_manifest"] = notes.strip()[:900]
            meta["what_i_ran"] = "mkwt.sh scratch worktree; git apply patch.diff; make -C src; make -C src check (25/25); demo built %s and run: exit %d with the change, exit %d without; /verif/check %s --src <patched tree>" % (
                "with -fsanitize=address,undefined over the library sources" if asan else "against src/.libs/libvna.a",
                meta["demo_exit_with_change"], meta["demo_exit_pristine"], ",".join(props))
            with open(os.path.join(dst, "meta.json"), "w") as f:
                json.dump(meta, f, indent=1)
        print(json.dumps({k: meta[k] for k in ("property", "seed", "confirmed", "detected", "suite_pass_with_change",
                                               "demo_exit_with_change", "demo_exit_pristine", "files") if k in meta}))
        for p, v in fired.items():
            for l in v["findings"][:4]:
                print("   ", p, l[:230])
        return 0
    finally:
        if "--keep" not in sys.argv:
            sh("git -C /repo worktree remove --force %s" % wt)
            shutil.rmtree(wt, ignore_errors=True)


if __name__ == "__main__":
    sys.exit(main())

#!/bin/sh
# usage: tools_mut.sh <prop> <sed-expr> <file>   -- apply sed to a scratch copy and run the check on it
set -e
D=$(mktemp -d /tmp/vmut.XXXXXX)
mkdir -p $D/src
cp /repo/config.h $D/
cp /repo/src/*.c /repo/src/*.h /repo/src/Makefile.am /repo/src/Makefile $D/src/
sed -i "$2" $D/src/$3
diff -u /repo/src/$3 $D/src/$3 | head -20 || true
( cd $D/src && gcc -fsyntax-only -DHAVE_CONFIG_H -I. -I.. $3 ) && echo COMPILES
/verif/check $1 --src $D/src || echo "exit=$?"
rm -rf $D

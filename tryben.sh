#!/bin/sh
# tryben.sh <benign-id> <prop>...: apply a stored benign refactoring to a scratch copy and run the given checks
D=$(mktemp -d /tmp/vtry.XXXXXX); b=$1; shift
mkdir -p $D/src; cp /repo/config.h $D/; cp /repo/src/*.c /repo/src/*.h /repo/src/Makefile.am /repo/src/Makefile $D/src/
( cd $D && patch -p1 -s < /verif/benign/$b/patch.diff ) || echo "PATCH FAILED"
for p in "$@"; do /verif/check $p --src $D/src | grep -v "^WARN" | cut -c1-400; echo "$p exit=$?"; done
rm -rf $D

#!/bin/sh
# tryseed.sh <seed-id> <prop>: apply a stored seed to a scratch copy of /repo/src and run one check on it (does not touch MATRIX.json)
D=$(mktemp -d /tmp/vtry.XXXXXX)
mkdir -p $D/src; cp /repo/config.h $D/; cp /repo/src/*.c /repo/src/*.h /repo/src/Makefile.am /repo/src/Makefile $D/src/
( cd $D && patch -p1 -s < /verif/seeded/$1/patch.diff ) || echo "PATCH FAILED"
/verif/check $2 --src $D/src | grep -v "^WARN" | cut -c1-400; echo "exit=$?"
rm -rf $D

// vfacts: clang-14 frontend plugin that exports, for one translation unit,
// the type-resolved AST of every function defined in the main file (and,
// with plugin arg "headers", every function with a body in a repo header),
// its clang::CFG (all sub-expressions added as elements), file-scope
// initialised variables, enums, records and function prototypes, as JSON.
//
// Nothing here is rule specific.  Rules live in /verif/vstat (Python).
//
// usage: clang -fsyntax-only -fplugin=vfacts.so -Xclang -plugin -Xclang vfacts
//          -Xclang -plugin-arg-vfacts -Xclang out=<file.json>
//          [-Xclang -plugin-arg-vfacts -Xclang headers]
//          [-Xclang -plugin-arg-vfacts -Xclang root=<dir>]

#include "clang/AST/ASTConsumer.h"
#include "clang/AST/ASTContext.h"
#include "clang/AST/Attr.h"
#include "clang/AST/Decl.h"
#include "clang/AST/Expr.h"
#include "clang/AST/Stmt.h"
#include "clang/AST/RecordLayout.h"
#include "clang/Analysis/CFG.h"
#include "clang/Basic/SourceManager.h"
#include "clang/Frontend/CompilerInstance.h"
#include "clang/Frontend/FrontendPluginRegistry.h"
#include "clang/Lex/Lexer.h"
#include "llvm/ADT/DenseMap.h"
#include "llvm/Support/JSON.h"
#include "llvm/Support/raw_ostream.h"

using namespace clang;
namespace json = llvm::json;

namespace {

struct Options {
    std::string out;
    std::string root;
    bool headers = false;
};

class Exporter {
    ASTContext &Ctx;
    SourceManager &SM;
    const LangOptions &LO;
    json::OStream &J;
    const Options &Opt;
    llvm::DenseMap<const Stmt *, unsigned> StmtId;
    llvm::DenseMap<const Decl *, unsigned> DeclId;
    unsigned NextStmt = 0;
    unsigned NextDecl = 1;

public:
    Exporter(ASTContext &C, json::OStream &J, const Options &O)
        : Ctx(C), SM(C.getSourceManager()), LO(C.getLangOpts()), J(J), Opt(O) {}

    unsigned declId(const Decl *D) {
        D = D->getCanonicalDecl();
        auto It = DeclId.find(D);
        if (It != DeclId.end())
            return It->second;
        unsigned Id = NextDecl++;
        DeclId[D] = Id;
        return Id;
    }

    std::string fileOf(SourceLocation L) {
        if (L.isInvalid())
            return "";
        SourceLocation E = SM.getExpansionLoc(L);
        return SM.getFilename(E).str();
    }

    bool inRepo(SourceLocation L) {
        std::string F = fileOf(L);
        if (F.empty())
            return false;
        if (SM.isInSystemHeader(SM.getExpansionLoc(L)))
            return false;
        if (F[0] != '/')
            return true; // relative path => project file
        return !Opt.root.empty() && F.compare(0, Opt.root.size(), Opt.root) == 0;
    }

    bool inMain(SourceLocation L) {
        if (L.isInvalid())
            return false;
        return SM.isInMainFile(SM.getExpansionLoc(L));
    }

    void loc(SourceLocation L) {
        if (L.isInvalid())
            return;
        SourceLocation E = SM.getExpansionLoc(L);
        J.attribute("l", (int64_t)SM.getExpansionLineNumber(E));
        J.attribute("c", (int64_t)SM.getExpansionColumnNumber(E));
    }

    void macro(SourceLocation L) {
        if (L.isInvalid() || !L.isMacroID())
            return;
        // immediate macro at the spelling point
        StringRef Imm = Lexer::getImmediateMacroName(L, SM, LO);
        if (!Imm.empty())
            J.attribute("m", Imm);
        // chain of macro names from innermost to outermost
        SourceLocation Cur = L;
        std::string Outer;
        int Guard = 0;
        std::vector<std::string> Chain;
        while (Cur.isMacroID() && Guard++ < 32) {
            StringRef N = Lexer::getImmediateMacroName(Cur, SM, LO);
            if (!N.empty() && (Chain.empty() || Chain.back() != N.str()))
                Chain.push_back(N.str());
            if (SM.isMacroArgExpansion(Cur))
                Cur = SM.getImmediateExpansionRange(Cur).getBegin();
            else
                Cur = SM.getImmediateExpansionRange(Cur).getBegin();
        }
        if (Chain.size() > 1 || (Chain.size() == 1 && Chain[0] != Imm.str())) {
            J.attributeArray("mc", [&] {
                for (auto &S : Chain)
                    J.value(S);
            });
        }
        // is this location inside a macro *argument* (i.e. written by the
        // user at the call of the macro) rather than the macro body?
        if (SM.isMacroArgExpansion(L))
            J.attribute("marg", true);
    }

    std::string typeStr(QualType T) {
        if (T.isNull())
            return "";
        return T.getAsString(Ctx.getPrintingPolicy());
    }

    std::string canonStr(QualType T) {
        if (T.isNull())
            return "";
        return T.getCanonicalType().getAsString(Ctx.getPrintingPolicy());
    }

    void typeAttrs(QualType T) {
        if (T.isNull())
            return;
        std::string S = typeStr(T), C = canonStr(T);
        J.attribute("t", S);
        if (C != S)
            J.attribute("ct", C);
    }

    // ---- statements ------------------------------------------------------

    void vlaSizes(QualType T) {
        // emit size expressions of (nested) variable array types
        const Type *Ty = T.getTypePtrOrNull();
        while (Ty) {
            if (const auto *VAT = dyn_cast<VariableArrayType>(Ty->getUnqualifiedDesugaredType())) {
                if (VAT->getSizeExpr())
                    stmt(VAT->getSizeExpr());
                else
                    J.value(nullptr);
                Ty = VAT->getElementType().getTypePtrOrNull();
            } else if (const auto *CAT = dyn_cast<ConstantArrayType>(Ty->getUnqualifiedDesugaredType())) {
                J.object([&] {
                    J.attribute("k", "ConstSize");
                    J.attribute("val", (int64_t)CAT->getSize().getZExtValue());
                });
                Ty = CAT->getElementType().getTypePtrOrNull();
            } else if (const auto *IAT = dyn_cast<IncompleteArrayType>(Ty->getUnqualifiedDesugaredType())) {
                J.value(nullptr);
                Ty = IAT->getElementType().getTypePtrOrNull();
            } else
                break;
        }
    }

    void varDecl(const VarDecl *VD, bool withInit = true) {
        J.object([&] {
            J.attribute("k", "VarDecl");
            J.attribute("id", (int64_t)NextStmt++); // own node id
            J.attribute("name", VD->getName());
            J.attribute("decl", (int64_t)declId(VD));
            typeAttrs(VD->getType());
            loc(VD->getLocation());
            if (VD->isStaticLocal())
                J.attribute("static", true);
            if (VD->getType()->isArrayType()) {
                J.attributeArray("dims", [&] { vlaSizes(VD->getType()); });
            }
            if (withInit && VD->hasInit()) {
                J.attributeArray("kids", [&] { stmt(VD->getInit()); });
            }
        });
    }

    void stmt(const Stmt *S) {
        if (!S) {
            J.value(nullptr);
            return;
        }
        // Semantic form for initialiser lists (designators resolved)
        if (const auto *ILE = dyn_cast<InitListExpr>(S)) {
            if (ILE->isSyntacticForm() && ILE->getSemanticForm())
                S = ILE->getSemanticForm();
        }
        unsigned Id;
        auto It = StmtId.find(S);
        if (It != StmtId.end())
            Id = It->second;
        else {
            Id = NextStmt++;
            StmtId[S] = Id;
        }
        J.object([&] {
            J.attribute("k", S->getStmtClassName());
            J.attribute("id", (int64_t)Id);
            loc(S->getBeginLoc());
            macro(S->getBeginLoc());
            if (const auto *E = dyn_cast<Expr>(S)) {
                typeAttrs(E->getType());
                if (E->isLValue())
                    J.attribute("lv", true);
                exprAttrs(E);
            } else
                stmtAttrs(S);
            // children
            if (const auto *DS = dyn_cast<DeclStmt>(S)) {
                J.attributeArray("kids", [&] {
                    for (const Decl *D : DS->decls()) {
                        if (const auto *VD = dyn_cast<VarDecl>(D)) {
                            unsigned Before = NextStmt;
                            varDecl(VD);
                            VarNode[VD] = Before;
                        }
                    }
                });
            } else if (const auto *UE = dyn_cast<UnaryExprOrTypeTraitExpr>(S)) {
                if (!UE->isArgumentType()) {
                    J.attributeArray("kids", [&] { stmt(UE->getArgumentExpr()); });
                }
            } else if (const auto *ILE = dyn_cast<InitListExpr>(S)) {
                J.attributeArray("kids", [&] {
                    for (unsigned I = 0; I < ILE->getNumInits(); ++I)
                        stmt(ILE->getInit(I));
                });
                if (ILE->hasArrayFiller()) {
                    J.attributeArray("filler", [&] { stmt(ILE->getArrayFiller()); });
                }
            } else {
                bool Any = false;
                for (const Stmt *C : S->children()) {
                    (void)C;
                    Any = true;
                    break;
                }
                if (Any) {
                    J.attributeArray("kids", [&] {
                        for (const Stmt *C : S->children())
                            stmt(C);
                    });
                }
            }
        });
    }

    llvm::DenseMap<const VarDecl *, unsigned> VarNode;

    void stmtAttrs(const Stmt *S) {
        if (const auto *LS = dyn_cast<LabelStmt>(S)) {
            J.attribute("label", LS->getName());
        } else if (const auto *GS = dyn_cast<GotoStmt>(S)) {
            J.attribute("label", GS->getLabel()->getName());
        } else if (const auto *CS = dyn_cast<CaseStmt>(S)) {
            Expr::EvalResult R;
            if (CS->getLHS() && CS->getLHS()->EvaluateAsInt(R, Ctx))
                J.attribute("val", R.Val.getInt().getExtValue());
            if (CS->getRHS()) {
                Expr::EvalResult R2;
                if (CS->getRHS()->EvaluateAsInt(R2, Ctx))
                    J.attribute("val2", R2.Val.getInt().getExtValue());
            }
        } else if (const auto *IS = dyn_cast<IfStmt>(S)) {
            J.attribute("haselse", IS->getElse() != nullptr);
        } else if (const auto *FS = dyn_cast<ForStmt>(S)) {
            // which of init/cond/inc are present (children() yields nulls anyway)
            J.attribute("finit", FS->getInit() != nullptr);
            J.attribute("fcond", FS->getCond() != nullptr);
            J.attribute("finc", FS->getInc() != nullptr);
        }
    }

    void refAttrs(const ValueDecl *D) {
        J.attributeObject("ref", [&] {
            J.attribute("decl", (int64_t)declId(D));
            if (D->getDeclName().isIdentifier())
                J.attribute("name", D->getName());
            const char *Kind = "other";
            if (isa<ParmVarDecl>(D))
                Kind = "param";
            else if (const auto *VD = dyn_cast<VarDecl>(D)) {
                if (VD->isStaticLocal())
                    Kind = "staticlocal";
                else if (VD->isLocalVarDecl())
                    Kind = "local";
                else
                    Kind = "global";
            } else if (isa<FunctionDecl>(D))
                Kind = "func";
            else if (const auto *EC = dyn_cast<EnumConstantDecl>(D)) {
                Kind = "enum";
                J.attribute("val", EC->getInitVal().getExtValue());
            }
            J.attribute("kind", Kind);
        });
    }

    void exprAttrs(const Expr *E) {
        if (const auto *DRE = dyn_cast<DeclRefExpr>(E)) {
            refAttrs(DRE->getDecl());
        } else if (const auto *ME = dyn_cast<MemberExpr>(E)) {
            const ValueDecl *MD = ME->getMemberDecl();
            if (MD->getDeclName().isIdentifier())
                J.attribute("member", MD->getName());
            J.attribute("arrow", ME->isArrow());
            {
                SourceLocation ML = ME->getMemberLoc();
                if (ML.isValid() && ML.isMacroID()) {
                    StringRef MN = Lexer::getImmediateMacroName(ML, SM, LO);
                    if (!MN.empty())
                        J.attribute("mmacro", MN);
                }
            }
            if (const auto *FD = dyn_cast<FieldDecl>(MD)) {
                const RecordDecl *RD = FD->getParent();
                if (RD->getDeclName().isIdentifier() && !RD->getName().empty())
                    J.attribute("rec", RD->getName());
                else if (const TypedefNameDecl *TD = RD->getTypedefNameForAnonDecl())
                    J.attribute("rec", TD->getName());
            }
        } else if (const auto *BO = dyn_cast<BinaryOperator>(E)) {
            J.attribute("op", BO->getOpcodeStr());
        } else if (const auto *UO = dyn_cast<UnaryOperator>(E)) {
            J.attribute("op", UnaryOperator::getOpcodeStr(UO->getOpcode()));
            if (UO->isPostfix())
                J.attribute("postfix", true);
        } else if (const auto *IL = dyn_cast<IntegerLiteral>(E)) {
            J.attribute("val", IL->getValue().getLimitedValue());
        } else if (const auto *FL = dyn_cast<FloatingLiteral>(E)) {
            J.attribute("val", FL->getValueAsApproximateDouble());
        } else if (const auto *CL = dyn_cast<CharacterLiteral>(E)) {
            J.attribute("val", (int64_t)CL->getValue());
        } else if (const auto *SL = dyn_cast<StringLiteral>(E)) {
            if (SL->getCharByteWidth() == 1) {
                // JSON needs valid UTF-8: escape non-ASCII bytes
                std::string Out;
                for (unsigned char Ch : SL->getBytes()) {
                    if (Ch < 0x80)
                        Out.push_back((char)Ch);
                    else {
                        char B[8];
                        snprintf(B, sizeof(B), "\\x%02x", Ch);
                        Out += B;
                    }
                }
                J.attribute("val", Out);
                J.attribute("len", (int64_t)SL->getLength());
            }
        } else if (const auto *CE = dyn_cast<CastExpr>(E)) {
            J.attribute("cast", CE->getCastKindName());
        } else if (const auto *UE = dyn_cast<UnaryExprOrTypeTraitExpr>(E)) {
            J.attribute("trait", getTraitSpelling(UE->getKind()));
            if (UE->isArgumentType())
                J.attribute("argt", typeStr(UE->getArgumentType()));
            else
                J.attribute("argt", typeStr(UE->getArgumentExpr()->getType()));
        }
        if (const auto *CE = dyn_cast<CallExpr>(E)) {
            if (const FunctionDecl *FD = CE->getDirectCallee()) {
                if (FD->getDeclName().isIdentifier())
                    J.attribute("callee", FD->getName());
                if (FD->isNoReturn() || FD->hasAttr<NoReturnAttr>())
                    J.attribute("noreturn", true);
            } else
                J.attribute("callee_indirect", true);
        }
        // constant value for non-literal integer constant expressions
        if (!isa<IntegerLiteral>(E) && !isa<InitListExpr>(E) && E->getType()->isIntegralOrEnumerationType() &&
            !E->isValueDependent()) {
            Expr::EvalResult R;
            if (E->EvaluateAsInt(R, Ctx, Expr::SE_NoSideEffects))
                J.attribute("cv", R.Val.getInt().getExtValue());
        }
    }

    // ---- CFG -------------------------------------------------------------

    void emitElemId(const Stmt *S) {
        if (const auto *ILE = dyn_cast<InitListExpr>(S)) {
            if (ILE->isSyntacticForm() && ILE->getSemanticForm())
                S = ILE->getSemanticForm();
        }
        if (const auto *DS = dyn_cast<DeclStmt>(S)) {
            for (const Decl *D : DS->decls())
                if (const auto *VD = dyn_cast<VarDecl>(D)) {
                    auto It = VarNode.find(VD);
                    if (It != VarNode.end())
                        J.value((int64_t)It->second);
                }
            return;
        }
        auto It = StmtId.find(S);
        if (It != StmtId.end())
            J.value((int64_t)It->second);
    }

    void cfg(const FunctionDecl *FD) {
        CFG::BuildOptions BO;
        BO.setAllAlwaysAdd();
        BO.AddImplicitDtors = false;
        BO.AddEHEdges = false;
        BO.PruneTriviallyFalseEdges = false;
        std::unique_ptr<CFG> G = CFG::buildCFG(FD, FD->getBody(), &Ctx, BO);
        if (!G) {
            J.attribute("cfg", nullptr);
            return;
        }
        J.attributeObject("cfg", [&] {
            J.attribute("entry", (int64_t)G->getEntry().getBlockID());
            J.attribute("exit", (int64_t)G->getExit().getBlockID());
            J.attributeArray("blocks", [&] {
                for (const CFGBlock *B : *G) {
                    J.object([&] {
                        J.attribute("id", (int64_t)B->getBlockID());
                        J.attributeArray("elems", [&] {
                            for (const CFGElement &El : *B) {
                                if (auto CS = El.getAs<CFGStmt>())
                                    emitElemId(CS->getStmt());
                            }
                        });
                        if (const Stmt *T = B->getTerminatorStmt()) {
                            auto It = StmtId.find(T);
                            if (It != StmtId.end())
                                J.attribute("term", (int64_t)It->second);
                            J.attribute("termk", T->getStmtClassName());
                        }
                        if (const Stmt *TC = B->getTerminatorCondition()) {
                            auto It = StmtId.find(TC);
                            if (It != StmtId.end())
                                J.attribute("cond", (int64_t)It->second);
                        }
                        if (const Stmt *L = B->getLabel()) {
                            auto It = StmtId.find(L);
                            if (It != StmtId.end())
                                J.attribute("label", (int64_t)It->second);
                        }
                        if (B->hasNoReturnElement())
                            J.attribute("noreturn", true);
                        J.attributeArray("succs", [&] {
                            for (auto SI = B->succ_begin(); SI != B->succ_end(); ++SI) {
                                const CFGBlock *R = SI->getReachableBlock();
                                const CFGBlock *P = SI->getPossiblyUnreachableBlock();
                                if (R)
                                    J.value((int64_t)R->getBlockID());
                                else if (P)
                                    J.value((int64_t)P->getBlockID());
                                else
                                    J.value(nullptr);
                            }
                        });
                    });
                }
            });
        });
    }

    // ---- top-level -------------------------------------------------------

    void function(const FunctionDecl *FD) {
        StmtId.clear();
        VarNode.clear();
        NextStmt = 0;
        J.object([&] {
            J.attribute("name", FD->getName());
            J.attribute("decl", (int64_t)declId(FD));
            J.attribute("file", fileOf(FD->getLocation()));
            J.attribute("static", FD->getStorageClass() == SC_Static);
            J.attribute("inline", FD->isInlineSpecified());
            J.attribute("ret", typeStr(FD->getReturnType()));
            J.attribute("cret", canonStr(FD->getReturnType()));
            J.attribute("variadic", FD->isVariadic());
            loc(FD->getLocation());
            J.attribute("endl", (int64_t)SM.getExpansionLineNumber(FD->getEndLoc()));
            J.attributeArray("params", [&] {
                for (const ParmVarDecl *P : FD->parameters()) {
                    J.object([&] {
                        J.attribute("name", P->getName());
                        J.attribute("decl", (int64_t)declId(P));
                        typeAttrs(P->getType());
                        // original (undecayed) type for array params
                        QualType OT = P->getOriginalType();
                        if (OT != P->getType())
                            J.attribute("ot", typeStr(OT));
                    });
                }
            });
            J.attributeBegin("body");
            stmt(FD->getBody());
            J.attributeEnd();
            cfg(FD);
        });
    }

    void prototype(const FunctionDecl *FD) {
        J.object([&] {
            J.attribute("name", FD->getName());
            J.attribute("file", fileOf(FD->getLocation()));
            loc(FD->getLocation());
            J.attribute("static", FD->getStorageClass() == SC_Static);
            J.attribute("ret", typeStr(FD->getReturnType()));
            J.attribute("hasbody", FD->doesThisDeclarationHaveABody());
            J.attribute("variadic", FD->isVariadic());
            J.attributeArray("params", [&] {
                for (const ParmVarDecl *P : FD->parameters()) {
                    J.object([&] {
                        J.attribute("name", P->getName());
                        typeAttrs(P->getType());
                        QualType OT = P->getOriginalType();
                        if (OT != P->getType())
                            J.attribute("ot", typeStr(OT));
                    });
                }
            });
        });
    }

    void run(TranslationUnitDecl *TU) {
        std::vector<const FunctionDecl *> Funcs, Protos;
        std::vector<const VarDecl *> Globals;
        std::vector<const EnumDecl *> Enums;
        std::vector<const RecordDecl *> Records;
        std::vector<const TypedefNameDecl *> Typedefs;
        for (const Decl *D : TU->decls()) {
            if (!inRepo(D->getLocation()))
                continue;
            if (const auto *FD = dyn_cast<FunctionDecl>(D)) {
                if (!FD->getDeclName().isIdentifier())
                    continue;
                Protos.push_back(FD);
                if (FD->doesThisDeclarationHaveABody() && (inMain(FD->getLocation()) || Opt.headers))
                    Funcs.push_back(FD);
            } else if (const auto *VD = dyn_cast<VarDecl>(D)) {
                if (inMain(VD->getLocation()) || Opt.headers)
                    Globals.push_back(VD);
            } else if (const auto *ED = dyn_cast<EnumDecl>(D)) {
                if (ED->isCompleteDefinition())
                    Enums.push_back(ED);
            } else if (const auto *RD = dyn_cast<RecordDecl>(D)) {
                if (RD->isCompleteDefinition())
                    Records.push_back(RD);
            } else if (const auto *TD = dyn_cast<TypedefNameDecl>(D)) {
                Typedefs.push_back(TD);
            }
        }
        J.object([&] {
            J.attribute("main", SM.getFileEntryForID(SM.getMainFileID())->getName());
            J.attributeArray("functions", [&] {
                for (const FunctionDecl *FD : Funcs)
                    function(FD);
            });
            J.attributeArray("prototypes", [&] {
                for (const FunctionDecl *FD : Protos)
                    prototype(FD);
            });
            J.attributeArray("globals", [&] {
                for (const VarDecl *VD : Globals) {
                    StmtId.clear();
                    VarNode.clear();
                    NextStmt = 0;
                    J.object([&] {
                        J.attribute("name", VD->getName());
                        J.attribute("decl", (int64_t)declId(VD));
                        J.attribute("file", fileOf(VD->getLocation()));
                        J.attribute("static", VD->getStorageClass() == SC_Static);
                        typeAttrs(VD->getType());
                        loc(VD->getLocation());
                        if (VD->getType()->isArrayType())
                            J.attributeArray("dims", [&] { vlaSizes(VD->getType()); });
                        if (VD->hasInit()) {
                            J.attributeBegin("init");
                            stmt(VD->getInit());
                            J.attributeEnd();
                        }
                    });
                }
            });
            J.attributeArray("enums", [&] {
                for (const EnumDecl *ED : Enums) {
                    J.object([&] {
                        if (ED->getDeclName().isIdentifier() && !ED->getName().empty())
                            J.attribute("name", ED->getName());
                        else if (const TypedefNameDecl *TD = ED->getTypedefNameForAnonDecl())
                            J.attribute("name", TD->getName());
                        J.attribute("file", fileOf(ED->getLocation()));
                        loc(ED->getLocation());
                        J.attributeArray("constants", [&] {
                            for (const EnumConstantDecl *EC : ED->enumerators()) {
                                J.object([&] {
                                    J.attribute("name", EC->getName());
                                    J.attribute("val", EC->getInitVal().getExtValue());
                                    loc(EC->getLocation());
                                });
                            }
                        });
                    });
                }
            });
            J.attributeArray("records", [&] {
                for (const RecordDecl *RD : Records) {
                    J.object([&] {
                        if (RD->getDeclName().isIdentifier() && !RD->getName().empty())
                            J.attribute("name", RD->getName());
                        else if (const TypedefNameDecl *TD = RD->getTypedefNameForAnonDecl())
                            J.attribute("name", TD->getName());
                        J.attribute("union", RD->isUnion());
                        J.attribute("file", fileOf(RD->getLocation()));
                        loc(RD->getLocation());
                        J.attributeArray("fields", [&] {
                            for (const FieldDecl *FD : RD->fields()) {
                                J.object([&] {
                                    if (FD->getDeclName().isIdentifier())
                                        J.attribute("name", FD->getName());
                                    typeAttrs(FD->getType());
                                    loc(FD->getLocation());
                                });
                            }
                        });
                    });
                }
            });
            J.attributeArray("typedefs", [&] {
                for (const TypedefNameDecl *TD : Typedefs) {
                    J.object([&] {
                        J.attribute("name", TD->getName());
                        J.attribute("t", typeStr(TD->getUnderlyingType()));
                        J.attribute("ct", canonStr(TD->getUnderlyingType()));
                    });
                }
            });
        });
    }
};

class Consumer : public ASTConsumer {
    Options Opt;

public:
    explicit Consumer(Options O) : Opt(std::move(O)) {}
    void HandleTranslationUnit(ASTContext &Ctx) override {
        if (Ctx.getDiagnostics().hasErrorOccurred())
            return;
        std::error_code EC;
        llvm::raw_fd_ostream OS(Opt.out, EC);
        if (EC) {
            llvm::errs() << "vfacts: cannot open " << Opt.out << ": " << EC.message() << "\n";
            return;
        }
        json::OStream J(OS);
        Exporter E(Ctx, J, Opt);
        E.run(Ctx.getTranslationUnitDecl());
        OS << "\n";
    }
};

class Action : public PluginASTAction {
    Options Opt;

protected:
    std::unique_ptr<ASTConsumer> CreateASTConsumer(CompilerInstance &, llvm::StringRef) override {
        return std::make_unique<Consumer>(Opt);
    }
    bool ParseArgs(const CompilerInstance &, const std::vector<std::string> &Args) override {
        for (const std::string &A : Args) {
            if (A.rfind("out=", 0) == 0)
                Opt.out = A.substr(4);
            else if (A.rfind("root=", 0) == 0)
                Opt.root = A.substr(5);
            else if (A == "headers")
                Opt.headers = true;
        }
        if (Opt.out.empty()) {
            llvm::errs() << "vfacts: missing out=<file>\n";
            return false;
        }
        return true;
    }
    ActionType getActionType() override { return ReplaceAction; }
};

} // namespace

static FrontendPluginRegistry::Add<Action> X("vfacts", "export AST+CFG facts as JSON");

"""Canonical, name-independent rendering of access paths.

Rules compare expressions such as `vdp_in->vd_data[findex]` against an
expected shape.  Comparing spelled names would fire on a harmless renaming,
so expressions are rendered with
  * parameters by position              ($0, $1, ...) or a role name,
  * single-definition locals expanded to their defining expression
    (`frequencies` -> `$0->vd_frequencies`, `vdip` -> `INT($0)`),
  * induction variables of enclosing counted loops as $i (outermost $i0..),
  * VDP_TO_VDIP(x) / container-of casts as INT(x),
  * casts and parentheses removed.
"""
from .util import access_path


class Canon:
    def __init__(self, fn, roles=None):
        self.fn = fn
        self.roles = dict(roles or {})      # decl id -> name
        for i, p in enumerate(fn.params):
            self.roles.setdefault(p["decl"], "$%d" % i)
        self.defs = {}                      # decl id -> list of (kind, rhs node or None)
        self.addr_taken = set()
        if fn.body is None:
            return
        for n in fn.walk():
            if n.k == "VarDecl":
                d = n.get("decl")
                self.defs.setdefault(d, [])
                if n.kids:
                    self.defs[d].append(("init", n.kids[0]))
            elif n.k in ("BinaryOperator", "CompoundAssignOperator") and n.op and n.op.endswith("=") and \
                    n.op not in ("==", "!=", "<=", ">="):
                l = n.kids[0].strip()
                if l.k == "DeclRefExpr":
                    self.defs.setdefault(l.refdecl, []).append(("assign" if n.op == "=" else "update", n.kids[1]))
            elif n.k == "UnaryOperator" and n.op in ("++", "--"):
                l = n.kids[0].strip()
                if l.k == "DeclRefExpr":
                    self.defs.setdefault(l.refdecl, []).append(("update", None))
            elif n.k == "UnaryOperator" and n.op == "&":
                l = n.kids[0].strip()
                if l.k == "DeclRefExpr":
                    self.addr_taken.add(l.refdecl)

    def single_def(self, decl):
        ds = self.defs.get(decl)
        if ds is None or decl in self.addr_taken:
            return None
        real = [d for d in ds if d[0] in ("init", "assign")]
        if len(ds) == 1 and len(real) == 1:
            return real[0][1]
        return None

    def loop_role(self, ref_node):
        """If the variable is the induction variable of an enclosing for loop: its depth-based name."""
        decl = ref_node.refdecl
        loops = [a for a in ref_node.ancestors() if a.k == "ForStmt"]
        loops.reverse()  # outermost first
        for depth, lp in enumerate(loops):
            init = lp.kids[0]
            if init is None:
                continue
            iv = None
            if init.k == "DeclStmt" and init.kids and init.kids[0].k == "VarDecl":
                iv = init.kids[0].get("decl")
            else:
                s = init.strip()
                if s.k == "BinaryOperator" and s.op == "=" and s.kids[0].strip().k == "DeclRefExpr":
                    iv = s.kids[0].strip().refdecl
            if iv == decl:
                return "$i" if len(loops) == 1 else "$i%d" % depth
        return None

    def path(self, n, depth=0):
        n = n.strip()
        k = n.k
        if "VDP_TO_VDIP" in n.macros and not n.get("marg"):
            # the whole container-of expression: find the macro argument
            args = [m for m in n.walk() if m.get("marg") and m.k == "DeclRefExpr"]
            if args:
                return "INT(" + self.path(args[0], depth) + ")"
        if k == "DeclRefExpr":
            r = n.ref
            if r["kind"] in ("enum", "func", "global"):
                return r.get("name", "?")
            d = r["decl"]
            if d in self.roles:
                return self.roles[d]
            lr = self.loop_role(n)
            if lr:
                return lr
            sd = self.single_def(d) if depth < 6 else None
            if sd is not None:
                return self.path(sd, depth + 1)
            return r.get("name", "?")
        if k == "MemberExpr":
            return self.path(n.kids[0], depth) + ("->" if n.get("arrow") else ".") + (n.member or "?")
        if k == "ArraySubscriptExpr":
            return self.path(n.kids[0], depth) + "[" + self.path(n.kids[1], depth) + "]"
        if k == "UnaryOperator":
            if n.get("postfix"):
                return self.path(n.kids[0], depth) + n.op
            return n.op + self.path(n.kids[0], depth)
        if k in ("BinaryOperator", "CompoundAssignOperator"):
            return "(" + self.path(n.kids[0], depth) + n.op + self.path(n.kids[1], depth) + ")"
        if k == "IntegerLiteral":
            return str(n.val)
        if k == "CallExpr":
            return (n.callee or self.path(n.kids[0], depth)) + "(" + ",".join(self.path(a, depth) for a in n.args()) + ")"
        if k == "ConditionalOperator":
            return "(" + self.path(n.kids[0], depth) + "?" + self.path(n.kids[1], depth) + ":" + self.path(n.kids[2], depth) + ")"
        if k == "UnaryExprOrTypeTraitExpr":
            return "sizeof(" + n.get("argt", "") + ")"
        return access_path(n)

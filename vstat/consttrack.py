"""Base tracker: constant propagation of integer/bool locals and parameters with branch pruning."""
from .flow import Tracker
from .util import is_null
from .canon import Canon


def fs_set(fs, k, v):
    d = dict(fs)
    d[k] = v
    return frozenset(d.items())


def fs_del(fs, k):
    d = dict(fs)
    if k in d:
        d.pop(k)
        return frozenset(d.items())
    return fs


class ConstTracker(Tracker):
    """state = (ints, extra) ; subclasses use `extra` (hashable) for their own facts"""

    def __init__(self, fn, fixed=None):
        self.fn = fn
        self.cn = Canon(fn)
        self.fixed = dict(fixed or {})          # decl -> const for parameters fixed by the caller
        self.tracked = set(self.fixed)
        for n in fn.walk():
            if n.k == "VarDecl" and n.ctype in ("int", "_Bool", "bool", "long", "unsigned int"):
                d = n.get("decl")
                ds = self.cn.defs.get(d, [])
                if d not in self.cn.addr_taken and ds and all(
                        k in ("init", "assign") and r is not None and r.strip().cv is not None for k, r in ds):
                    self.tracked.add(d)
        # a fixed parameter that is reassigned is no longer fixed
        for d in list(self.fixed):
            if self.cn.defs.get(d):
                self.tracked.discard(d)
                self.fixed.pop(d)

    def initial(self, fn):
        return (frozenset(self.fixed.items()), self.initial_extra())

    def initial_extra(self):
        return frozenset()

    # -- hooks ------------------------------------------------------------
    def on_node(self, ints, extra, n, ctx):
        return extra

    def on_branch(self, ints, extra, cond, truth, ctx):
        return extra

    # -- engine interface -----------------------------------------------------
    def step(self, st, n, ctx):
        ints, extra = st
        k = n.k
        if k == "VarDecl" and n.get("decl") in self.tracked:
            v = n.kids[0].strip().cv if n.kids else None
            ints = fs_set(ints, n.get("decl"), v) if v is not None else fs_del(ints, n.get("decl"))
        elif k == "BinaryOperator" and n.op == "=":
            l = n.kids[0].strip()
            if l.k == "DeclRefExpr" and l.refdecl in self.tracked:
                v = n.kids[1].strip().cv
                ints = fs_set(ints, l.refdecl, v) if v is not None else fs_del(ints, l.refdecl)
        extra = self.on_node(ints, extra, n, ctx)
        if extra is None:
            return []
        return [(ints, extra)]

    def const_of(self, ints, e):
        e = e.strip()
        if e.cv is not None:
            return e.cv
        if is_null(e):
            return 0
        if e.k == "DeclRefExpr":
            return dict(ints).get(e.refdecl)
        return None

    def branch(self, st, cond, truth, ctx):
        ints, extra = st
        c = cond.strip()
        while c.k == "UnaryOperator" and c.op == "!":
            truth = not truth
            c = c.kids[0].strip()
        if c.k == "BinaryOperator" and c.op in ("==", "!=", "<", ">", "<=", ">="):
            a, b = self.const_of(ints, c.kids[0]), self.const_of(ints, c.kids[1])
            if a is not None and b is not None:
                val = {"==": a == b, "!=": a != b, "<": a < b, ">": a > b, "<=": a <= b, ">=": a >= b}[c.op]
                if val != truth:
                    return None
            else:
                # learn x == c
                for x, y in ((c.kids[0].strip(), b), (c.kids[1].strip(), a)):
                    if y is not None and x.k == "DeclRefExpr" and x.refdecl in self.tracked:
                        if (c.op == "==" and truth) or (c.op == "!=" and not truth):
                            ints = fs_set(ints, x.refdecl, y)
        else:
            v = self.const_of(ints, c)
            if v is not None:
                if bool(v) != truth:
                    return None
            elif c.k == "DeclRefExpr" and c.refdecl in self.tracked and not truth:
                ints = fs_set(ints, c.refdecl, 0)
        extra = self.on_branch(ints, extra, cond, truth, ctx)
        if extra is None:
            return None
        return (ints, extra)

    def switch(self, st, cond, case_vals, is_default, all_vals, ctx):
        ints, extra = st
        if cond is None:
            return st
        v = self.const_of(ints, cond)
        if v is None:
            return st
        if is_default:
            return None if v in all_vals else st
        return st if v in case_vals else None

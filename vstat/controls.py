"""Positive controls for the thorough tier: do the rules still see a violation when one is put into today's source?

A rule that has silently gone blind (an anchor renamed, an idiom rewritten) passes forever.  Instance floors guard
against the rule matching nothing; the controls guard against it matching but no longer discriminating.  For the
property being checked, every stored seeded change of /verif/seeded/<property>-*/ that the corpus matrix records as
caught is applied to a *scratch copy of the current /repo/src* (under the system temp directory, removed at once),
the rules that caught it are run on that copy, and a new finding of the property is expected.  A patch that no
longer applies to the current tree is skipped (the tree has moved on), never counted as a miss.

A second family of controls comes from the repair history: every `fix:` commit recorded for the property in
known_findings.json is reverted on a scratch copy (`git show -R <commit> -- src | patch`) and the rule that found the
defect must report the recorded key again ("a fixed entry suppresses nothing ... reports the violation again if it
ever returns").  A reverse patch that no longer applies is skipped.

Controls never change the verdict on /repo: they are reported in the evidence ("controls") and on stdout
(CONTROL lines).  Only when *every* applicable control of a property is missed - the engine is blind - does the
thorough check end with ANALYSIS-BROKEN (exit 2), which is neither a pass nor a violation.
"""
import importlib
import json
import os
import shutil
import subprocess
import tempfile

VERIF = os.path.dirname(os.path.dirname(os.path.abspath(__file__)))
RULE_MODULE = {
    "R01": "r01_leak", "R03": "r03_container", "R05": "r05_nullcontra", "R06": "r06_uninit", "R07": "r07_uniontag",
    "R08": "r08_index", "R09": "r09_bounds", "R10": "r09_bounds", "R12": "r12_sprintf", "R14": "r14_resize", "R14b": "r14b_realloc",
    "R15": "r15_fail", "R16": "r15_fail", "R15c": "r15c_ignored", "R18": "r18_atomic", "R19b": "r19_commit", "R20": "r20_halfbuilt",
    "R22": "r29_fields", "R29": "r29_fields", "R23": "r23_detcheck", "R24": "r24_count", "R25": "r25_loops", "R27": "r27_mirror",
    "R28": "r28_dispatch", "R30": "r30_terms", "R31": "r31_funnel", "R32": "r32_indexspace", "R33": "r33_range", "R34a": "r34a_unit",
    "R34b": "r34b_pivot", "R34c": "r34c_alias", "R34d": "r34c_alias", "R36": "r36_avgpair", "R37": "r37_bounds", "R38": "r38_precision",
    "R39": "r39_textslack", "R40": "r40_fillorder", "R41": "r41_dangling", "RET-INDEX": "r_slot",
}


def module_of(rule):
    """rule id -> module name: the table above, else the file of vstat/rules whose name starts with the id (r58_...)"""
    if rule in RULE_MODULE:
        return RULE_MODULE[rule]
    pre = rule.lower() + "_"
    for fn in sorted(os.listdir(os.path.join(VERIF, "vstat", "rules"))):
        if fn.startswith(pre) and fn.endswith(".py"):
            return fn[:-3]
    return None


def _revert_one(pid, commit, keys, baseline, registered):
    """positive control from the repair history: undo one `fix:` commit on a scratch copy; the rule that found the defect
    must report the recorded key again"""
    from .model import Program
    from .facts import AnalysisBroken, SRC
    tmp = tempfile.mkdtemp(prefix="vctl_rev_%s_" % commit)
    name = "revert:%s" % commit
    try:
        os.makedirs(os.path.join(tmp, "src"))
        root = os.path.dirname(SRC)
        if os.path.exists(os.path.join(root, "config.h")):
            shutil.copy(os.path.join(root, "config.h"), tmp)
        for fn in os.listdir(SRC):
            if fn.endswith((".c", ".h")) or fn in ("Makefile.am", "Makefile"):
                shutil.copy(os.path.join(SRC, fn), os.path.join(tmp, "src"))
        r = subprocess.run("git -C %s show -R %s -- src > rev.diff && patch -p1 -s --no-backup-if-mismatch < rev.diff" % (root, commit),
                           shell=True, cwd=tmp, capture_output=True, text=True)
        if r.returncode != 0:
            return {"control": name, "status": "skipped", "why": "reverse patch does not apply (later commits changed the same lines)"}
        mods = sorted({m for m in (module_of(k.split("|")[0]) for k in keys) if m is not None and m in registered})
        if not mods:
            return {"control": name, "status": "skipped", "why": "rule of the recorded key is not registered for this property"}
        try:
            P = Program(os.path.join(tmp, "src"))
            hits = []
            for m in mods:
                res = importlib.import_module("vstat.rules." + m).run(P, "quick")
                for rr in (res if isinstance(res, (list, tuple)) else [res]):
                    for fd in rr.findings:
                        if fd.key not in baseline and (fd.key in keys or fd.key.split("|")[0] in {k.split("|")[0] for k in keys}):
                            hits.append(fd.key)
        except AnalysisBroken as e:
            return {"control": name, "status": "detected", "by": "ANALYSIS-BROKEN: %s" % str(e)[:120], "rules_run": []}
        if hits:
            return {"control": name, "status": "detected", "by": sorted(set(hits))[:3], "rules_run": mods}
        return {"control": name, "status": "missed", "rules_run": mods, "expected": sorted(keys)[:3]}
    finally:
        shutil.rmtree(tmp, ignore_errors=True)


def _one(pid, sid, rules, baseline, registered):
    from .model import Program
    from .facts import AnalysisBroken, SRC
    patch = os.path.join(VERIF, "seeded", sid, "patch.diff")
    tmp = tempfile.mkdtemp(prefix="vctl_%s_" % sid)
    try:
        os.makedirs(os.path.join(tmp, "src"))
        root = os.path.dirname(SRC)
        if os.path.exists(os.path.join(root, "config.h")):
            shutil.copy(os.path.join(root, "config.h"), tmp)
        for fn in os.listdir(SRC):
            if fn.endswith((".c", ".h")) or fn in ("Makefile.am", "Makefile"):
                shutil.copy(os.path.join(SRC, fn), os.path.join(tmp, "src"))
        r = subprocess.run("patch -p1 -s --no-backup-if-mismatch < %s" % patch, shell=True, cwd=tmp, capture_output=True, text=True)
        if r.returncode != 0:
            return {"control": sid, "status": "skipped", "why": "patch does not apply to the current tree"}
        try:
            P = Program(os.path.join(tmp, "src"))
            hits = []
            mods = sorted({module_of(x) for x in rules if module_of(x) is not None and module_of(x) in registered})
            for m in mods:
                res = importlib.import_module("vstat.rules." + m).run(P, "quick")
                for rr in (res if isinstance(res, (list, tuple)) else [res]):
                    for fd in rr.findings:
                        if pid in fd.props and fd.key not in baseline:
                            hits.append(fd.key)
        except AnalysisBroken as e:
            # a changed tree the rules cannot even parse is a report as well (exit 2 on that tree)
            return {"control": sid, "status": "detected", "by": "ANALYSIS-BROKEN: %s" % str(e)[:120], "rules_run": []}
        if hits:
            return {"control": sid, "status": "detected", "by": sorted(set(hits))[:3], "rules_run": mods}
        return {"control": sid, "status": "missed", "rules_run": mods}
    finally:
        shutil.rmtree(tmp, ignore_errors=True)


def run_controls(pid, baseline_keys, registered):
    mpath = os.path.join(VERIF, "seeded", "MATRIX.json")
    if not os.path.exists(mpath):
        return []
    matrix = json.load(open(mpath))
    jobs = []
    for sid in sorted(matrix):
        ent = matrix[sid]
        if not sid.startswith(pid + "-") or pid not in ent.get("caught_by", []):
            continue
        if not os.path.exists(os.path.join(VERIF, "seeded", sid, "patch.diff")):
            continue
        jobs.append((pid, sid, ent.get("rules", []), baseline_keys, registered))
    # repairs recorded for this property: each reverted on a scratch copy
    rjobs = []
    try:
        kf = json.load(open(os.path.join(VERIF, "known_findings.json")))
        by_commit = {}
        for e in kf.get("fixed", []):
            if e.get("commit") and e.get("key") and pid in e.get("properties", []):
                by_commit.setdefault(e["commit"], set()).add(e["key"])
        for c, keys in sorted(by_commit.items()):
            rjobs.append((pid, c, keys, baseline_keys, registered))
    except (OSError, ValueError):
        pass
    if not jobs and not rjobs:
        return []
    import concurrent.futures
    out = []
    with concurrent.futures.ProcessPoolExecutor(max_workers=8) as ex:
        if jobs:
            out += list(ex.map(_star, jobs))
        if rjobs:
            out += list(ex.map(_rstar, rjobs))
    return out


def _star(args):
    return _one(*args)


def _rstar(args):
    return _revert_one(*args)

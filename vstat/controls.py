"""Positive controls for the thorough tier: do the rules still see a violation when one is put into today's source?

A rule that has silently gone blind (an anchor renamed, an idiom rewritten) passes forever.  Instance floors guard
against the rule matching nothing; the controls guard against it matching but no longer discriminating.  For the
property being checked, every stored seeded change of /verif/seeded/<property>-*/ that the corpus matrix records as
caught is applied to a *scratch copy of the current /repo/src* (under the system temp directory, removed at once),
the rules that caught it are run on that copy, and a new finding of the property is expected.  A patch that no
longer applies to the current tree is skipped (the tree has moved on), never counted as a miss.

Controls never change the verdict on /repo: they are reported in the evidence ("controls") and on stdout
(CONTROL lines).  Only when *every* applicable control of a property is missed - the engine is blind - does the
thorough check end with ANALYSIS-BROKEN (exit 2), which is neither a pass nor a violation.
"""
import importlib
import json
import os
import shutil
import subprocess
import tempfile

VERIF = os.path.dirname(os.path.dirname(os.path.abspath(__file__)))
RULE_MODULE = {
    "R01": "r01_leak", "R03": "r03_container", "R05": "r05_nullcontra", "R06": "r06_uninit", "R07": "r07_uniontag",
    "R08": "r08_index", "R09": "r09_bounds", "R10": "r09_bounds", "R12": "r12_sprintf", "R14": "r14_resize", "R14b": "r14b_realloc",
    "R15": "r15_fail", "R16": "r15_fail", "R15c": "r15c_ignored", "R18": "r18_atomic", "R19b": "r19_commit", "R20": "r20_halfbuilt",
    "R22": "r29_fields", "R29": "r29_fields", "R23": "r23_detcheck", "R24": "r24_count", "R25": "r25_loops", "R27": "r27_mirror",
    "R28": "r28_dispatch", "R30": "r30_terms", "R31": "r31_funnel", "R32": "r32_indexspace", "R33": "r33_range", "R34a": "r34a_unit",
    "R34b": "r34b_pivot", "R34c": "r34c_alias", "R34d": "r34c_alias", "R36": "r36_avgpair", "R37": "r37_bounds", "R38": "r38_precision",
    "R39": "r39_textslack", "R40": "r40_fillorder", "R41": "r41_dangling", "RET-INDEX": "r_slot",
}


def _one(pid, sid, rules, baseline, registered):
    from .model import Program
    from .facts import AnalysisBroken, SRC
    patch = os.path.join(VERIF, "seeded", sid, "patch.diff")
    tmp = tempfile.mkdtemp(prefix="vctl_%s_" % sid)
    try:
        os.makedirs(os.path.join(tmp, "src"))
        root = os.path.dirname(SRC)
        if os.path.exists(os.path.join(root, "config.h")):
            shutil.copy(os.path.join(root, "config.h"), tmp)
        for fn in os.listdir(SRC):
            if fn.endswith((".c", ".h")) or fn in ("Makefile.am", "Makefile"):
                shutil.copy(os.path.join(SRC, fn), os.path.join(tmp, "src"))
        r = subprocess.run("patch -p1 -s --no-backup-if-mismatch < %s" % patch, shell=True, cwd=tmp, capture_output=True, text=True)
        if r.returncode != 0:
            return {"control": sid, "status": "skipped", "why": "patch does not apply to the current tree"}
        try:
            P = Program(os.path.join(tmp, "src"))
            hits = []
            mods = sorted({RULE_MODULE[x] for x in rules if x in RULE_MODULE and RULE_MODULE[x] in registered})
            for m in mods:
                res = importlib.import_module("vstat.rules." + m).run(P, "quick")
                for rr in (res if isinstance(res, (list, tuple)) else [res]):
                    for fd in rr.findings:
                        if pid in fd.props and fd.key not in baseline:
                            hits.append(fd.key)
        except AnalysisBroken as e:
            # a changed tree the rules cannot even parse is a report as well (exit 2 on that tree)
            return {"control": sid, "status": "detected", "by": "ANALYSIS-BROKEN: %s" % str(e)[:120], "rules_run": []}
        if hits:
            return {"control": sid, "status": "detected", "by": sorted(set(hits))[:3], "rules_run": mods}
        return {"control": sid, "status": "missed", "rules_run": mods}
    finally:
        shutil.rmtree(tmp, ignore_errors=True)


def run_controls(pid, baseline_keys, registered):
    mpath = os.path.join(VERIF, "seeded", "MATRIX.json")
    if not os.path.exists(mpath):
        return []
    matrix = json.load(open(mpath))
    jobs = []
    for sid in sorted(matrix):
        ent = matrix[sid]
        if not sid.startswith(pid + "-") or pid not in ent.get("caught_by", []):
            continue
        if not os.path.exists(os.path.join(VERIF, "seeded", sid, "patch.diff")):
            continue
        jobs.append((pid, sid, ent.get("rules", []), baseline_keys, registered))
    if not jobs:
        return []
    import concurrent.futures
    with concurrent.futures.ProcessPoolExecutor(max_workers=min(6, len(jobs))) as ex:
        return list(ex.map(_star, jobs))


def _star(args):
    return _one(*args)

"""Rule framework: findings, rule results, known-findings comparison, evidence."""
import json
import os
import time

from . import facts as F

VERIF = F.VERIF


class Finding:
    """One violated rule instance.

    key  : stable, line-independent identity  RULE|file|function|anchor
    props: property ids this finding is a violation of
    """

    def __init__(self, rule, props, file, func, anchor, msg, line=0, trace=None):
        self.rule = rule
        self.props = set(props)
        self.file = file
        self.func = func
        self.anchor = anchor
        self.msg = msg
        self.line = line
        self.trace = trace or []
        self.key = "%s|%s|%s|%s" % (rule, file, func, anchor)

    def to_json(self):
        return {"rule": self.rule, "properties": sorted(self.props), "file": self.file, "line": self.line,
                "function": self.func, "key": self.key, "message": self.msg, "trace": self.trace}


class RuleResult:
    def __init__(self, rule, text, floor=0):
        self.rule = rule
        self.text = text            # the rule, in words
        self.floor = floor          # minimum number of instances (below => analysis broken)
        self.instances = []         # list of (key, verdict, props or None) ; verdict in ok|violated|unclassified
        self.findings = []
        self.notes = []
        self.counts = {}            # free-form measured numbers (functions, call sites, paths ...)

    def ok(self, key, props=None):
        self.instances.append((key, "ok", props))

    def unclassified(self, key, why, props=None):
        self.instances.append((key, "unclassified: " + why, props))

    def violated(self, finding):
        self.instances.append((finding.key, "violated", finding.props))
        self.findings.append(finding)

    def check_floor(self):
        n = sum(1 for (_, v, _) in self.instances if not v.startswith("unclassified"))
        if n < self.floor:
            raise F.AnalysisBroken("rule %s: %d classified instances, floor is %d (anchors vanished or "
                                   "code shape not understood)" % (self.rule, n, self.floor))

    def for_prop(self, pid):
        """instances relevant for property pid (props None = all)"""
        return [(k, v) for (k, v, p) in self.instances if p is None or pid in p]


def load_known():
    path = os.path.join(VERIF, "known_findings.json")
    if not os.path.exists(path):
        return {"findings": [], "fixed": []}
    with open(path) as f:
        return json.load(f)


def caller_aliases(P, fd):
    """keys under which a finding may have been recorded before its code was moved into a helper: the same rule, file
    and anchor with the function replaced by the (transitively) *only* caller of the static function it is now in.
    A recorded finding keeps its identity when a maintainer extracts the block that contains it."""
    out = []
    try:
        callers = P.callers()
        f = P.func(fd.func, fd.file)
        seen = set()
        while f is not None and f.static and f.key() not in seen:
            seen.add(f.key())
            cs = {g.key(): g for (g, _) in callers.get(f.key(), []) if g.file == f.file}
            if len(cs) != 1:
                break
            f = list(cs.values())[0]
            out.append("%s|%s|%s|%s" % (fd.rule, fd.file, f.name, fd.anchor))
    except Exception:
        pass
    return out


def decide(pid, results, tier, t0, level="other", extra_assumptions=None, design_ref=None, controls=None, P=None, write_evidence=True):
    """Compare findings with known findings, print lines, write evidence, return exit status."""
    known = load_known()
    known_keys = {}
    for e in known.get("findings", []):
        if pid in e.get("properties", []):
            known_keys[e["key"]] = e
    out_lines = []
    violations = []
    known_hit = []
    seen = set()
    for r in results:
        for fd in r.findings:
            if pid not in fd.props:
                continue
            if fd.key in seen:
                continue
            seen.add(fd.key)
            if fd.key in known_keys:
                known_hit.append(fd)
            elif P is not None and any(k in known_keys for k in caller_aliases(P, fd)):
                seen.update(k for k in caller_aliases(P, fd) if k in known_keys)
                known_hit.append(fd)
            else:
                violations.append(fd)
    if write_evidence:
        replay_dir = os.path.join(VERIF, "evidence", "replay", pid)
    else:
        # --no-evidence (self-test runs on a deliberately changed /repo): leave the committed evidence alone
        import tempfile
        replay_dir = tempfile.mkdtemp(prefix="vreplay_%s_" % pid)
    os.makedirs(replay_dir, exist_ok=True)
    for fn in os.listdir(replay_dir):
        try:
            os.unlink(os.path.join(replay_dir, fn))
        except OSError:
            pass
    for fd in known_hit:
        print("KNOWN-FINDING: property=%s %s %s:%d %s" % (pid, fd.key, fd.file, fd.line, fd.msg))
    for i, fd in enumerate(violations):
        rp = os.path.join(replay_dir, "%d.json" % i)
        with open(rp, "w") as f:
            json.dump(fd.to_json(), f, indent=1)
        print("%s:%d: [%s] %s: %s" % (fd.file, fd.line, fd.rule, fd.func, fd.msg))
        for t in fd.trace[-12:]:
            print("      " + str(t))
        print("VIOLATION property=%s replay=%s" % (pid, rp))
    # stale known findings (listed but no longer reported) are just noted
    stale = [k for k in known_keys if k not in seen]

    # ---- evidence ----
    obligations = 0
    discharged = 0
    unclassified = 0
    samples = []
    rules_txt = []
    counts = {}
    for r in results:
        inst = r.for_prop(pid)
        obligations += len(inst)
        discharged += sum(1 for (_, v) in inst if v == "ok")
        unclassified += sum(1 for (_, v) in inst if v.startswith("unclassified"))
        rules_txt.append("%s: %s [instances=%d]" % (r.rule, r.text, len(inst)))
        # samples: first few ok, every non-ok (capped)
        shown = 0
        for (k, v) in inst:
            if v != "ok" and shown < 40:
                samples.append({"rule": r.rule, "instance": k, "verdict": v})
                shown += 1
        for (k, v) in inst[:4]:
            if v == "ok":
                samples.append({"rule": r.rule, "instance": k, "verdict": v})
        for ck, cv in r.counts.items():
            counts["%s.%s" % (r.rule, ck)] = cv
    distinct = len({k for r in results for (k, _) in r.for_prop(pid)})
    ev = {
        "property_id": pid,
        "tier": tier,
        "seed": int(os.environ.get("VERIF_SEED", "0") or 0),
        "level": level,
        "coverage": {
            "explanation": ("Static analysis of /repo/src (clang-14 AST+CFG of every library translation unit, "
                            "no execution). Each obligation is one rule instance (call site, function exit path, "
                            "table cell, guard, ...) found in the current source; 'discharged' are instances the "
                            "rule proved to hold; violated instances listed in known_findings.json are reported as "
                            "KNOWN-FINDING; unclassified instances have a shape the rule does not understand and "
                            "are neither passes nor alarms."),
            "obligations": obligations,
            "discharged": discharged,
            "unclassified": unclassified,
            "violated_known": len(known_hit),
            "violated_new": len(violations),
            "evaluations": max(obligations, 1),
            "distinct_nontrivial": distinct,
            "rule": "instances are enumerated from the source by the rules below; distinct = distinct instance keys; "
                    "an instance is non-trivial because it is a real construct of libvna matched by the rule",
            "rules": rules_txt,
            "samples": samples[:80] or [{"note": "no instances"}],
            "measured": counts,
            "checker_cmd": "/verif/check %s --tier %s" % (pid, tier),
            "trusted_base": ["clang-14 front end and CFG builder", "vfacts exporter", "rule tables in /verif/vstat/rules",
                             "libc/libyaml behave as documented"],
            "translation_units": counts.get("_units", None),
            "known_findings": [fd.key for fd in known_hit],
            "stale_known_findings": stale,
            "exhaustive": True,
            "controls": controls if controls is not None else "not run in the quick tier",
        },
        "assumptions": ["asserts enabled (-UNDEBUG) as in the tested build",
                        "library lists are acyclic", "clang's CFG is faithful to C semantics"] + (extra_assumptions or []),
        "wall_s": round(time.time() - t0, 2),
        "violations": len(violations),
    }
    if write_evidence:
        os.makedirs(os.path.join(VERIF, "evidence"), exist_ok=True)
        tmp = os.path.join(VERIF, "evidence", "%s.json.%d" % (pid, os.getpid()))
        with open(tmp, "w") as f:
            json.dump(ev, f, indent=1)
        os.replace(tmp, os.path.join(VERIF, "evidence", "%s.json" % pid))
    print("%s: %d obligations, %d discharged, %d known findings, %d unclassified, %d new violations (%.1fs)"
          % (pid, obligations, discharged, len(known_hit), unclassified, len(violations), time.time() - t0))
    return 1 if violations else 0

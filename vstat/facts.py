"""Build model + fact extraction for libvna.

Translation units = libvna_la_SOURCES parsed from /repo/src/Makefile.am,
flags read from the generated /repo/src/Makefile.  Each unit is parsed by the
vfacts clang plugin; the JSON is cached under /verif/.cache/facts keyed by a
hash of (source, all repo headers, flags, plugin), written atomically.
"""
import hashlib
import json
import os
import re
import subprocess
import sys
from concurrent.futures import ThreadPoolExecutor

VERIF = os.path.dirname(os.path.dirname(os.path.abspath(__file__)))
REPO = os.environ.get("VERIF_REPO", "/repo")
SRC = os.path.join(REPO, "src")
PLUGIN = os.path.join(VERIF, "build", "vfacts.so")
CACHE = os.path.join(VERIF, ".cache", "facts")


class AnalysisBroken(Exception):
    """The analysis cannot run or an anchor vanished: exit status 2."""


def _read(path):
    with open(path, "rb") as f:
        return f.read()


def _make_var(text, name):
    """Value of an (automake) variable with backslash continuations."""
    m = re.search(r"^%s\s*=\s*((?:.*\\\n)*.*)$" % re.escape(name), text, re.M)
    if not m:
        return None
    return m.group(1).replace("\\\n", " ").strip()


def library_sources(src=None):
    src = src or SRC
    am = os.path.join(src, "Makefile.am")
    if not os.path.exists(am):
        raise AnalysisBroken("missing %s" % am)
    text = _read(am).decode()
    val = _make_var(text, "libvna_la_SOURCES")
    if val is None:
        raise AnalysisBroken("libvna_la_SOURCES not found in Makefile.am")
    files = [w for w in val.split() if w.endswith(".c")]
    # every src/vna*.c that is not an example/test/tool must be listed
    listed = set(files)
    for fn in sorted(os.listdir(src)):
        if re.match(r"vna(cal|data|conv|common|err|property)_[A-Za-z0-9_]*\.c$", fn) or fn in ("vnaproperty.c",):
            if fn not in listed:
                raise AnalysisBroken("%s present in src/ but not in libvna_la_SOURCES" % fn)
    for fn in files:
        if not os.path.exists(os.path.join(src, fn)):
            raise AnalysisBroken("listed source %s is missing" % fn)
    return files


def build_flags(src=None):
    src = src or SRC
    flags = ["-DHAVE_CONFIG_H", "-I.", "-I.."]
    mk = os.path.join(src, "Makefile")
    if os.path.exists(mk):
        text = _read(mk).decode(errors="replace")
        defs = _make_var(text, "DEFS")
        cpp = _make_var(text, "CPPFLAGS")
        flags = []
        if defs:
            flags += defs.split()
        flags += ["-I.", "-I.."]
        if cpp:
            flags += [w for w in cpp.split() if w.startswith(("-D", "-I", "-U"))]
    if not os.path.exists(os.path.join(os.path.dirname(src), "config.h")):
        raise AnalysisBroken("config.h missing: /repo has not been configured")
    return flags + ["-std=gnu17", "-UNDEBUG", "-w"]


def _headers_hash(src):
    h = hashlib.sha256()
    names = sorted(fn for fn in os.listdir(src) if fn.endswith(".h"))
    for fn in names:
        h.update(fn.encode())
        h.update(_read(os.path.join(src, fn)))
    h.update(_read(os.path.join(os.path.dirname(src), "config.h")))
    return h.hexdigest()


def cache_dir(src):
    """facts of /repo/src are cached under /verif/.cache; facts of a scratch copy (self-test runs with --src, positive
    controls) are cached next to the copy, so that they disappear with it instead of piling up (they did: 34 GB)"""
    if os.path.abspath(src) == os.path.abspath(SRC):
        return CACHE
    d = os.path.join(os.path.dirname(os.path.abspath(src)), ".vfacts")
    try:
        os.makedirs(d, exist_ok=True)
        return d
    except OSError:
        return CACHE            # read-only location: fall back to the shared cache


def _extract_one(src, fn, flags, hh, plugin_hash, headers=False):
    key = hashlib.sha256()
    key.update(_read(os.path.join(src, fn)))
    key.update(hh.encode())
    key.update(" ".join(flags).encode())
    key.update(plugin_hash.encode())
    key.update(b"H" if headers else b"")
    key.update(src.encode())
    out = os.path.join(cache_dir(src), "%s.%s.json" % (fn.replace("/", "_"), key.hexdigest()[:20]))
    if not os.path.exists(out):
        tmp = out + ".%d.tmp" % os.getpid()
        cmd = ["clang", "-fsyntax-only"] + flags + [
            "-fplugin=" + PLUGIN, "-Xclang", "-plugin", "-Xclang", "vfacts",
            "-Xclang", "-plugin-arg-vfacts", "-Xclang", "out=" + tmp,
            "-Xclang", "-plugin-arg-vfacts", "-Xclang", "root=" + os.path.dirname(src),
        ]
        if headers:
            cmd += ["-Xclang", "-plugin-arg-vfacts", "-Xclang", "headers"]
        cmd.append(fn)
        r = subprocess.run(cmd, cwd=src, capture_output=True, text=True)
        if r.returncode != 0 or not os.path.exists(tmp):
            try:
                os.unlink(tmp)
            except OSError:
                pass
            raise AnalysisBroken("cannot parse %s: %s" % (fn, r.stderr.strip()[:2000]))
        os.replace(tmp, out)
    with open(out) as f:
        return json.load(f)


HOST_NAME = "_verif_host_headers.c"
PUBLIC_HEADERS = ["archdep.h", "vnadata.h", "vnacal.h", "vnaconv.h", "vnaproperty.h", "vnaerr.h", "vnacommon.h",
                  "vnacommon_internal.h", "vnacal_internal.h", "vnacal_new_internal.h"]


def extract_all(src=None, only=None):
    """Return {filename: facts-dict} for every library TU (+ the header host)."""
    src = src or SRC
    if not os.path.exists(PLUGIN):
        raise AnalysisBroken("plugin not built: run setup (make -C /verif)")
    os.makedirs(cache_dir(src), exist_ok=True)
    files = library_sources(src)
    flags = build_flags(src)
    hh = _headers_hash(src)
    ph = hashlib.sha256(_read(PLUGIN)).hexdigest()
    if only is not None:
        files = [f for f in files if f in only]
    res = {}
    with ThreadPoolExecutor(max_workers=min(16, os.cpu_count() or 4)) as ex:
        futs = {fn: ex.submit(_extract_one, src, fn, flags, hh, ph) for fn in files}
        for fn, fu in futs.items():
            res[fn] = fu.result()
    return res


def extract_host_headers(src=None):
    """Inline functions of the public headers, exported from one host TU."""
    src = src or SRC
    flags = build_flags(src)
    hh = _headers_hash(src)
    ph = hashlib.sha256(_read(PLUGIN)).hexdigest()
    hdrs = [h for h in PUBLIC_HEADERS if os.path.exists(os.path.join(src, h))]
    if "vnadata.h" not in hdrs:
        raise AnalysisBroken("vnadata.h missing")
    cdir = cache_dir(src)
    os.makedirs(cdir, exist_ok=True)
    host = os.path.join(cdir, HOST_NAME)
    text = "".join('#include "%s"\n' % h for h in hdrs)
    if not os.path.exists(host) or _read(host).decode() != text:
        tmp = host + ".%d" % os.getpid()
        with open(tmp, "w") as f:
            f.write(text)
        os.replace(tmp, host)
    # compile from src/ so that -I. works; give absolute path to host file
    key = hashlib.sha256((text + hh + ph + " ".join(flags) + src).encode()).hexdigest()[:20]
    out = os.path.join(cdir, "host.%s.json" % key)
    if not os.path.exists(out):
        tmp = out + ".%d.tmp" % os.getpid()
        cmd = ["clang", "-fsyntax-only"] + flags + [
            "-fplugin=" + PLUGIN, "-Xclang", "-plugin", "-Xclang", "vfacts",
            "-Xclang", "-plugin-arg-vfacts", "-Xclang", "out=" + tmp,
            "-Xclang", "-plugin-arg-vfacts", "-Xclang", "root=" + os.path.dirname(src),
            "-Xclang", "-plugin-arg-vfacts", "-Xclang", "headers", host]
        r = subprocess.run(cmd, cwd=src, capture_output=True, text=True)
        if r.returncode != 0 or not os.path.exists(tmp):
            raise AnalysisBroken("cannot parse public headers: %s" % r.stderr.strip()[:2000])
        os.replace(tmp, out)
    with open(out) as f:
        return json.load(f)


def prune_cache(keep_days=2):
    """Remove stale cache entries (best effort)."""
    import time
    try:
        now = time.time()
        for fn in os.listdir(CACHE):
            p = os.path.join(CACHE, fn)
            if now - os.path.getmtime(p) > keep_days * 86400:
                os.unlink(p)
    except OSError:
        pass


if __name__ == "__main__":
    import time
    t = time.time()
    r = extract_all()
    h = extract_host_headers()
    print(len(r), "units", sum(len(v["functions"]) for v in r.values()), "functions",
          len(h["functions"]), "header inlines", "%.1fs" % (time.time() - t))

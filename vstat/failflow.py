"""Failure-discipline dataflow: which value does each return deliver, after how many error reports.

State = (ints, calls, nrep, cats, failed, flags)
   ints   : (decl, const) for interesting integer/pointer locals (pointer NULL = 0)
   calls  : (decl, call node id) variable holds the still untested result of that call
   nrep   : number of non-warning error reports on this path, saturating at 2
   cats   : categories reported
   failed : callees whose failure edge was taken
   flags  : {'silent'} handle-check edge taken, {'errno:<v>'} explicit errno store, ...
"""
from .flow import Tracker, Engine, TooManyStates
from .util import is_null

REPORTERS = {
    "_vnacal_error": 1, "_vnadata_error": 1, "_vnaproperty_yaml_error": 1,
    "_vnaerr_error": 2, "_vnaerr_verror": 2,
}
# reporters with a fixed category
FIXED_REPORTERS = {"_vnadata_bounds_error": "VNAERR_USAGE"}

CHANNEL = {"_vnacal_error": "vnacal", "_vnadata_error": "vnadata", "_vnadata_bounds_error": "vnadata",
           "_vnaproperty_yaml_error": "yaml"}
HANDLE_TYPES = ("vnacal_t *", "const vnacal_t *", "vnacal_new_t *", "const vnacal_new_t *", "vnadata_t *",
                "const vnadata_t *", "vnadata_internal_t *", "const vnadata_internal_t *")
EXT_SYS = {"malloc", "calloc", "realloc", "strdup", "strndup", "fopen", "fdopen", "fclose", "fflush", "vasprintf",
           "asprintf", "fprintf", "fputs", "fputc"}

EXT_FAIL_NULL = {"malloc", "calloc", "realloc", "strdup", "strndup", "fopen", "fdopen", "fgets"}


def _fs_set(fs, k, v):
    d = dict(fs)
    d[k] = v
    return frozenset(d.items())


def _fs_del(fs, k):
    if not fs:
        return fs
    d = dict(fs)
    if k in d:
        d.pop(k)
        return frozenset(d.items())
    return fs


class FailSummary:
    def __init__(self):
        self.channels = set()         # channels the function may report on when failing
        self.sys_silent = False       # a failure path caused by a system-call failure returns without any report
        self.fail_reports = set()     # subset of {0,1,2}: reports on non-silent failure-return paths
        self.silent_fail = False      # has handle-check style silent failure paths
        self.ret_consts = set()       # integer constants returned
        self.can_fail = False
        self.returns = []             # raw records


def failure_value_kind(fn):
    """how this function signals failure, from its return type"""
    t = fn.cret
    r = fn.ret
    if r == "void":
        return None
    if t.endswith("*"):
        return "null"
    if r in ("vnacal_type_t",):
        return "enum:VNACAL_NOTYPE"
    if r in ("vnadata_parameter_type_t",):
        return "enum:VPT_UNDEF"
    if t in ("double", "_Complex double"):
        return "huge"
    if t in ("int", "long", "ssize_t"):
        return "minus1"
    return None


class FailTracker(Tracker):
    def __init__(self, P, fn, summaries):
        self.P = P
        self.fn = fn
        self.summ = summaries
        self.kind = failure_value_kind(fn)
        self.records = []      # (valueclass, nrep, cats, failed, flags, node, trace)
        self.site_marks = {}   # optional: cond node id -> mark name (set by rules)
        self.interesting = set()
        self.ptrs = set()
        params = {p["decl"]: p for p in fn.params}
        self.param_ptrs = {d for d, p in params.items() if p.get("ct", p["t"]).endswith("*")}
        # interesting = locals that are returned, or assigned from calls and then tested
        decl_types = {}
        addr = set()
        for n in fn.walk():
            if n.k == "VarDecl":
                decl_types[n.get("decl")] = n.ctype
            if n.k == "UnaryOperator" and n.op == "&" and n.kids[0].strip().k == "DeclRefExpr":
                addr.add(n.kids[0].strip().refdecl)
        for n in fn.walk():
            if n.k == "ReturnStmt" and n.kids:
                for m in n.kids[0].walk():
                    if m.k == "DeclRefExpr" and m.refdecl in decl_types:
                        self.interesting.add(m.refdecl)
            if n.k == "BinaryOperator" and n.op == "=":
                l = n.kids[0].strip()
                if l.k == "DeclRefExpr" and l.refdecl in decl_types and n.kids[1].strip().k == "CallExpr":
                    self.interesting.add(l.refdecl)
            if n.k == "VarDecl" and n.kids and n.kids[0].strip().k == "CallExpr":
                self.interesting.add(n.get("decl"))
        # flag-like ints
        from .canon import Canon
        cn = Canon(fn)
        for d, t in decl_types.items():
            if t in ("int", "_Bool", "bool"):
                ds = cn.defs.get(d, [])
                if ds and all(k in ("init", "assign") and r is not None and r.strip().cv is not None for k, r in ds):
                    self.interesting.add(d)
        self.interesting -= addr
        self.ptrs = {d for d in self.interesting if decl_types.get(d, "").endswith("*")}
        self.live = {}
        if fn.cfg is not None:
            own = {}
            for b in fn.cfg.blocks.values():
                own[b.id] = {el.refdecl for el in b.elems if el.k == "DeclRefExpr"}
            for b in fn.cfg.blocks.values():
                s = set(own[b.id])
                for x in fn.cfg.reachable_from(b.id):
                    s |= own[x]
                self.live[b.id] = s

    def initial(self, fn):
        return (frozenset(), frozenset(), 0, frozenset(), frozenset(), frozenset())

    def enter_block(self, st, bid):
        ints, calls, nrep, cats, failed, flags = st
        lv = self.live.get(bid)
        if lv is not None:
            if ints:
                ints = frozenset((d, v) for d, v in ints if d in lv)
            if calls:
                calls = frozenset((d, v) for d, v in calls if d in lv)
        return (ints, calls, nrep, cats, failed, flags)

    # ---------------------------------------------------------------
    def _const_of(self, e):
        e = e.strip()
        if is_null(e):
            return 0
        return e.cv

    def _assign(self, st, d, rhs):
        ints, calls, nrep, cats, failed, flags = st
        if d not in self.interesting:
            return st
        r = rhs.strip() if rhs is not None else None
        while r is not None and r.k == "BinaryOperator" and r.op == "=":
            r = r.kids[1].strip()
        c = self._const_of(r) if r is not None else None
        if c is not None:
            return (_fs_set(ints, d, c), _fs_del(calls, d), nrep, cats, failed, flags)
        if r is not None and r.k == "CallExpr":
            return (_fs_del(ints, d), _fs_set(calls, d, r.id), nrep, cats, failed, flags)
        if r is not None and r.k == "DeclRefExpr" and r.refdecl in self.interesting:
            v = dict(ints).get(r.refdecl)
            cl = dict(calls).get(r.refdecl)
            ints = _fs_set(ints, d, v) if v is not None else _fs_del(ints, d)
            calls = _fs_set(calls, d, cl) if cl is not None else _fs_del(calls, d)
            return (ints, calls, nrep, cats, failed, flags)
        return (_fs_del(ints, d), _fs_del(calls, d), nrep, cats, failed, flags)

    def step(self, st, n, ctx):
        k = n.k
        if k == "VarDecl":
            if n.kids:
                return [self._assign(st, n.get("decl"), n.kids[0])]
            return [st]
        if k == "BinaryOperator" and n.op == "=":
            l = n.kids[0].strip()
            if l.k == "DeclRefExpr":
                return [self._assign(st, l.refdecl, n.kids[1])]
            # errno = E...
            if l.k == "UnaryOperator" and l.op == "*" and l.kids[0].strip().k == "CallExpr" and \
                    l.kids[0].strip().callee == "__errno_location":
                ints, calls, nrep, cats, failed, flags = st
                v = n.kids[1].strip().cv
                flags = frozenset(f for f in flags if not str(f).startswith("errno:")) | {"errno:%s" % v}
                return [(ints, calls, nrep, cats, failed, flags)]
            return [st]
        if k in ("CompoundAssignOperator",) or (k == "UnaryOperator" and n.op in ("++", "--")):
            l = n.kids[0].strip()
            if l.k == "DeclRefExpr" and l.refdecl in self.interesting:
                ints, calls, nrep, cats, failed, flags = st
                return [(_fs_del(ints, l.refdecl), _fs_del(calls, l.refdecl), nrep, cats, failed, flags)]
            return [st]
        if k == "CallExpr":
            nm = n.callee
            cat = None
            if nm in REPORTERS:
                a = n.args()
                if len(a) > REPORTERS[nm]:
                    cat = a[REPORTERS[nm]].strip().refname or "?"
            elif nm in FIXED_REPORTERS:
                cat = FIXED_REPORTERS[nm]
            elif n.get("callee_indirect") and "error_fn" in n.kids[0].text():
                cat = "?"
            if cat is not None:
                ints, calls, nrep, cats, failed, flags = st
                if cat != "VNAERR_WARNING":
                    chan = CHANNEL.get(nm, "fn")
                    if any(c.startswith(chan + ":") for c in cats):
                        nrep = 2
                    else:
                        nrep = max(nrep, 1)
                    cats = cats | {"%s:%s" % (chan, cat)}
                return [(ints, calls, nrep, cats, failed, flags)]
            return [st]
        if k == "ReturnStmt":
            self._ret(st, n, ctx)
            return [st]
        return [st]

    # ---------------------------------------------------------------
    def _ret(self, st, n, ctx):
        ints, calls, nrep, cats, failed, flags = st
        val = ("void",)
        if n.kids and n.kids[0] is not None:
            e = n.kids[0].strip()
            val = self._classify_value(e, dict(ints), dict(calls))
        self.records.append((val, nrep, cats, failed, flags, n, ctx.trace()))

    def fallthrough(self, st, ctx):
        ints, calls, nrep, cats, failed, flags = st
        self.records.append((("void",), nrep, cats, failed, flags, None, ctx.trace()))

    def _classify_value(self, e, ints, calls):
        kind = self.kind
        if "HUGE_VAL" in e.macros or any("HUGE_VAL" in m.macros for m in e.walk()):
            return ("fail",)
        c = self._const_of(e)
        if c is None and e.k == "DeclRefExpr" and e.refdecl in ints:
            c = ints[e.refdecl]
        if c is not None:
            if kind == "null":
                return ("fail",) if c == 0 else ("ok", c)
            if kind == "minus1":
                return ("fail",) if c == -1 else ("ok", c)
            if kind and kind.startswith("enum:"):
                ev = self.P.enum_consts.get(kind[5:])
                return ("fail",) if ev is not None and c == ev[1] else ("ok", c)
            if kind == "huge":
                # functions declared double/complex that nevertheless use the 0 / -1 convention
                return ("fail",) if c == -1 else ("ok", c)
            return ("ok", c)
        if e.k == "CallExpr":
            return ("tail", e.callee or "?", e.id)
        if e.k == "DeclRefExpr" and e.refdecl in calls:
            call = self.fn.by_id.get(calls[e.refdecl])
            return ("tail", call.callee if call is not None else "?", calls[e.refdecl])
        if e.k == "ConditionalOperator":
            a = self._classify_value(e.kids[1].strip(), ints, calls)
            b = self._classify_value(e.kids[2].strip(), ints, calls)
            if a == b:
                return a
            return ("unknown",)
        if kind == "null":
            # a non-constant pointer expression: address of / pointer variable not known to be NULL
            return ("ok", "ptr")
        return ("unknown",)

    # ---------------------------------------------------------------
    def _subject(self, e, calls):
        """(kind, id): ('call', node) if e denotes a call result, ('var', decl) for an interesting variable"""
        e = e.strip()
        if e.k == "CallExpr":
            return ("call", e, None)
        if e.k == "BinaryOperator" and e.op == "=":
            l = e.kids[0].strip()
            r = e.kids[1].strip()
            if r.k == "CallExpr":
                return ("call", r, l.refdecl if l.k == "DeclRefExpr" else None)
            if l.k == "DeclRefExpr":
                return self._subject(l, calls)
        if e.k == "DeclRefExpr":
            d = e.refdecl
            if d in calls:
                return ("call", self.fn.by_id.get(calls[d]), d)
            if d in self.interesting:
                return ("var", None, d)
            if d in self.param_ptrs or e.type in HANDLE_TYPES:
                return ("param", None, d)
        if e.k == "MemberExpr" and (e.member or "").endswith("_magic"):
            return ("magic", None, None)
        return (None, None, None)

    def branch(self, st, cond, truth, ctx):
        ints, calls, nrep, cats, failed, flags = st
        if self.site_marks:
            mk = self.site_marks.get(cond.strip().id)
            if mk is not None:
                flags = flags | {"%s:%s" % (mk, "T" if truth else "F")}
                st = (ints, calls, nrep, cats, failed, flags)
        c = cond.strip()
        while c.k == "UnaryOperator" and c.op == "!":
            truth = not truth
            c = c.kids[0].strip()
        cd = dict(calls)
        op = None
        rhs_c = None
        subj = c
        if c.k == "BinaryOperator" and c.op in ("==", "!=", "<", ">", "<=", ">="):
            a, b = c.kids[0], c.kids[1]
            cb = self._const_of(b)
            ca = self._const_of(a)
            if cb is not None:
                subj, op, rhs_c = a, c.op, cb
            elif ca is not None:
                subj, rhs_c = b, ca
                op = {"<": ">", ">": "<", "<=": ">=", ">=": "<="}.get(c.op, c.op)
            else:
                return st
        else:
            op, rhs_c = "!=", 0
        if not truth:
            op = {"==": "!=", "!=": "==", "<": ">=", ">=": "<", ">": "<=", "<=": ">"}[op]
        kind, call, d = self._subject(subj, cd)
        if kind is None:
            ss = subj.strip()
            if "error_fn" in ss.text() and ss.k in ("DeclRefExpr", "MemberExpr") and op == "==" and rhs_c == 0:
                return (ints, calls, nrep, cats, failed, flags | {"noerrfn"})
            return st

        def sat(v):
            return {"==": v == rhs_c, "!=": v != rhs_c, "<": v < rhs_c, ">=": v >= rhs_c, ">": v > rhs_c, "<=": v <= rhs_c}[op]

        if kind == "magic":
            if op == "!=":
                flags = flags | {"silent"}
            return (ints, calls, nrep, cats, failed, flags)
        if kind == "param":
            if op == "==" and rhs_c == 0:
                flags = flags | {"silent"}
            return (ints, calls, nrep, cats, failed, flags)
        if kind == "var":
            v = dict(ints).get(d)
            if v is not None:
                return st if sat(v) else None
            if op == "==":
                return (_fs_set(ints, d, rhs_c), calls, nrep, cats, failed, flags)
            return st
        # call result
        if call is None:
            return st
        nm = call.callee
        g = self.P.resolve_call(call, self.fn) if nm else None
        gs = self.summ.get(g.key()) if g is not None else None
        gk = failure_value_kind(g) if g is not None else None
        failv = None
        if g is not None:
            failv = {"null": 0, "minus1": -1, "huge": -1}.get(gk)
        elif nm in EXT_FAIL_NULL:
            failv = 0
        elif nm is not None and call.ctype in ("int", "long", "ssize_t"):
            failv = -1 if (rhs_c in (-1,) or (op in ("<",) and rhs_c == 0)) else None
            if nm in ("fclose", "fflush", "fputs", "fputc", "putc", "fprintf") and rhs_c in (-1, 0):
                failv = -1
        is_fail_edge = False
        is_ok_edge = False
        if failv is not None:
            if sat(failv):
                # failure value satisfies this edge; is it the only known value that does?
                others = [v for v in (gs.ret_consts if gs is not None else ()) if v != failv and sat(v)]
                if gk == "null" or nm in EXT_FAIL_NULL:
                    is_fail_edge = (op == "==" and rhs_c == 0)
                else:
                    is_fail_edge = not others and not (gs is None and op in ("!=", ">=", "<=", ">"))
                    if gs is None and op in ("==", "<"):
                        is_fail_edge = True
            else:
                is_ok_edge = True
        if is_fail_edge:
            failed = failed | {nm or "?"}
            if g is None and nm in EXT_SYS:
                flags = flags | {"sysfail"}
            if gs is not None:
                fr = gs.fail_reports
                if 1 in fr or 2 in fr:
                    # the callee reports on (some of) its failure paths: count one report per channel
                    for ch in (gs.channels or {"fn"}):
                        if any(c.startswith(ch + ":") for c in cats):
                            nrep = 2
                        else:
                            nrep = max(nrep, 1)
                        cats = cats | {ch + ":callee:" + (nm or "?")}
                    if 2 in fr and fr == {2}:
                        nrep = 2
                    if 0 in fr:
                        flags = flags | {"mixedcallee:" + (nm or "?")}
                        if gs.sys_silent:
                            # the callee also has silent system-failure paths: follow both possibilities
                            alt_ints, alt_calls = ints, calls
                            if d is not None and d in self.interesting:
                                alt_ints = _fs_set(ints, d, failv)
                                alt_calls = _fs_del(calls, d)
                                ints, calls = alt_ints, alt_calls
                            alt = (alt_ints, alt_calls, st[2], st[3], failed, st[5] | {"sysfail"})
                            return [(ints, calls, nrep, cats, failed, flags), alt]
                elif gs.sys_silent:
                    flags = flags | {"sysfail"}
            if d is not None and d in self.interesting:
                ints = _fs_set(ints, d, failv)
                calls = _fs_del(calls, d)
        elif is_ok_edge and d is not None and d in self.interesting:
            calls = _fs_del(calls, d)
            if gs is not None:
                oks = [v for v in gs.ret_consts if v != failv and sat(v)]
                if len(oks) == 1 and gk == "minus1":
                    ints = _fs_set(ints, d, oks[0])
        return (ints, calls, nrep, cats, failed, flags)

    def switch(self, st, cond, case_vals, is_default, all_vals, ctx):
        return st


def compute_fail_summaries(P, max_states=200000):
    if getattr(P, "_fail_summaries", None) is not None:
        return P._fail_summaries
    from .resources import topo_functions
    summ = {}
    P._fail_trackers = {}
    order = topo_functions(P)
    for rnd in range(2):
        for f in order:
            tr = FailTracker(P, f, summ)
            try:
                Engine(f, tr, max_states).run()
            except TooManyStates:
                continue
            s = FailSummary()
            for (val, nrep, cats, failed, flags, node, trace) in tr.records:
                if val[0] == "fail":
                    s.can_fail = True
                    if "silent" in flags and nrep == 0:
                        s.silent_fail = True
                    else:
                        s.fail_reports.add(nrep)
                    if nrep == 0 and "sysfail" in flags and "noerrfn" not in flags:
                        s.sys_silent = True
                    for c in cats:
                        s.channels.add(c.split(":")[0])
                    k = failure_value_kind(f)
                    if k == "minus1":
                        s.ret_consts.add(-1)
                    elif k == "null":
                        s.ret_consts.add(0)
                elif val[0] == "ok" and isinstance(val[1], int):
                    s.ret_consts.add(val[1])
                elif val[0] == "tail":
                    g = P.functions.get(val[1])
                    gs = summ.get(g.key()) if g is not None else None
                    if gs is not None:
                        if gs.can_fail:
                            s.can_fail = True
                            for r in gs.fail_reports:
                                s.fail_reports.add(min(2, r + nrep))
                            s.channels |= gs.channels
                            if gs.sys_silent and nrep == 0 and "noerrfn" not in flags:
                                s.sys_silent = True
                            if gs.silent_fail:
                                s.silent_fail = True
                        s.ret_consts |= gs.ret_consts
            s.returns = tr.records
            summ[f.key()] = s
            P._fail_trackers[f.key()] = tr
    P._fail_summaries = summ
    return summ

"""Path-sensitive forward analysis over clang's CFG by state splitting.

States are small hashable values defined by a Tracker.  The engine keeps, for
every basic block, the *set* of distinct states that can reach its entry
(property simulation in the style of ESP): two paths are merged only when
their abstract states are equal, so correlations such as

    if ((p = malloc(n)) == NULL) goto out;   ...   out: free(p);

are followed exactly, while the number of states stays small because only the
tracked facts are part of a state.  Loops are handled by the fixpoint (state
sets are finite).  For every (block, state) one predecessor is remembered so a
violating path can be printed.
"""
from collections import deque


class TooManyStates(Exception):
    pass


class Tracker:
    """Interface; subclasses override."""

    def initial(self, fn):
        return ()

    def step(self, state, node, ctx):
        """process one CFG element; return list of successor states"""
        return [state]

    def branch(self, state, cond, truth, ctx):
        """refine on a two-way branch; return state or None if infeasible"""
        return state

    def switch(self, state, cond, case_vals, is_default, all_case_vals, ctx):
        """refine on a switch edge; case_vals = values of the target's case labels"""
        return state

    def fallthrough(self, state, ctx):
        """function end reached without return statement"""
        return None

    def enter_block(self, state, block_id):
        """drop facts that are dead from this block on (optional)"""
        return state


class Ctx:
    """what the tracker may know about where it is"""
    __slots__ = ("fn", "block", "engine", "key")

    def __init__(self, fn, engine):
        self.fn = fn
        self.engine = engine
        self.block = None
        self.key = None

    def trace(self):
        return self.engine.trace_to(self.key)


class Engine:
    def __init__(self, fn, tracker, max_states=4000):
        self.fn = fn
        self.cfg = fn.cfg
        self.tracker = tracker
        self.max_states = max_states
        self.parent = {}
        self.seen = {}
        self.ctx = Ctx(fn, self)
        self.nstates = 0

    def trace_to(self, key):
        """list of human readable steps (block terminators) leading to key=(block,state)"""
        path = []
        k = key
        guard = 0
        while k is not None and guard < 10000:
            path.append(k)
            k = self.parent.get(k)
            guard += 1
        path.reverse()
        out = []
        for i in range(len(path) - 1):
            b = self.cfg.blocks[path[i][0]]
            nb = path[i + 1][0]
            if b.cond is not None and len(b.succs) == 2:
                truth = "true" if b.succs[0] == nb and b.succs[1] != nb else ("false" if b.succs[1] == nb else "?")
                out.append("line %d: (%s) is %s" % (b.cond.line, b.cond.text()[:90], truth))
            elif b.termk == "SwitchStmt":
                lab = self.cfg.blocks[nb].label
                out.append("line %d: switch -> %s" % (b.term.line if b.term else 0,
                                                      ("case %s" % lab.get("val") if lab is not None and lab.k == "CaseStmt" else "default")))
            elif b.termk == "GotoStmt" and b.term is not None:
                out.append("line %d: goto %s" % (b.term.line, b.term.get("label")))
        return out

    def run(self):
        cfg = self.cfg
        tr = self.tracker
        ctx = self.ctx
        init = tr.initial(self.fn)
        start = (cfg.entry, init)
        work = deque([start])
        self.parent[start] = None
        seen = {start}
        # precompute switch case values per switch-terminated block
        while work:
            key = work.popleft()
            bid, st = key
            b = cfg.blocks[bid]
            ctx.block = b
            ctx.key = key
            states = [st]
            for el in b.elems:
                nxt = []
                for s in states:
                    r = tr.step(s, el, ctx)
                    if r:
                        nxt.extend(r)
                # dedupe
                if len(nxt) > 1:
                    nxt = list(dict.fromkeys(nxt))
                states = nxt
                if not states:
                    break
            if not states:
                continue
            if b.noreturn:
                continue
            succs = b.succs
            if bid == cfg.exit:
                continue
            for s in states:
                if len(succs) == 2 and b.cond is not None and b.termk != "SwitchStmt":
                    outs = [(succs[0], tr.branch(s, b.cond, True, ctx)), (succs[1], tr.branch(s, b.cond, False, ctx))]
                elif b.termk == "SwitchStmt":
                    outs = []
                    allv = []
                    for sb in succs:
                        if sb is None:
                            continue
                        lab = cfg.blocks[sb].label
                        if lab is not None and lab.k == "CaseStmt":
                            allv.append(lab.get("val"))
                    for sb in succs:
                        if sb is None:
                            continue
                        lab = cfg.blocks[sb].label
                        if lab is not None and lab.k == "CaseStmt":
                            outs.append((sb, tr.switch(s, b.cond, [lab.get("val")], False, allv, ctx)))
                        else:
                            outs.append((sb, tr.switch(s, b.cond, [], True, allv, ctx)))
                else:
                    outs = [(sb, s) for sb in succs]
                flat = []
                for sb, ns in outs:
                    if isinstance(ns, list):
                        flat.extend((sb, x) for x in ns)
                    else:
                        flat.append((sb, ns))
                for sb, ns in flat:
                    if sb is None or ns is None:
                        continue
                    if sb == cfg.exit:
                        # reached the exit: was there a return statement in this block?
                        if not any(e.k == "ReturnStmt" for e in b.elems):
                            tr.fallthrough(ns, ctx)
                        continue
                    ns = tr.enter_block(ns, sb)
                    nk = (sb, ns)
                    if nk not in seen:
                        seen.add(nk)
                        self.parent[nk] = key
                        work.append(nk)
                        if len(seen) > self.max_states:
                            raise TooManyStates("%s: more than %d states" % (self.fn.name, self.max_states))
        self.nstates = len(seen)
        return self

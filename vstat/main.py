#!/usr/bin/env python3
"""Driver: /verif/check <Cxx> [--tier quick|thorough] [--replay <file>] [--src <dir>]"""
import argparse
import importlib
import json
import os
import sys
import time
import traceback

sys.path.insert(0, os.path.dirname(os.path.dirname(os.path.abspath(__file__))))

from vstat import facts as F  # noqa: E402
from vstat.core import decide  # noqa: E402
from vstat.registry import PROPERTY_RULES  # noqa: E402


def main():
    ap = argparse.ArgumentParser()
    ap.add_argument("prop")
    ap.add_argument("--tier", default=os.environ.get("VERIF_TIER", "quick"))
    ap.add_argument("--replay")
    ap.add_argument("--src", help="analyse this source directory instead of /repo/src (self-test only)")
    ap.add_argument("--no-evidence", action="store_true")
    a = ap.parse_args()
    t0 = time.time()
    pid = a.prop
    tier = a.tier if a.tier in ("quick", "thorough") else "quick"
    if pid not in PROPERTY_RULES:
        print("no check registered for %s" % pid)
        return 2
    try:
        from vstat.model import Program
        P = Program(a.src)
        results = []
        for modname in PROPERTY_RULES[pid]:
            mod = importlib.import_module("vstat.rules." + modname)
            r = mod.run(P, tier)
            if isinstance(r, (list, tuple)):
                results.extend(r)
            else:
                results.append(r)
        for r in results:
            r.counts.setdefault("_units", len(P.units))
        if a.replay:
            with open(a.replay) as f:
                want = json.load(f)
            hit = [fd for r in results for fd in r.findings if fd.key == want.get("key")]
            if hit:
                fd = hit[0]
                print("%s:%d: [%s] %s: %s" % (fd.file, fd.line, fd.rule, fd.func, fd.msg))
                for t in fd.trace:
                    print("      " + str(t))
                print("VIOLATION property=%s replay=%s" % (pid, a.replay))
                return 1
            print("instance %s no longer violated on the current tree" % want.get("key"))
            return 0
        if a.src:
            # self-test mode: report findings, never touch evidence
            from vstat.core import load_known
            known = {e["key"] for e in load_known().get("findings", []) if pid in e.get("properties", [])}
            n = 0
            seen = set()
            for r in results:
                for fd in r.findings:
                    from vstat.core import caller_aliases
                    if pid in fd.props and fd.key not in known and any(k in known for k in caller_aliases(P, fd)):
                        continue
                    if pid in fd.props and fd.key not in known and fd.key not in seen:
                        seen.add(fd.key)
                        print("FINDING %s %s:%d %s" % (fd.key, fd.file, fd.line, fd.msg))
                        n += 1
            return 1 if n else 0
        controls = None
        if tier == "thorough":
            from vstat.controls import run_controls
            baseline = {fd.key for r in results for fd in r.findings}
            controls = run_controls(pid, baseline, set(PROPERTY_RULES[pid]))
            for c in controls:
                print("CONTROL %s: %s%s" % (c["control"], c["status"],
                                            (" by " + ", ".join(c["by"]) if isinstance(c.get("by"), list) else (" " + str(c.get("by") or c.get("why") or "")))))
        rc = decide(pid, results, tier, t0, controls=controls, P=P, write_evidence=not a.no_evidence)
        if rc == 0 and controls:
            applied = [c for c in controls if c["status"] != "skipped"]
            if applied and all(c["status"] == "missed" for c in applied):
                print("ANALYSIS-BROKEN property=%s: none of the %d positive controls is detected any more" % (pid, len(applied)))
                return 2
        return rc
    except F.AnalysisBroken as e:
        print("ANALYSIS-BROKEN property=%s: %s" % (pid, e))
        return 2
    except Exception:
        traceback.print_exc()
        print("ANALYSIS-BROKEN property=%s: internal error" % pid)
        return 2


if __name__ == "__main__":
    sys.exit(main())

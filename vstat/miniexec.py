"""A tiny concrete interpreter over the exported AST, for *integer bookkeeping only*.

It executes the control skeleton of a C function fragment - declarations and
assignments of integer variables, if/else, switch (with fall-through), counted
for loops, break/continue/return - with a given environment of integer values
for the configuration variables (ports, rows, parameter type, format, ...).
Every call expression is passed to a callback (used to count emitted fields,
collect term indices, ...).  Conditions that cannot be evaluated fork the
execution; the caller decides what to do when the forks disagree.  No library
code is run and no floating-point value is ever computed: anything that is
not an integer expression over known variables is 'unknown'.
"""
from .util import eval_int, CannotEval

UNKNOWN = object()


class Stop(Exception):
    pass


class Frame:
    def __init__(self, env, members):
        self.env = dict(env)          # variable name -> int | UNKNOWN
        self.members = dict(members)  # member name  -> int (struct fields treated by name)
        self.events = []
        self.flow = None              # None | 'break' | 'continue' | 'return'
        self.ambiguous = []
        self.retval = UNKNOWN
        self.rhs = None

    def fork(self):
        f = Frame(self.env, self.members)
        f.events = list(self.events)
        f.ambiguous = list(self.ambiguous)
        f.retval = self.retval
        return f


class MiniExec:
    def __init__(self, on_call=None, max_iter=4096, on_store=None, on_load=None):
        self.on_call = on_call
        self.on_store = on_store
        self.on_load = on_load        # on_load(array_or_member_expr, frame, self) -> int | None
        self.max_iter = max_iter
        self.steps = 0

    # ---- expressions ------------------------------------------------------
    def val(self, e, fr):
        e = e.strip()
        k = e.k
        if k in ("IntegerLiteral", "CharacterLiteral"):
            return e.val
        if k == "DeclRefExpr":
            r = e.ref
            if r["kind"] == "enum":
                return r["val"]
            v = fr.env.get(r.get("name"), UNKNOWN)
            return v
        if k == "MemberExpr":
            if e.member in fr.members:
                return fr.members[e.member]
            if self.on_load:
                r = self.on_load(e, fr, self)
                if r is not None:
                    return r
            return UNKNOWN
        if e.cv is not None and k not in ("BinaryOperator", "UnaryOperator", "ConditionalOperator"):
            return e.cv
        if k == "BinaryOperator":
            op = e.op
            if op == "=":
                v = self.val(e.kids[1], fr)
                self.assign(e.kids[0], v, fr, e.kids[1])
                return v
            if op == ",":
                self.val(e.kids[0], fr)
                return self.val(e.kids[1], fr)
            a = self.val(e.kids[0], fr)
            if op == "&&":
                if a is not UNKNOWN and not a:
                    return 0
                b = self.val(e.kids[1], fr)
                if b is not UNKNOWN and not b:
                    return 0
                return UNKNOWN if (a is UNKNOWN or b is UNKNOWN) else 1
            if op == "||":
                if a is not UNKNOWN and a:
                    return 1
                b = self.val(e.kids[1], fr)
                if b is not UNKNOWN and b:
                    return 1
                return UNKNOWN if (a is UNKNOWN or b is UNKNOWN) else 0
            b = self.val(e.kids[1], fr)
            if a is UNKNOWN or b is UNKNOWN:
                return UNKNOWN
            try:
                if op == "+": return a + b
                if op == "-": return a - b
                if op == "*": return a * b
                if op == "/": return int(a / b) if b else UNKNOWN
                if op == "%": return a - b * int(a / b) if b else UNKNOWN
                if op == "==": return int(a == b)
                if op == "!=": return int(a != b)
                if op == "<": return int(a < b)
                if op == ">": return int(a > b)
                if op == "<=": return int(a <= b)
                if op == ">=": return int(a >= b)
                if op == "&": return a & b
                if op == "|": return a | b
                if op == "<<": return a << b
                if op == ">>": return a >> b
            except TypeError:
                return UNKNOWN
            return UNKNOWN
        if k == "CompoundAssignOperator":
            a = self.val(e.kids[0], fr)
            b = self.val(e.kids[1], fr)
            if a is UNKNOWN or b is UNKNOWN:
                v = UNKNOWN
            else:
                v = {"+=": a + b, "-=": a - b, "*=": a * b, "|=": a | b, "&=": a & b}.get(e.op, UNKNOWN)
            self.assign(e.kids[0], v, fr)
            return v
        if k == "UnaryOperator":
            if e.op in ("++", "--"):
                a = self.val(e.kids[0], fr)
                nv = UNKNOWN if a is UNKNOWN else (a + 1 if e.op == "++" else a - 1)
                self.assign(e.kids[0], nv, fr)
                return a if e.get("postfix") else nv
            a = self.val(e.kids[0], fr)
            if a is UNKNOWN:
                return UNKNOWN
            if e.op == "-": return -a
            if e.op == "+": return a
            if e.op == "!": return int(not a)
            if e.op == "~": return ~a
            return UNKNOWN
        if k == "ConditionalOperator":
            c = self.val(e.kids[0], fr)
            if c is UNKNOWN:
                a, b = self.val(e.kids[1], fr), self.val(e.kids[2], fr)
                return a if (a is not UNKNOWN and a == b) else UNKNOWN
            return self.val(e.kids[1], fr) if c else self.val(e.kids[2], fr)
        if k == "CallExpr":
            for a in e.args():
                self.scan_calls(a, fr)
            if self.on_call:
                r = self.on_call(e, fr, self)
                if r is not None:
                    return r
            return UNKNOWN
        if k == "ArraySubscriptExpr":
            if self.on_load:
                r = self.on_load(e, fr, self)
                if r is not None:
                    return r
            self.scan_calls(e.kids[1], fr)
            return UNKNOWN
        if k == "StmtExpr":
            return UNKNOWN
        return UNKNOWN

    def scan_calls(self, e, fr):
        """evaluate for side effects (calls) only"""
        if e is None:
            return
        self.val(e, fr)

    def assign(self, lhs, v, fr, rhs=None):
        l = lhs.strip()
        if l.k == "DeclRefExpr":
            fr.env[l.refname] = v
        elif self.on_store:
            fr.rhs = rhs
            self.on_store(l, v, fr, self)

    # ---- statements ---------------------------------------------------------
    def exec(self, s, frames):
        """execute statement s on every frame that is still running; returns the new list of frames"""
        out = []
        for fr in frames:
            if fr.flow is not None:
                out.append(fr)
                continue
            out.extend(self._exec1(s, fr))
        return out

    def _exec1(self, s, fr):
        self.steps += 1
        if self.steps > 2000000:
            raise Stop("too many steps")
        if s is None:
            return [fr]
        k = s.k
        if k == "CompoundStmt":
            frames = [fr]
            for c in s.kids:
                frames = self.exec(c, frames)
            return frames
        if k == "DeclStmt":
            for vd in s.kids:
                if vd.k == "VarDecl":
                    if vd.kids:
                        fr.env[vd.get("name")] = self.val(vd.kids[0], fr)
                    else:
                        fr.env[vd.get("name")] = UNKNOWN
            return [fr]
        if k == "IfStmt":
            kids = [x for x in s.kids if x is not None]
            c = self.val(kids[0], fr)
            if c is UNKNOWN:
                f2 = fr.fork()
                fr.ambiguous.append(kids[0].line)
                f2.ambiguous.append(kids[0].line)
                a = self._exec1(kids[1], fr)
                b = self._exec1(kids[2], f2) if len(kids) > 2 else [f2]
                return a + b
            if c:
                return self._exec1(kids[1], fr)
            return self._exec1(kids[2], fr) if len(kids) > 2 else [fr]
        if k == "ForStmt":
            init, cond, inc, body = s.kids[0], s.kids[2], s.kids[3], s.kids[4]
            if init is not None:
                if init.k == "DeclStmt":
                    self._exec1(init, fr)
                else:
                    self.val(init, fr)
            frames = [fr]
            done = []
            it = 0
            while frames:
                it += 1
                if it > self.max_iter:
                    raise Stop("loop at line %d does not terminate within %d iterations" % (s.line, self.max_iter))
                nxt = []
                for f in frames:
                    c = 1 if cond is None else self.val(cond, f)
                    if c is UNKNOWN:
                        f.ambiguous.append(s.line)
                        done.append(f)       # cannot iterate an unknown bound: leave the loop
                        continue
                    if not c:
                        done.append(f)
                        continue
                    for g in self._exec1(body, f):
                        if g.flow == "break":
                            g.flow = None
                            done.append(g)
                        elif g.flow == "return":
                            done.append(g)
                        else:
                            g.flow = None
                            if inc is not None:
                                self.val(inc, g)
                            nxt.append(g)
                frames = nxt
            return done
        if k in ("WhileStmt", "DoStmt"):
            fr.ambiguous.append(s.line)
            return [fr]
        if k == "SwitchStmt":
            cond = [x for x in s.kids[:-1] if x is not None][-1]
            v = self.val(cond, fr)
            body = s.kids[-1]
            if v is UNKNOWN:
                fr.ambiguous.append(s.line)
                return [fr]
            # find entry
            stmts = body.kids
            entry = None
            default = None
            for i, st in enumerate(stmts):
                t = st
                while t is not None and t.k in ("CaseStmt", "DefaultStmt"):
                    if t.k == "CaseStmt" and t.get("val") == v:
                        entry = i
                    if t.k == "DefaultStmt":
                        default = i
                    t = t.kids[-1]
                if entry is not None:
                    break
            if entry is None:
                entry = default
            if entry is None:
                return [fr]
            frames = [fr]
            for st in stmts[entry:]:
                t = st
                while t is not None and t.k in ("CaseStmt", "DefaultStmt"):
                    t = t.kids[-1]
                frames = self.exec(t, frames)
                if all(f.flow is not None for f in frames):
                    break
            for f in frames:
                if f.flow == "break":
                    f.flow = None
            return frames
        if k == "BreakStmt":
            fr.flow = "break"
            return [fr]
        if k == "ContinueStmt":
            fr.flow = "continue"
            return [fr]
        if k == "ReturnStmt":
            if s.kids and s.kids[0] is not None:
                fr.retval = self.val(s.kids[0], fr)
            fr.flow = "return"
            return [fr]
        if k == "GotoStmt":
            fr.flow = "return"
            return [fr]
        if k in ("CaseStmt", "DefaultStmt", "LabelStmt"):
            return self._exec1(s.kids[-1], fr)
        if k == "NullStmt":
            return [fr]
        # expression statement
        self.val(s, fr)
        return [fr]


    # ---- calls into small library helpers -----------------------------------
    def call_function(self, g, argvals, fr, depth=0):
        """interpret the body of library function g with integer arguments; the events of the callee are appended to
        the caller's frame.  Returns the integer result, or UNKNOWN when the callee's forks disagree."""
        if g.body is None or depth > 4:
            return UNKNOWN
        env = {}
        for p, v in zip(g.params, argvals):
            env[p.get("name")] = v
        sub = Frame(env, fr.members)
        sub.events = fr.events          # shared: callee events are the caller's events
        frames = self.exec(g.body, [sub])
        rets = {f.retval for f in frames}
        if len(frames) > 1:
            fr.ambiguous.append(g.line)
        return rets.pop() if len(rets) == 1 else UNKNOWN

"""In-memory model of the exported facts: Node (AST), CFG, Function, Program."""
import os
from collections import defaultdict

from . import facts as F

CAST_KINDS = ("ImplicitCastExpr", "CStyleCastExpr", "ParenExpr", "ConstantExpr")


class Node:
    __slots__ = ("d", "k", "id", "kids", "parent", "fn", "_txt")

    def __init__(self, d, parent=None, fn=None):
        self.d = d
        self.k = d["k"]
        self.id = d.get("id")
        self.parent = parent
        self.fn = fn
        self._txt = None
        ks = d.get("kids")
        self.kids = [Node(c, self, fn) if c is not None else None for c in ks] if ks else []
        if "dims" in d:
            # VLA/array dimension expressions are kept as raw dicts -> Nodes
            pass

    # -- attribute access ---------------------------------------------------
    def get(self, key, default=None):
        return self.d.get(key, default)

    @property
    def line(self):
        n = self
        while n is not None:
            if "l" in n.d:
                return n.d["l"]
            n = n.parent
        return 0

    @property
    def type(self):
        return self.d.get("t", "")

    @property
    def ctype(self):
        return self.d.get("ct", self.d.get("t", ""))

    @property
    def op(self):
        return self.d.get("op")

    @property
    def macro(self):
        return self.d.get("m")

    @property
    def macros(self):
        """All macro names on the expansion chain (innermost first)."""
        mc = self.d.get("mc")
        out = list(mc) if mc else ([self.d["m"]] if self.d.get("m") else [])
        mm = self.d.get("mmacro")
        if mm and mm not in out:
            out.append(mm)
        return out

    @property
    def callee(self):
        return self.d.get("callee")

    @property
    def ref(self):
        return self.d.get("ref")

    @property
    def refname(self):
        r = self.d.get("ref")
        return r.get("name") if r else None

    @property
    def refdecl(self):
        r = self.d.get("ref")
        return r.get("decl") if r else None

    @property
    def refkind(self):
        r = self.d.get("ref")
        return r.get("kind") if r else None

    @property
    def member(self):
        return self.d.get("member")

    @property
    def val(self):
        return self.d.get("val")

    @property
    def cv(self):
        """integer constant value, if the expression is a constant"""
        if self.k == "IntegerLiteral" or self.k == "CharacterLiteral":
            return self.d.get("val")
        if "cv" in self.d:
            return self.d["cv"]
        r = self.d.get("ref")
        if r and r.get("kind") == "enum":
            return r.get("val")
        return None

    # -- traversal ----------------------------------------------------------
    def walk(self):
        st = [self]
        while st:
            n = st.pop()
            yield n
            for c in reversed(n.kids):
                if c is not None:
                    st.append(c)
            # dims (array extents) are walked too
    def find(self, pred):
        return [n for n in self.walk() if pred(n)]

    def calls(self, name=None):
        return [n for n in self.walk() if n.k == "CallExpr" and (name is None or n.callee == name)]

    def strip(self):
        """skip parens and all casts"""
        n = self
        while n is not None and n.k in CAST_KINDS and n.kids:
            n = n.kids[0]
        return n

    def strip_parens(self):
        n = self
        while n is not None and n.k == "ParenExpr" and n.kids:
            n = n.kids[0]
        return n

    def ancestors(self):
        n = self.parent
        while n is not None:
            yield n
            n = n.parent

    def is_ancestor_of(self, other):
        n = other
        while n is not None:
            if n is self:
                return True
            n = n.parent
        return False

    def args(self):
        """arguments of a CallExpr"""
        return self.kids[1:] if self.k == "CallExpr" else []

    # -- rendering ----------------------------------------------------------
    def text(self):
        if self._txt is None:
            self._txt = _render(self)
        return self._txt

    def __repr__(self):
        return "<%s %s @%s>" % (self.k, self.text()[:60], self.line)


def _render(n):
    if n is None:
        return ""
    k = n.k
    K = n.kids
    if k in ("ImplicitCastExpr", "ConstantExpr"):
        return _render(K[0])
    if k == "ParenExpr":
        return "(" + _render(K[0]) + ")"
    if k == "CStyleCastExpr":
        return "(" + n.type + ")" + _render(K[0])
    if k == "DeclRefExpr":
        return n.refname or "?"
    if k == "MemberExpr":
        return _render(K[0]) + ("->" if n.get("arrow") else ".") + (n.member or "?")
    if k == "IntegerLiteral":
        return str(n.val)
    if k == "FloatingLiteral":
        return repr(n.val)
    if k == "CharacterLiteral":
        v = n.val
        return repr(chr(v)) if v is not None and 32 <= v < 127 else "'\\x%02x'" % (v or 0)
    if k == "StringLiteral":
        return '"' + str(n.val).replace("\n", "\\n") + '"'
    if k in ("BinaryOperator", "CompoundAssignOperator"):
        return _render(K[0]) + " " + (n.op or "?") + " " + _render(K[1])
    if k == "UnaryOperator":
        if n.get("postfix"):
            return _render(K[0]) + n.op
        return n.op + _render(K[0])
    if k == "ArraySubscriptExpr":
        return _render(K[0]) + "[" + _render(K[1]) + "]"
    if k == "CallExpr":
        return _render(K[0]) + "(" + ", ".join(_render(a) for a in K[1:]) + ")"
    if k == "ConditionalOperator":
        return _render(K[0]) + " ? " + _render(K[1]) + " : " + _render(K[2])
    if k == "UnaryExprOrTypeTraitExpr":
        if K:
            return n.get("trait", "sizeof") + "(" + _render(K[0]) + ")"
        return n.get("trait", "sizeof") + "(" + n.get("argt", "") + ")"
    if k == "VarDecl":
        s = n.type + " " + n.get("name", "?")
        if K:
            s += " = " + _render(K[0])
        return s
    if k == "DeclStmt":
        return "; ".join(_render(c) for c in K)
    if k == "ReturnStmt":
        return "return " + (_render(K[0]) if K else "")
    if k == "InitListExpr":
        return "{" + ", ".join(_render(c) for c in K[:8]) + (", ..." if len(K) > 8 else "") + "}"
    if k == "GotoStmt":
        return "goto " + n.get("label", "?")
    if k == "LabelStmt":
        return n.get("label", "?") + ":"
    if k == "StmtExpr":
        return "({...})"
    if k == "CompoundLiteralExpr":
        return "(" + n.type + ")" + (_render(K[0]) if K else "")
    if k == "ImplicitValueInitExpr":
        return "0"
    if k == "OpaqueValueExpr":
        return _render(K[0]) if K else "?"
    return "<" + k + ">"


class Block:
    __slots__ = ("id", "elems", "succs", "preds", "term", "termk", "cond", "label", "noreturn")

    def __init__(self, d):
        self.id = d["id"]
        self.elems = []
        self.succs = d["succs"]
        self.preds = []
        self.term = None
        self.termk = d.get("termk")
        self.cond = None
        self.label = None
        self.noreturn = d.get("noreturn", False)


class CFG:
    def __init__(self, d, by_id):
        self.entry = d["entry"]
        self.exit = d["exit"]
        self.blocks = {}
        self.pos = {}  # node id -> (block id, index)
        for bd in d["blocks"]:
            b = Block(bd)
            for i, eid in enumerate(bd["elems"]):
                n = by_id.get(eid)
                if n is not None:
                    self.pos[eid] = (b.id, len(b.elems))
                    b.elems.append(n)
            if "term" in bd:
                b.term = by_id.get(bd["term"])
            if "cond" in bd:
                c = by_id.get(bd["cond"])
                # the value that decides the branch is the last operand evaluated:
                # for `if (a || b)` the block ending in the IfStmt tests b
                while c is not None:
                    cs = c.strip_parens()
                    if cs.k == "BinaryOperator" and cs.op in ("&&", "||"):
                        c = cs.kids[1]
                    else:
                        break
                b.cond = c
            if "label" in bd:
                b.label = by_id.get(bd["label"])
            self.blocks[b.id] = b
        for b in self.blocks.values():
            for s in b.succs:
                if s is not None:
                    self.blocks[s].preds.append(b.id)
        self._dom = None
        self._pdom = None
        self._reach = {}

    # -- dominators (iterative, small graphs) --------------------------------
    def _compute_dom(self, entry, succ_of, pred_of):
        nodes = list(self.blocks)
        # reachable from entry
        seen = set()
        order = []
        st = [entry]
        while st:
            b = st.pop()
            if b in seen:
                continue
            seen.add(b)
            order.append(b)
            for s in succ_of(b):
                if s is not None and s not in seen:
                    st.append(s)
        dom = {b: set(seen) for b in seen}
        dom[entry] = {entry}
        changed = True
        while changed:
            changed = False
            for b in order:
                if b == entry:
                    continue
                ps = [p for p in pred_of(b) if p in seen]
                if not ps:
                    new = {b}
                else:
                    new = set.intersection(*(dom[p] for p in ps)) | {b}
                if new != dom[b]:
                    dom[b] = new
                    changed = True
        return dom

    @property
    def dom(self):
        if self._dom is None:
            self._dom = self._compute_dom(self.entry, lambda b: self.blocks[b].succs, lambda b: self.blocks[b].preds)
        return self._dom

    @property
    def pdom(self):
        if self._pdom is None:
            self._pdom = self._compute_dom(self.exit, lambda b: self.blocks[b].preds,
                                           lambda b: [s for s in self.blocks[b].succs if s is not None])
        return self._pdom

    def block_dominates(self, a, b):
        return b in self.dom and a in self.dom[b]

    def node_dominates(self, a, b):
        """CFG element a is executed on every path to element b."""
        pa, pb = self.pos.get(a.id), self.pos.get(b.id)
        if pa is None or pb is None:
            return False
        if pa[0] == pb[0]:
            return pa[1] < pb[1]
        return self.block_dominates(pa[0], pb[0])

    def reachable_from(self, b):
        if b in self._reach:
            return self._reach[b]
        seen = set()
        st = [b]
        while st:
            x = st.pop()
            for s in self.blocks[x].succs:
                if s is not None and s not in seen:
                    seen.add(s)
                    st.append(s)
        self._reach[b] = seen
        return seen

    def block_of(self, node):
        """Block containing the node (or its nearest enclosing CFG element)."""
        n = node
        while n is not None:
            p = self.pos.get(n.id)
            if p is not None:
                return p[0]
            n = n.parent
        return None

    def pos_of(self, node):
        n = node
        while n is not None:
            p = self.pos.get(n.id)
            if p is not None:
                return p
            n = n.parent
        return None

    def edge_label(self, b, idx):
        """For a two-way branch: index 0 = true edge, 1 = false edge."""
        return ("T", "F")[idx] if len(self.blocks[b].succs) == 2 else str(idx)


class Function:
    def __init__(self, d, tu):
        self.d = d
        self.tu = tu
        self.name = d["name"]
        self.file = os.path.basename(d.get("file") or tu)
        self.static = d.get("static", False)
        self.ret = d.get("ret", "")
        self.cret = d.get("cret", self.ret)
        self.params = d.get("params", [])
        self.line = d.get("l", 0)
        self.by_id = {}
        self.body = Node(d["body"], None, self) if d.get("body") else None
        if self.body is not None:
            for n in self.body.walk():
                if n.id is not None:
                    self.by_id[n.id] = n
                dims = n.d.get("dims")
                if dims and n.k == "VarDecl":
                    dn = []
                    for x in dims:
                        if x is None:
                            dn.append(None)
                        else:
                            nd = Node(x, n, self)
                            dn.append(nd)
                            for m in nd.walk():
                                if m.id is not None:
                                    self.by_id[m.id] = m
                    n.d["_dims"] = dn
        self.cfg = CFG(d["cfg"], self.by_id) if d.get("cfg") else None
        self._locals = None

    def walk(self):
        return self.body.walk() if self.body is not None else iter(())

    def calls(self, name=None):
        return self.body.calls(name) if self.body is not None else []

    def param_index(self, name):
        for i, p in enumerate(self.params):
            if p["name"] == name:
                return i
        return None

    def param_decl(self, name):
        for p in self.params:
            if p["name"] == name:
                return p["decl"]
        return None

    def returns(self):
        return [n for n in self.walk() if n.k == "ReturnStmt"]

    def vardecls(self):
        return [n for n in self.walk() if n.k == "VarDecl"]

    def key(self):
        return "%s:%s" % (self.file, self.name)

    def __repr__(self):
        return "<Function %s>" % self.key()


class Program:
    def __init__(self, src=None):
        self.src = src or F.SRC
        tus = F.extract_all(self.src)
        host = F.extract_host_headers(self.src)
        self.tus = tus
        self.functions = {}       # name -> Function (library, incl. static; key name or file:name for statics)
        self.by_file = defaultdict(list)
        self.prototypes = {}      # name -> proto dict (from headers)
        self.enums = {}           # enum name -> {const: val}
        self.enum_consts = {}     # const name -> (enum name, val)
        self.records = {}         # record name -> [fields]
        self.globals = {}         # (file,name) -> dict with Node init
        self.typedefs = {}
        self.units = sorted(tus)
        for fn in sorted(tus):
            self._ingest(fn, tus[fn], main_only=True)
        self._ingest("<headers>", host, main_only=False)
        self.header_inlines = [f for f in self.by_file.get("vnadata.h", [])]
        self._callers = None

    def _ingest(self, fn, d, main_only):
        for fd in d["functions"]:
            f = Function(fd, fn)
            if any(g.name == f.name for g in self.by_file[f.file]):
                continue
            self.by_file[f.file].append(f)
            if f.static:
                self.functions["%s:%s" % (f.file, f.name)] = f
                self.functions.setdefault(f.name, f)
            else:
                self.functions[f.name] = f
        for p in d["prototypes"]:
            self.prototypes.setdefault(p["name"], p)
            if p.get("file", "").endswith(".h"):
                self.prototypes[p["name"]] = p
        for e in d["enums"]:
            name = e.get("name") or "<anon@%s:%s>" % (os.path.basename(e.get("file", "")), e.get("l"))
            cs = {c["name"]: c["val"] for c in e["constants"]}
            self.enums[name] = cs
            for c, v in cs.items():
                self.enum_consts[c] = (name, v)
        for r in d["records"]:
            if r.get("name"):
                self.records[r["name"]] = r["fields"]
        for t in d.get("typedefs", []):
            self.typedefs[t["name"]] = t
        for g in d["globals"]:
            key = (os.path.basename(g.get("file") or fn), g["name"])
            if key in self.globals:
                continue
            gg = dict(g)
            gg["node"] = Node(g["init"]) if g.get("init") else None
            self.globals[key] = gg

    # -- lookups ------------------------------------------------------------
    def func(self, name, file=None):
        if file is not None:
            for f in self.by_file.get(file, []):
                if f.name == name:
                    return f
            return None
        return self.functions.get(name)

    def need_func(self, name, file=None):
        f = self.func(name, file)
        if f is None:
            raise F.AnalysisBroken("anchor function %s%s not found" % (name, " in " + file if file else ""))
        return f

    def all_functions(self):
        seen = set()
        for file in sorted(self.by_file):
            for f in self.by_file[file]:
                if id(f) not in seen:
                    seen.add(id(f))
                    yield f

    def lib_functions(self):
        """functions defined in library .c files (not header inlines)"""
        for f in self.all_functions():
            if f.file.endswith(".c"):
                yield f

    def resolve_call(self, call, frm):
        """Function object a direct call resolves to (static in same file first)."""
        name = call.callee
        if not name:
            return None
        g = self.func(name, frm.file)
        if g is not None:
            return g
        return self.functions.get(name)

    def global_var(self, name, file=None):
        if file:
            return self.globals.get((file, name))
        for (f, n), g in self.globals.items():
            if n == name:
                return g
        return None

    def callers(self):
        if self._callers is None:
            cs = defaultdict(list)
            for f in self.all_functions():
                for c in f.calls():
                    g = self.resolve_call(c, f)
                    if g is not None:
                        cs[g.key()].append((f, c))
            self._callers = cs
        return self._callers

"""Minimal multivariate polynomials with integer coefficients (no dependency on sympy)."""


class Poly:
    __slots__ = ("t",)

    def __init__(self, terms=None):
        # terms: {monomial: coeff}, monomial = tuple of (symbol, power) sorted
        self.t = {m: c for m, c in (terms or {}).items() if c != 0}

    @staticmethod
    def const(c):
        return Poly({(): c})

    @staticmethod
    def sym(name):
        return Poly({((name, 1),): 1})

    def __add__(self, o):
        o = o if isinstance(o, Poly) else Poly.const(o)
        r = dict(self.t)
        for m, c in o.t.items():
            r[m] = r.get(m, 0) + c
        return Poly(r)

    def __neg__(self):
        return Poly({m: -c for m, c in self.t.items()})

    def __sub__(self, o):
        o = o if isinstance(o, Poly) else Poly.const(o)
        return self + (-o)

    def __mul__(self, o):
        o = o if isinstance(o, Poly) else Poly.const(o)
        r = {}
        for m1, c1 in self.t.items():
            for m2, c2 in o.t.items():
                d = dict(m1)
                for s, p in m2:
                    d[s] = d.get(s, 0) + p
                m = tuple(sorted(d.items()))
                r[m] = r.get(m, 0) + c1 * c2
        return Poly(r)

    def __eq__(self, o):
        o = o if isinstance(o, Poly) else Poly.const(o)
        return self.t == o.t

    def __hash__(self):
        return hash(tuple(sorted(self.t.items())))

    def is_zero(self):
        return not self.t

    def is_const(self):
        return all(m == () for m in self.t)

    def const_value(self):
        return self.t.get((), 0) if self.is_const() else None

    def symbols(self):
        return {s for m in self.t for s, _ in m}

    def subs(self, env):
        """substitute ints or Polys for symbols"""
        r = Poly.const(0)
        for m, c in self.t.items():
            term = Poly.const(c)
            for s, p in m:
                v = env.get(s)
                base = Poly.sym(s) if v is None else (v if isinstance(v, Poly) else Poly.const(v))
                for _ in range(p):
                    term = term * base
            r = r + term
        return r

    def eval(self, env):
        v = self.subs(env)
        return v.const_value()

    def __repr__(self):
        if not self.t:
            return "0"
        parts = []
        for m, c in sorted(self.t.items(), key=lambda kv: (-sum(p for _, p in kv[0]), kv[0])):
            mono = "*".join(s if p == 1 else "%s^%d" % (s, p) for s, p in m)
            if not mono:
                parts.append("%+d" % c)
            elif c == 1:
                parts.append("+" + mono)
            elif c == -1:
                parts.append("-" + mono)
            else:
                parts.append("%+d*%s" % (c, mono))
        s = "".join(parts)
        return s[1:] if s.startswith("+") else s

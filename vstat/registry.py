"""Which rule modules decide which property."""
PROPERTY_RULES = {
    "C05": ["r28_dispatch"],
}
PROPERTY_RULES["C03"] = ["r01_leak"]
PROPERTY_RULES["C15"] = ["r08_index"]
PROPERTY_RULES["C11"] = ["r15_fail"]
PROPERTY_RULES["C11"] = ["r15_fail", "r_slot"]
PROPERTY_RULES["C16"] = ["r_slot", "r08_index"]
PROPERTY_RULES["C19"] = ["r23_detcheck"]
PROPERTY_RULES["C19"] = ["r23_detcheck", "r34b_pivot"]
PROPERTY_RULES["C11"] = ["r15_fail", "r15c_ignored", "r_slot"]
PROPERTY_RULES["C10"] = ["r33_range"]
PROPERTY_RULES["C20"] = ["r24_count", "r15_fail", "r15c_ignored", "r23_detcheck"]
PROPERTY_RULES["C02"] = ["r25_loops"]
PROPERTY_RULES["C07"] = ["r27_mirror"]
PROPERTY_RULES["C03"] = ["r01_leak", "r08_index", "r09_bounds"]
PROPERTY_RULES["C03"] = ["r01_leak", "r08_index", "r09_bounds", "r12_sprintf"]
PROPERTY_RULES["C07"] = ["r27_mirror", "r12_sprintf"]
PROPERTY_RULES["C03"] = ["r01_leak", "r08_index", "r09_bounds", "r12_sprintf", "r06_uninit", "r07_uniontag"]
PROPERTY_RULES["C09"] = ["r07_uniontag", "r06_uninit", "r09_bounds", "r01_leak", "r15_fail", "r15c_ignored"]
PROPERTY_RULES["C04"] = ["r34c_alias"]
PROPERTY_RULES["C08"] = ["r34a_unit"]
PROPERTY_RULES["C06"] = ["r29_fields", "r12_sprintf"]

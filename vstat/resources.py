"""Resource typestate tracker (R01 LEAK / R02 PAIR) and per-function summaries.

Abstract state (hashable):
   vars  : local pointer variable -> 'N' (null) | resource id
   res   : resource id -> 'M' maybe-null, owned if non-null
                          'O' owned, non-null
                          'R' released   'E' escaped / handed over
   ints  : int local -> constant
   atoms : canonical branch condition text -> truth value (only conditions
           that occur at least twice in the function: flag-correlated cleanup)
A resource id is the node id of its acquisition call (or "P<i>" for a
parameter when computing callee summaries).
"""
import re

from .flow import Tracker, Engine, TooManyStates
from .util import is_null
from .canon import Canon

# external acquisition functions returning an owned pointer (NULL on failure)
EXT_ACQUIRE = {"malloc", "calloc", "realloc", "strdup", "strndup", "fopen", "fdopen", "fmemopen", "open_memstream"}
# external release functions: name -> argument index consumed
EXT_RELEASE = {"free": 0, "fclose": 0}
# externals that keep a pointer to their argument (escape)
EXT_ESCAPE = {"insque": 0}
# resources that live in a caller-provided struct, acquired/released by address:
#   name -> (argument index, success test of the return value)
ADDR_ACQUIRE = {
    "yaml_parser_initialize": (0, "nonzero"),
    "yaml_emitter_initialize": (0, "nonzero"),
    "yaml_document_initialize": (0, "nonzero"),
    "yaml_parser_load": (1, "nonzero"),
    "_vnacal_new_solve_init": (0, "notminus1"),
    # the descriptor parser state of vnaproperty.c: on success (non-NULL anchor) the caller owns the expression list and the
    # formatted input held in the caller-provided parser_t; on failure the callee has released them itself
    "parse_and_descend": (0, "nonzero"),
}
ADDR_RELEASE = {
    "yaml_parser_delete": 0,
    "yaml_emitter_delete": 0,
    "yaml_document_delete": 0,
    "yaml_emitter_dump": 1,          # the emitter takes over and destroys the document, also on failure
    "_vnacal_new_solve_free": 0,
    "parser_free": 0,
}
KIND = {"fopen": "FILE", "fdopen": "FILE", "fmemopen": "FILE", "open_memstream": "FILE"}


def _fs_set(fs, k, v):
    d = dict(fs)
    d[k] = v
    return frozenset(d.items())


def _fs_del(fs, k):
    d = dict(fs)
    d.pop(k, None)
    return frozenset(d.items())


class Summary:
    __slots__ = ("returns_owned", "params", "may_params")

    def __init__(self):
        self.returns_owned = False
        self.params = {}       # index -> 'consume' | 'may' | 'borrow'


class ResTracker(Tracker):
    def __init__(self, P, fn, summaries, param_as_resource=None):
        self.P = P
        self.fn = fn
        self.summ = summaries
        self.param_res = param_as_resource      # index of the parameter to treat as an owned resource
        self.leaks = []          # (resid, var name, return node or None, trace)
        self.exit_status = []    # for summaries: status of param resource at each return
        self.returns_owned = False
        self.overwrites = []
        self.double_release = []
        self.unchecked = []
        self.canon = Canon(fn)
        # tracked locals
        self.ptr_locals = {}
        self.int_locals = {}
        addr_taken = self.canon.addr_taken
        for n in fn.walk():
            if n.k == "VarDecl" and not n.get("static"):
                t = n.ctype
                d = n.get("decl")
                if t.endswith("*") or "(*)" in t:
                    self.ptr_locals[d] = n.get("name")
                elif t in ("int", "_Bool", "bool", "long", "unsigned int", "ssize_t") and d not in addr_taken:
                    # flag-like: every definition assigns an integer constant
                    ds = self.canon.defs.get(d, [])
                    if ds and all(k in ("init", "assign") and r is not None and r.strip().cv is not None for k, r in ds):
                        self.int_locals[d] = n.get("name")
        for i, p in enumerate(fn.params):
            t = p.get("ct", p.get("t", ""))
            if t.endswith("*"):
                self.ptr_locals[p["decl"]] = p["name"]
        self.site_info = {}      # resid -> (callee name, line, var name)
        # atoms: canonical condition texts occurring >= 2 times
        cnt = {}
        self._cond_txt = {}
        if fn.cfg is not None:
            for b in fn.cfg.blocks.values():
                if b.cond is not None and len(b.succs) == 2:
                    t = self._atom_text(b.cond)
                    if t is not None:
                        cnt[t] = cnt.get(t, 0) + 1
        self.atoms = {t for t, c in cnt.items() if c >= 2}
        # interval variables: never-reassigned int params/locals compared with constants at >= 2 branches
        self.ivars = {}
        if fn.cfg is not None:
            icnt = {}
            for b in fn.cfg.blocks.values():
                if b.cond is not None and len(b.succs) == 2:
                    r = self._ivar_cond(b.cond)
                    if r is not None:
                        icnt[r[0]] = icnt.get(r[0], 0) + 1
            self.ivars = {d for d, c in icnt.items() if c >= 2}
        # liveness: atoms tested / variables referenced in blocks reachable from each block
        self.live_atoms = {}
        self.live_decls = {}
        if fn.cfg is not None:
            own_a, own_d = {}, {}
            for b in fn.cfg.blocks.values():
                a = set()
                if b.cond is not None and len(b.succs) == 2:
                    t = self._atom_text(b.cond)
                    if t in self.atoms:
                        a.add(t)
                    r = self._ivar_cond(b.cond)
                    if r is not None and r[0] in self.ivars:
                        a.add(("iv", r[0]))
                ds = set()
                for el in b.elems:
                    if el.k == "DeclRefExpr":
                        ds.add(el.refdecl)
                own_a[b.id] = a
                own_d[b.id] = ds
            for b in fn.cfg.blocks.values():
                ra = set(own_a[b.id])
                rdd = set(own_d[b.id])
                for x in fn.cfg.reachable_from(b.id):
                    ra |= own_a[x]
                    rdd |= own_d[x]
                self.live_atoms[b.id] = ra
                self.live_decls[b.id] = rdd

    # ------------------------------------------------------------------
    def _atom_text(self, cond):
        c = cond.strip()
        if c.id in self._cond_txt:
            return self._cond_txt[c.id]
        t = None
        neg = False
        while c.k == "UnaryOperator" and c.op == "!":
            neg = not neg
            c = c.kids[0].strip()
        # pure: no calls, no assignments, no ++/--
        pure = True
        for m in c.walk():
            if m.k in ("CallExpr", "CompoundAssignOperator", "StmtExpr") or \
                    (m.k == "BinaryOperator" and m.op == "=") or (m.k == "UnaryOperator" and m.op in ("++", "--")):
                pure = False
                break
        if pure:
            # do not expand single-def locals here: use spelled access path over decl ids
            t = ("!" if neg else "") + self._spell(c)
        self._cond_txt[cond.strip().id] = t
        return t

    def _ivar_cond(self, cond):
        """(decl, op, const) if cond is `v OP const` over an int variable that is never reassigned"""
        c = cond.strip()
        neg = False
        while c.k == "UnaryOperator" and c.op == "!":
            neg = not neg
            c = c.kids[0].strip()
        if c.k != "BinaryOperator" or c.op not in ("==", "!=", "<", ">", "<=", ">="):
            return None
        a, b = c.kids[0].strip(), c.kids[1].strip()
        op = c.op
        if a.k != "DeclRefExpr" or b.cv is None:
            if b.k == "DeclRefExpr" and a.cv is not None:
                a, b = b, a
                op = {"<": ">", ">": "<", "<=": ">=", ">=": "<="}.get(op, op)
            else:
                return None
        if a.refkind not in ("param", "local") or a.ctype not in ("int", "long", "unsigned int", "size_t"):
            return None
        d = a.refdecl
        ds = self.canon.defs.get(d, [])
        if d in self.canon.addr_taken or len(ds) > 1 or any(k == "update" for k, _ in ds):
            return None
        if neg:
            op = {"==": "!=", "!=": "==", "<": ">=", ">=": "<", ">": "<=", "<=": ">"}[op]
        return (d, op, b.cv)

    def _spell(self, n):
        n = n.strip()
        if n.k == "DeclRefExpr":
            return "%s#%s" % (n.refname, n.refdecl)
        if n.k == "MemberExpr":
            return self._spell(n.kids[0]) + "." + (n.member or "?")
        if n.k == "ArraySubscriptExpr":
            return self._spell(n.kids[0]) + "[" + self._spell(n.kids[1]) + "]"
        if n.k in ("BinaryOperator",):
            return "(" + self._spell(n.kids[0]) + n.op + self._spell(n.kids[1]) + ")"
        if n.k == "UnaryOperator":
            return n.op + self._spell(n.kids[0])
        if n.k in ("IntegerLiteral", "CharacterLiteral"):
            return str(n.val)
        if n.cv is not None:
            return str(n.cv)
        return n.text()

    # ------------------------------------------------------------------
    def initial(self, fn):
        vars_ = frozenset()
        res = frozenset()
        if self.param_res is not None:
            p = fn.params[self.param_res]
            rid = "P%d" % self.param_res
            vars_ = frozenset({(p["decl"], rid)})
            res = frozenset({(rid, "O")})
            self.site_info[rid] = ("<param>", fn.line, p["name"])
        return (vars_, res, frozenset(), frozenset())

    def enter_block(self, st, bid):
        vars_, res, ints, atoms = st
        la = self.live_atoms.get(bid)
        if la is not None and atoms:
            na = frozenset((t, v) for (t, v) in atoms if t in la)
            if len(na) != len(atoms):
                atoms = na
        ld = self.live_decls.get(bid)
        if ld is not None:
            if ints:
                ni = frozenset((d, v) for (d, v) in ints if d in ld)
                if len(ni) != len(ints):
                    ints = ni
            if vars_:
                nv = frozenset((d, r) for (d, r) in vars_ if isinstance(d, tuple) or d in ld or r != "N")
                if len(nv) != len(vars_):
                    vars_ = nv
        return (vars_, res, ints, atoms)

    # --- expression helpers -------------------------------------------
    def flows(self, e):
        """tracked variables whose pointer value the expression evaluates to"""
        if e is None:
            return set()
        e = e.strip()
        k = e.k
        if k == "DeclRefExpr":
            d = e.refdecl
            return {d} if d in self.ptr_locals else set()
        if k == "UnaryOperator" and e.op == "&":
            x = e.kids[0].strip()
            if x.k == "MemberExpr" and x.get("arrow"):
                return self.flows(x.kids[0])
            if x.k == "ArraySubscriptExpr":
                return self.flows(x.kids[0])
            if x.k == "UnaryOperator" and x.op == "*":
                return self.flows(x.kids[0])
            return set()
        if k == "BinaryOperator":
            if e.op in ("+", "-") and ("*" in e.ctype):
                return self.flows(e.kids[0]) | self.flows(e.kids[1])
            if e.op == "=":
                return self.flows(e.kids[1]) | (self.flows(e.kids[0]) if e.kids[0].strip().k == "DeclRefExpr" else set())
            if e.op == ",":
                return self.flows(e.kids[1])
            return set()
        if k == "ConditionalOperator":
            return self.flows(e.kids[1]) | self.flows(e.kids[2])
        return set()

    def acquisition(self, e):
        """if e (stripped) is a call returning an owned resource: the call node"""
        e = e.strip()
        if e.k != "CallExpr":
            return None
        nm = e.callee
        if nm in EXT_ACQUIRE:
            return e
        g = self.P.resolve_call(e, self.fn)
        if g is not None:
            s = self.summ.get(g.key())
            if s is not None and s.returns_owned:
                return e
        return None

    # --- state updates ---------------------------------------------------
    def _assign_var(self, st, decl, rhs, node, ctx):
        vars_, res, ints, atoms = st
        cur = dict(vars_).get(decl)
        newref = "?"
        rhs_s = rhs.strip() if rhs is not None else None
        while rhs_s is not None and rhs_s.k == "BinaryOperator" and rhs_s.op == "=":
            # chained assignment a = b = e : value is that of the inner lhs/rhs
            rhs_s = rhs_s.kids[1].strip()
        if rhs_s is None:
            newref = "?"
        elif is_null(rhs_s):
            newref = "N"
        else:
            acq = self.acquisition(rhs_s)
            if acq is not None:
                rid = acq.id
                self.site_info[rid] = (acq.callee, acq.line, self.ptr_locals.get(decl, "?"))
                rd = dict(res)
                # realloc: success consumes the old block
                link = None
                if acq.callee == "realloc" and acq.args():
                    fl = self.flows(acq.args()[0])
                    for d in fl:
                        r0 = dict(vars_).get(d)
                        if r0 not in (None, "N"):
                            link = r0
                # the same acquisition site executed again (a loop) while the object of its previous execution is still
                # owned and reachable only through the variable being assigned: that object is lost
                if rd.get(rid) == "O" and link != rid and cur == rid and \
                        not [d for d, r in vars_ if r == rid and d != decl]:
                    self.overwrites.append((rid, self.ptr_locals.get(decl), node, ctx.trace()))
                rd[rid] = ("M", link) if link is not None else "M"
                res = frozenset(rd.items())
                newref = rid
            else:
                fl = self.flows(rhs_s)
                if len(fl) == 1:
                    newref = dict(vars_).get(next(iter(fl)), "?")
                    if newref is None:
                        newref = "?"
        # overwrite of an owned, otherwise unreferenced resource?
        if cur not in (None, "N") and cur != newref:
            status = dict(res).get(cur)
            others = [d for d, r in vars_ if r == cur and d != decl]
            if status == "O" and not others:
                self.overwrites.append((cur, self.ptr_locals.get(decl), node, ctx.trace()))
                res = _fs_set(res, cur, "E")  # report once
        if newref == "?":
            vars_ = _fs_del(vars_, decl)
        else:
            vars_ = _fs_set(vars_, decl, newref)
        return (vars_, res, ints, atoms)

    def _set_status(self, st, decls, status):
        vars_, res, ints, atoms = st
        vd = dict(vars_)
        rd = dict(res)
        for d in decls:
            r = vd.get(d)
            if r not in (None, "N") and r in rd:
                cur = rd[r]
                if status == "E" and cur == "R":
                    continue
                rd[r] = status
        return (vars_, frozenset(rd.items()), ints, atoms)

    # --- transfer ----------------------------------------------------------
    def _deref_check(self, st, n, ctx):
        """dereference of a pointer that still holds an untested allocation result"""
        base = None
        if n.k == "MemberExpr" and n.get("arrow"):
            base = n.kids[0].strip()
        elif n.k == "ArraySubscriptExpr":
            base = n.kids[0].strip()
        elif n.k == "UnaryOperator" and n.op == "*":
            base = n.kids[0].strip()
        if base is None or base.k != "DeclRefExpr" or base.refdecl not in self.ptr_locals:
            return
        r = dict(st[0]).get(base.refdecl)
        if r in (None, "N"):
            return
        stt = dict(st[1]).get(r)
        s0 = stt[0] if isinstance(stt, tuple) else stt
        if s0 == "M" and not any(u[0] == r for u in self.unchecked):
            self.unchecked.append((r, self.ptr_locals.get(base.refdecl), n, ctx.trace()))

    def step(self, st, n, ctx):
        k = n.k
        if k in ("MemberExpr", "ArraySubscriptExpr", "UnaryOperator"):
            self._deref_check(st, n, ctx)
        if k == "VarDecl":
            d = n.get("decl")
            if d in self.ptr_locals:
                if n.kids:
                    return [self._assign_var(st, d, n.kids[0], n, ctx)]
                return [st]
            if d in self.int_locals:
                vars_, res, ints, atoms = st
                v = n.kids[0].cv if n.kids else None
                ints = _fs_set(ints, d, v) if v is not None else _fs_del(ints, d)
                return [(vars_, res, ints, atoms)]
            return [st]
        if k == "BinaryOperator" and n.op == "=":
            lhs = n.kids[0].strip()
            rhs = n.kids[1]
            if lhs.k == "DeclRefExpr":
                d = lhs.refdecl
                if d in self.ptr_locals:
                    return [self._assign_var(st, d, rhs, n, ctx)]
                if d in self.int_locals:
                    vars_, res, ints, atoms = st
                    v = rhs.strip().cv
                    ints = _fs_set(ints, d, v) if v is not None else _fs_del(ints, d)
                    return [(vars_, res, ints, atoms)]
                # store into global/static variable: escape
                fl = self.flows(rhs)
                return [self._set_status(st, fl, "E")] if fl else [st]
            # store into memory (field, *p, a[i]): the stored pointer escapes
            fl = self.flows(rhs)
            if fl and self.param_res is not None and self._is_local_aggregate(lhs):
                fl = set()      # a callee's local struct does not outlive the call
            if fl:
                st = self._set_status(st, fl, "E")
            # a store invalidates atoms that read the same path
            return [self._invalidate(st, lhs)]
        if k == "CompoundAssignOperator" or (k == "UnaryOperator" and n.op in ("++", "--")):
            lhs = n.kids[0].strip()
            if lhs.k == "DeclRefExpr" and lhs.refdecl in self.int_locals:
                vars_, res, ints, atoms = st
                return [(vars_, res, _fs_del(ints, lhs.refdecl), atoms)]
            return [self._invalidate(st, lhs)]
        if k == "CallExpr":
            return [self._call(st, n, ctx)]
        if k == "ReturnStmt":
            self._return(st, n, ctx)
            return [st]
        return [st]

    def _is_local_aggregate(self, lhs):
        """lhs is a field/element of a local struct/array variable (not reached through a pointer)"""
        n = lhs.strip()
        while True:
            if n.k == "MemberExpr" and not n.get("arrow"):
                n = n.kids[0].strip()
            elif n.k == "ArraySubscriptExpr":
                b = n.kids[0].strip()
                if "[" in b.ctype or b.k == "MemberExpr":
                    n = b
                else:
                    return False
            else:
                break
        return n.k == "DeclRefExpr" and n.refkind in ("local",) and not n.ctype.endswith("*")

    def _invalidate(self, st, lhs):
        vars_, res, ints, atoms = st
        if not atoms:
            return st
        key = self._spell(lhs)
        na = frozenset((t, v) for (t, v) in atoms if isinstance(t, tuple) or key not in t)
        if len(na) != len(atoms):
            return (vars_, res, ints, na)
        return st

    def _call(self, st, n, ctx):
        nm = n.callee
        args = n.args()
        if nm in ("memset", "memcpy", "memmove", "strcpy", "strcat", "sprintf") and args:
            a0 = args[0].strip()
            if a0.k == "DeclRefExpr" and a0.refdecl in self.ptr_locals:
                r = dict(st[0]).get(a0.refdecl)
                stt = dict(st[1]).get(r) if r not in (None, "N") else None
                s0 = stt[0] if isinstance(stt, tuple) else stt
                if s0 == "M" and not any(u[0] == r for u in self.unchecked):
                    self.unchecked.append((r, self.ptr_locals.get(a0.refdecl), n, ctx.trace()))
        g = self.P.resolve_call(n, self.fn) if nm else None
        gs = self.summ.get(g.key()) if g is not None else None
        if nm in ADDR_RELEASE and len(args) > ADDR_RELEASE[nm]:
            key = self._addr_key(args[ADDR_RELEASE[nm]])
            if key is not None:
                vars_, res, ints, atoms = st
                r = dict(vars_).get(key)
                if r not in (None, "N"):
                    st = self._set_status(st, {key}, "R")
        if nm in ADDR_ACQUIRE and len(args) > ADDR_ACQUIRE[nm][0]:
            key = self._addr_key(args[ADDR_ACQUIRE[nm][0]])
            if key is not None:
                vars_, res, ints, atoms = st
                cur = dict(vars_).get(key)
                if cur not in (None, "N") and dict(res).get(cur) == "O":
                    self.overwrites.append((cur, key[1], n, ctx.trace()))
                rid = n.id
                self.site_info[rid] = (nm, n.line, re.sub(r"#\d+", "", key[1]))
                tested = self._result_tested(n)
                res = _fs_set(res, rid, ("C", ADDR_ACQUIRE[nm][1]) if tested else "O")
                vars_ = _fs_set(vars_, key, rid)
                st = (vars_, res, ints, atoms)
        for i, a in enumerate(args):
            a_s = a.strip()
            # &var : callee may overwrite the pointer variable
            if a_s.k == "UnaryOperator" and a_s.op == "&" and a_s.kids[0].strip().k == "DeclRefExpr":
                d = a_s.kids[0].strip().refdecl
                if d in self.ptr_locals:
                    vars_, res, ints, atoms = st
                    if nm in ("vasprintf", "asprintf") and i == 0:
                        rid = n.id
                        self.site_info[rid] = (nm, n.line, self.ptr_locals[d])
                        res = _fs_set(res, rid, "M")
                        vars_ = _fs_set(vars_, d, rid)
                        st = (vars_, res, ints, atoms)
                    else:
                        if self.param_res is None:
                            st = self._set_status(st, {d}, "E")
                        vars_, res, ints, atoms = st
                        st = (_fs_del(vars_, d), res, ints, atoms)
                    continue
                if d in self.int_locals:
                    vars_, res, ints, atoms = st
                    st = (vars_, res, _fs_del(ints, d), atoms)
                    continue
            fl = self.flows(a)
            if not fl:
                continue
            eff = "borrow"
            if nm in EXT_RELEASE and EXT_RELEASE[nm] == i:
                eff = "release"
            elif nm in EXT_ESCAPE and EXT_ESCAPE[nm] == i:
                eff = "escape"
            elif nm == "realloc" and i == 0:
                eff = "borrow"     # handled at the assignment (success consumes)
            elif gs is not None:
                e = gs.params.get(i, "borrow")
                if e in ("consume", "may"):
                    eff = "release"
            elif n.get("callee_indirect"):
                eff = "borrow"
            if eff == "release":
                # releasing something that is already released on this path?
                vd0, rd0 = dict(st[0]), dict(st[1])
                for d0 in fl:
                    r0 = vd0.get(d0)
                    if r0 not in (None, "N") and rd0.get(r0) == "R" and nm in EXT_RELEASE:
                        self.double_release.append((r0, self.ptr_locals.get(d0), n, ctx.trace()))
                st = self._set_status(st, fl, "R")
            elif eff == "escape":
                st = self._set_status(st, fl, "E")
        # calls may change memory: drop atoms that read memory (contain '.')
        vars_, res, ints, atoms = st
        if atoms and nm not in ("free", "strerror", "_vnacal_error", "_vnadata_error", "abs", "cabs", "fabs", "isnormal"):
            na = frozenset((t, v) for (t, v) in atoms if isinstance(t, tuple) or ("." not in t and "[" not in t))
            st = (vars_, res, ints, na)
        return st

    def _addr_key(self, arg):
        """identity of the object whose address is passed: ('&', spelled path)"""
        a = arg.strip()
        if a.k == "UnaryOperator" and a.op == "&":
            return ("&", self._spell(a.kids[0]))
        if a.k == "DeclRefExpr" and a.refdecl in self.ptr_locals:
            # a pointer parameter/local that designates the object (e.g. vnssp)
            return ("&", "*" + self._spell(a))
        return None

    def _result_tested(self, call):
        """the call's value is (part of) a branch condition or assigned to a variable that is then tested"""
        n = call
        p = n.parent
        while p is not None and (p.k in ("ParenExpr", "ImplicitCastExpr", "CStyleCastExpr") or
                                 (p.k == "UnaryOperator" and p.op == "!") or
                                 (p.k == "BinaryOperator" and p.op == "=" and p.kids[1].strip().id == call.id) or
                                 (p.k == "BinaryOperator" and p.op in ("==", "!="))):
            n = p
            p = p.parent
        return p is not None and p.k in ("IfStmt", "WhileStmt", "ConditionalOperator") or \
            (p is not None and p.k == "BinaryOperator" and p.op in ("&&", "||"))

    def _return(self, st, n, ctx):
        vars_, res, ints, atoms = st
        vd = dict(vars_)
        rd = dict(res)
        if n.kids and n.kids[0] is not None:
            fl = self.flows(n.kids[0])
            for d in fl:
                r = vd.get(d)
                if r not in (None, "N") and r in rd:
                    stt = rd[r]
                    s0 = stt[0] if isinstance(stt, tuple) else stt
                    if s0 in ("O", "M") and not str(r).startswith("P"):
                        self.returns_owned = True
                    rd[r] = "E"
            acq = self.acquisition(n.kids[0])
            if acq is not None:
                self.returns_owned = True
        self._check_exit(vd, rd, n, ctx)

    def fallthrough(self, st, ctx):
        vars_, res, ints, atoms = st
        self._check_exit(dict(vars_), dict(res), None, ctx)

    def _check_exit(self, vd, rd, retnode, ctx):
        for r, stt in rd.items():
            s0 = stt[0] if isinstance(stt, tuple) else stt
            if str(r).startswith("P"):
                self.exit_status.append(s0)
                continue
            if s0 in ("O",):
                names = [self.ptr_locals.get(d) if not isinstance(d, tuple) else d[1] for d, rr in vd.items() if rr == r]
                self.leaks.append((r, names, retnode, ctx.trace()))

    # --- branches ------------------------------------------------------------
    def _ptr_subject(self, e):
        """variable (decl) whose pointer value a condition operand denotes"""
        e = e.strip()
        if e.k == "DeclRefExpr" and e.refdecl in self.ptr_locals:
            return e.refdecl
        if e.k == "BinaryOperator" and e.op == "=":
            l = e.kids[0].strip()
            if l.k == "DeclRefExpr" and l.refdecl in self.ptr_locals:
                return l.refdecl
        return None

    def _int_subject(self, e):
        e = e.strip()
        if e.k == "DeclRefExpr" and e.refdecl in self.int_locals:
            return e.refdecl
        if e.k == "BinaryOperator" and e.op == "=":
            l = e.kids[0].strip()
            if l.k == "DeclRefExpr" and l.refdecl in self.int_locals:
                return l.refdecl
        return None

    def branch(self, st, cond, truth, ctx):
        c = cond.strip()
        while c.k == "UnaryOperator" and c.op == "!":
            truth = not truth
            c = c.kids[0].strip()
        vars_, res, ints, atoms = st
        # atoms
        at = self._atom_text(c)
        if at is not None and at in self.atoms:
            known = dict(atoms).get(at)
            if known is not None:
                if known != truth:
                    return None
            else:
                atoms = _fs_set(atoms, at, truth)
                st = (vars_, res, ints, atoms)
        # interval facts on never-reassigned int variables
        iv = self._ivar_cond(cond)
        if iv is not None and iv[0] in self.ivars:
            d, op, k = iv
            if not truth:
                op = {"==": "!=", "!=": "==", "<": ">=", ">=": "<", ">": "<=", "<=": ">"}[op]
            key = ("iv", d)
            cur = dict(atoms).get(key, (None, None))
            lo, hi = cur
            if op == "==":
                nlo, nhi = k, k
            elif op == "<":
                nlo, nhi = None, k - 1
            elif op == "<=":
                nlo, nhi = None, k
            elif op == ">":
                nlo, nhi = k + 1, None
            elif op == ">=":
                nlo, nhi = k, None
            else:   # != : only prunes a point interval
                if lo is not None and lo == hi == k:
                    return None
                nlo, nhi = None, None
            if nlo is not None:
                lo = nlo if lo is None else max(lo, nlo)
            if nhi is not None:
                hi = nhi if hi is None else min(hi, nhi)
            if lo is not None and hi is not None and lo > hi:
                return None
            atoms = _fs_set(atoms, key, (lo, hi))
            st = (vars_, res, ints, atoms)
        # result of an acquire-by-address call tested directly
        cc = c
        eq = None
        if cc.k == "BinaryOperator" and cc.op in ("==", "!=") and (cc.kids[1].strip().cv is not None or is_null(cc.kids[1])):
            eq = (cc.op, cc.kids[1].strip().cv if cc.kids[1].strip().cv is not None else 0)
            cc = cc.kids[0].strip()
            if cc.k == "BinaryOperator" and cc.op == "=":        # (anchor = acquire(&obj, ...)) == NULL
                cc = cc.kids[1].strip()
        if cc.k == "CallExpr":
            rd = dict(res)
            stt = rd.get(cc.id)
            if isinstance(stt, tuple) and stt[0] == "C":
                # value of the call on this edge
                if eq is None:
                    nonzero = truth
                    isminus1 = None
                else:
                    op, v = eq
                    equal = truth if op == "==" else not truth
                    nonzero = (not equal) if v == 0 else (True if equal and v != 0 else None)
                    isminus1 = equal if v == -1 else (False if equal else None)
                if stt[1] == "nonzero":
                    ok = nonzero
                else:
                    ok = (not isminus1) if isminus1 is not None else None
                vd = dict(vars_)
                if ok is True or ok is None:
                    rd[cc.id] = "O"
                else:
                    rd.pop(cc.id, None)
                    for dd, rr in list(vd.items()):
                        if rr == cc.id:
                            vd.pop(dd)
                return (frozenset(vd.items()), frozenset(rd.items()), ints, atoms)
        # pointer tests
        subj = None
        is_null_true = None   # cond true means pointer is NULL?
        if c.k == "BinaryOperator" and c.op in ("==", "!="):
            a, b = c.kids[0], c.kids[1]
            if is_null(b) and self._ptr_subject(a) is not None:
                subj = self._ptr_subject(a)
            elif is_null(a) and self._ptr_subject(b) is not None:
                subj = self._ptr_subject(b)
            if subj is not None:
                is_null_true = (c.op == "==")
        else:
            s = self._ptr_subject(c)
            if s is not None:
                subj = s
                is_null_true = False
        if subj is not None:
            null_edge = (truth == is_null_true)
            return self._refine_ptr(st, subj, null_edge)
        # integer tests
        return self._refine_int(st, c, truth)

    def _refine_ptr(self, st, d, null_edge):
        vars_, res, ints, atoms = st
        vd = dict(vars_)
        rd = dict(res)
        r = vd.get(d)
        if r is None:
            return st
        if r == "N":
            return st if null_edge else None
        stt = rd.get(r)
        s0 = stt[0] if isinstance(stt, tuple) else stt
        if s0 == "M":
            if null_edge:
                for dd, rr in list(vd.items()):
                    if rr == r:
                        vd[dd] = "N"
                rd.pop(r, None)
            else:
                rd[r] = "O"
                if isinstance(stt, tuple) and stt[1] is not None and stt[1] in rd:
                    rd[stt[1]] = "R"
            return (frozenset(vd.items()), frozenset(rd.items()), ints, atoms)
        if s0 == "O":
            return None if null_edge else st
        return st

    def _refine_int(self, st, c, truth):
        vars_, res, ints, atoms = st
        idict = dict(ints)
        if c.k == "BinaryOperator" and c.op in ("==", "!=", "<", ">", "<=", ">="):
            a, b = c.kids[0], c.kids[1]
            d = self._int_subject(a)
            cvb = b.strip().cv
            op = c.op
            if d is None:
                d = self._int_subject(b)
                cvb = a.strip().cv
                op = {"<": ">", ">": "<", "<=": ">=", ">=": "<="}.get(op, op)
            if d is not None and cvb is not None:
                v = idict.get(d)
                if v is not None:
                    val = {"==": v == cvb, "!=": v != cvb, "<": v < cvb, ">": v > cvb, "<=": v <= cvb, ">=": v >= cvb}[op]
                    return st if val == truth else None
                if (op == "==" and truth) or (op == "!=" and not truth):
                    return (vars_, res, _fs_set(ints, d, cvb), atoms)
            return st
        d = self._int_subject(c)
        if d is not None:
            v = idict.get(d)
            if v is not None:
                return st if bool(v) == truth else None
            if not truth:
                return (vars_, res, _fs_set(ints, d, 0), atoms)
        return st

    def switch(self, st, cond, case_vals, is_default, all_vals, ctx):
        d = self._int_subject(cond) if cond is not None else None
        if d is None:
            return st
        v = dict(st[2]).get(d)
        if v is None:
            return st
        if is_default:
            return None if v in all_vals else st
        return st if v in case_vals else None


def topo_functions(P):
    """library functions, callees before callers (cycles broken arbitrarily)"""
    fns = list(P.all_functions())
    index = {f.key(): f for f in fns}
    order = []
    state = {}

    def visit(f):
        stack = [(f, iter([P.resolve_call(c, f) for c in f.calls()]))]
        state[f.key()] = 1
        while stack:
            cur, it = stack[-1]
            adv = False
            for g in it:
                if g is None or g.cfg is None:
                    continue
                if state.get(g.key()) is None:
                    state[g.key()] = 1
                    stack.append((g, iter([P.resolve_call(c, g) for c in g.calls()])))
                    adv = True
                    break
            if not adv:
                order.append(cur)
                state[cur.key()] = 2
                stack.pop()

    for f in fns:
        if state.get(f.key()) is None and f.cfg is not None:
            visit(f)
    return order


def compute_summaries(P, max_states=6000):
    """bottom-up summaries: returns_owned and per-parameter consume/may/borrow"""
    if getattr(P, "_res_summaries", None) is not None:
        return P._res_summaries
    summ = {}
    order = topo_functions(P)
    failed = []
    # functions that (transitively) call themselves need a second round
    recursive = set()
    for f in order:
        seen = set()
        st = [f]
        while st:
            x = st.pop()
            for c in x.calls():
                g = P.resolve_call(c, x)
                if g is None or g.cfg is None:
                    continue
                if g is f:
                    recursive.add(f.key())
                    st = []
                    break
                if g.key() not in seen:
                    seen.add(g.key())
                    st.append(g)
    for rnd in range(2):
        for f in order:
            if rnd == 1 and f.key() not in recursive:
                continue
            s = summ.get(f.key()) or Summary()
            try:
                probe = ResTracker(P, f, summ)
                if f.cret.endswith("*"):
                    Engine(f, probe, max_states).run()
                    s.returns_owned = s.returns_owned or probe.returns_owned
                # which pointer parameters have their value passed on, stored or returned at all?
                moving = set()
                for n in f.walk():
                    if n.k == "CallExpr":
                        for a in n.args():
                            moving |= probe.flows(a)
                            a_s = a.strip()
                            if a_s.k == "UnaryOperator" and a_s.op == "&" and a_s.kids[0].strip().k == "DeclRefExpr":
                                moving.add(a_s.kids[0].strip().refdecl)
                    elif n.k == "BinaryOperator" and n.op == "=":
                        moving |= probe.flows(n.kids[1])
                    elif n.k == "VarDecl" and n.kids:
                        moving |= probe.flows(n.kids[0])
                    elif n.k == "ReturnStmt" and n.kids:
                        moving |= probe.flows(n.kids[0])
                for i, p in enumerate(f.params):
                    t = p.get("ct", p.get("t", ""))
                    if not t.endswith("*") or "(" in t:
                        continue
                    if p["decl"] not in moving:
                        s.params[i] = "borrow"
                        continue
                    tr = ResTracker(P, f, summ, param_as_resource=i)
                    Engine(f, tr, max_states).run()
                    ex = tr.exit_status
                    if not ex:
                        eff = "borrow"
                    else:
                        done = [x in ("R", "E") for x in ex]
                        eff = "consume" if all(done) else ("may" if any(done) else "borrow")
                    s.params[i] = eff
            except TooManyStates:
                failed.append(f.key())
            summ[f.key()] = s
    P._res_summaries = summ
    P._res_summary_failed = sorted(set(failed))
    return summ

"""R01 LEAK / R21 CLEANUP-EXIT: every owned local resource is released or handed over on every path."""
from ..core import Finding, RuleResult
from ..flow import Engine, TooManyStates
from ..resources import ResTracker, compute_summaries

PROPS = ("C03", "C12", "C09", "C13")


def props_for(fn):
    p = {"C03"}
    if fn.file in ("vnacal_load.c", "vnadata_load_touchstone.c", "vnadata_load_npd.c", "vnadata_load.c",
                   "vnaproperty_import_yaml_from_string.c", "vnaproperty_import_yaml_from_file.c"):
        p.add("C09")
    if fn.file in ("vnaproperty.c", "vnacal_property.c"):
        p.add("C13")
    return p


def run(P, tier="quick"):
    R = RuleResult("R01", "typestate {maybe-null, owned, released, escaped} of every local that receives an owned "
                   "resource (malloc/calloc/realloc/strdup/vasprintf/fopen or a library function summarised as "
                   "returning an owned object) is propagated path-sensitively over the CFG; no resource may be owned "
                   "at a function exit or overwritten while owned", floor=60)
    summ = compute_summaries(P, 100000)
    nsites = 0
    nfun = 0
    for f in P.lib_functions():
        if f.cfg is None:
            continue
        tr = ResTracker(P, f, summ)
        try:
            eng = Engine(f, tr, 100000 if tier == "quick" else 2000000).run()
        except TooManyStates as e:
            R.unclassified("R01|%s|%s" % (f.file, f.name), str(e), props_for(f))
            continue
        nfun += 1
        # allocation sites seen
        sites = dict(tr.site_info)
        leaked = {}
        for rid, names, ret, trace in tr.leaks:
            leaked.setdefault(rid, (names, ret, trace))
        for rid, name, node, trace in tr.overwrites:
            leaked.setdefault(rid, ([name], node, trace + ["overwritten while owned"]))
        for rid, name, node, trace in tr.double_release:
            callee, line, var = sites.get(rid, ("?", 0, name))
            R.violated(Finding("R01", props_for(f) | {"C12"}, f.file, f.name, "double-release:%s" % var,
                               "%s obtained from %s() at line %d is released a second time at line %d on a path where it "
                               "was already released" % (var, callee, line, node.line), node.line, trace))
        for rid, name, node, trace in tr.unchecked:
            callee, line, var = sites.get(rid, ("?", 0, name))
            R.violated(Finding("R19", {"C12", "C03"}, f.file, f.name, "unchecked:%s<-%s" % (var, callee),
                               "%s receives the result of %s() at line %d and is dereferenced at line %d before being tested "
                               "for NULL" % (var, callee, line, node.line), node.line, trace))
        for rid, (callee, line, var) in sites.items():
            nsites += 1
            key_anchor = "%s<-%s" % (var, callee)
            if rid in leaked:
                names, ret, trace = leaked[rid]
                how = "return at line %d" % ret.line if ret is not None and ret.k == "ReturnStmt" else \
                    ("overwritten at line %d" % ret.line if ret is not None else "end of function")
                pr = props_for(f)
                # is this an allocation-failure / error continuation?  C12 claims those too
                pr.add("C12")
                R.violated(Finding("R01", pr, f.file, f.name, key_anchor,
                                   "%s allocated by %s() at line %d is still owned at %s" % (var, callee, line, how),
                                   line, trace))
            else:
                R.ok("R01|%s|%s|%s" % (f.file, f.name, key_anchor), props_for(f) | {"C12"})
    R.counts["functions_analysed"] = nfun
    R.counts["acquisition_sites_tracked"] = nsites
    R.counts["summaries_returning_owned"] = sorted(k for k, s in summ.items() if s.returns_owned)
    R.counts["summaries_consuming_param"] = sorted("%s#%d:%s" % (k, i, e) for k, s in summ.items() for i, e in s.params.items() if e != "borrow")
    R.check_floor()
    return R

"""R02 DESTRUCTOR-COMPLETE (C03, C16): what an object's fields own, the object's destructor releases.

Owned fields are discovered: a pointer member M of structure type T is *owned* when some library function stores
into `X->M` (X of type T*) the result of malloc/calloc/realloc/strdup or of a library constructor (a function whose
summary says it returns an owned object), or stores an owned object into an element `X->M[i]`.
Destructors are discovered: a function that passes its first parameter (type T*) to free().
For each T with a destructor D, every owned member M must be *released somewhere in the call closure of D*: it
appears (directly, subscripted, or through a local copy) in an argument of free()/realloc() or of another
destructor, or its address/value is handed to a function of the closure that does so.  The comparison is by
(structure, member) so a member of the same name in another structure does not count.
A member that is owned but never released by the destructor leaks with every object - on the ordinary
create/use/free sequence, no failure needed.
"""
from ..core import Finding, RuleResult
from ..facts import AnalysisBroken

PROPS = ("C03", "C16")
ALLOCS = ("malloc", "calloc", "realloc", "strdup", "strndup")


def struct_of(m):
    """type of the object a MemberExpr selects from, without const/pointer"""
    t = (m.kids[0].strip().ctype or "") if m.kids else ""
    return t.replace("const ", "").replace("struct ", "").replace("*", "").strip()


def run(P, tier="quick"):
    R = RuleResult("R02", "every pointer member that receives an owned allocation somewhere in the library is released in the "
                   "call closure of its structure's destructor", floor=10)
    from ..resources import compute_summaries
    try:
        summ = compute_summaries(P)
    except Exception:
        summ = {}
    owned_ret = {k.split(":")[-1] for k, v in summ.items() if getattr(v, "returns_owned", False)} if isinstance(summ, dict) else set()
    # ---- destructors by structure type
    dtor = {}
    for f in P.lib_functions():
        if f.body is None or not f.params:
            continue
        p0 = f.params[0]
        t0 = p0.get("ct", p0["t"]).replace("const ", "").replace("struct ", "").replace("*", "").strip()
        for c in f.calls("free"):
            a = c.args()[0].strip() if c.args() else None
            if a is not None and a.k == "DeclRefExpr" and a.refdecl == p0["decl"]:
                dtor.setdefault(t0, f)
    # objects released through the enclosing public type (vnadata_free releases the internal structure)
    alias = {"vnadata_t": "vnadata_internal_t"}
    for pub, internal in alias.items():
        for f in P.lib_functions():
            if f.body is not None and f.params and pub in f.params[0].get("ct", f.params[0]["t"]) and f.name.endswith("_free") and \
                    any(c.callee == "free" for c in f.calls()):
                dtor.setdefault(internal, f)
    if len(dtor) < 5:
        raise AnalysisBroken("R02: only %d destructors found" % len(dtor))
    # ---- owned members
    owned = {}
    for f in P.lib_functions():
        if f.body is None:
            continue
        for n in f.walk():
            if n.k != "BinaryOperator" or n.op != "=":
                continue
            l = n.kids[0].strip()
            elem = False
            if l.k == "ArraySubscriptExpr" and l.kids[0].strip().k == "MemberExpr":
                l = l.kids[0].strip()
                elem = True
            if l.k != "MemberExpr" or "*" not in (l.ctype or ""):
                continue
            r = n.kids[1].strip()
            while r.k == "BinaryOperator" and r.op == "=":
                r = r.kids[1].strip()
            src = None
            if r.k == "CallExpr" and (r.callee in ALLOCS or r.callee in owned_ret):
                src = r.callee
            elif r.k == "DeclRefExpr" and r.refkind == "local":
                # local that was assigned from an allocation in this function
                for m in f.walk():
                    if m.k == "BinaryOperator" and m.op == "=" and m.kids[0].strip().k == "DeclRefExpr" and \
                            m.kids[0].strip().refdecl == r.refdecl:
                        rr = m.kids[1].strip()
                        if rr.k == "CallExpr" and (rr.callee in ALLOCS or rr.callee in owned_ret):
                            src = rr.callee
                    if m.k == "VarDecl" and m.get("decl") == r.refdecl and m.kids and m.kids[0].strip().k == "CallExpr" and \
                            (m.kids[0].strip().callee in ALLOCS or m.kids[0].strip().callee in owned_ret):
                        src = m.kids[0].strip().callee
            if src is None:
                continue
            owned.setdefault((struct_of(l), l.member), (f, n, src, elem))
    # ---- released members in the closure of each destructor
    callees = {}

    def closure(f):
        seen, st = {f.key(): f}, [f]
        while st:
            g = st.pop()
            for c in g.calls():
                h = P.resolve_call(c, g)
                if h is not None and h.body is not None and h.key() not in seen:
                    seen[h.key()] = h
                    st.append(h)
        return list(seen.values())
    dnames = {d.name for d in dtor.values()} | {"free", "realloc"}
    n_owned = 0
    for (T, M), (f, n, src, elem) in sorted(owned.items()):
        D = dtor.get(T)
        if D is None:
            continue
        n_owned += 1
        key = "R02|%s|%s|owned:%s.%s" % (D.file, D.name, T, M)
        released = False
        for g in closure(D):
            # locals that copy the member
            copies = set()
            for v in g.walk():
                src_e = None
                if v.k == "VarDecl" and v.kids:
                    src_e, tgt = v.kids[0], v.get("decl")
                elif v.k == "BinaryOperator" and v.op == "=" and v.kids[0].strip().k == "DeclRefExpr":
                    src_e, tgt = v.kids[1], v.kids[0].strip().refdecl
                if src_e is not None and any(m.k == "MemberExpr" and m.member == M and struct_of(m) == T for m in src_e.walk()):
                    copies.add(tgt)
            for c in g.calls():
                if c.callee not in dnames and not (c.callee or "").endswith("_free") and c.callee != "vnaproperty_delete":
                    continue
                for a in c.args():
                    for m in a.walk():
                        if (m.k == "MemberExpr" and m.member == M and struct_of(m) == T) or \
                                (m.k == "DeclRefExpr" and m.refdecl in copies):
                            released = True
            if released:
                break
        if released:
            R.ok(key, PROPS)
        else:
            R.violated(Finding("R02", PROPS, D.file, D.name, "owned:%s.%s" % (T, M),
                               "%s.%s receives an owned object (%s() in %s(), line %d) but %s() and the functions it calls never "
                               "release it%s: it leaks with every %s" %
                               (T, M, src, f.name, n.line, D.name, " or its elements" if elem else "", T), D.line))
    R.counts["destructors"] = len(dtor)
    R.counts["owned_members"] = n_owned
    R.check_floor()
    return R

"""R03 DELETE-FREES-CHILD and SHIFT-EXTENT (C13, C03): the property containers' element operations.

DELETE-FREES-CHILD  the two container delete operations are siblings: map_delete releases
                    the removed value with vnaproperty_free before unlinking it, so
                    list_delete must release vpl_vector[index] before it is overwritten.
SHIFT-EXTENT        memmove(&v[d], &v[s], n * sizeof) inside a vector with logical length L:
                    the source range [s, s+n) must lie inside [0, L) and the destination
                    range inside the allocation that was ensured (L+1 after
                    list_check_allocation(L+1)); the counts are compared as polynomials.
DELETE-REACHES      every success path of vnaproperty_vdelete for an element expression
                    passes through map_delete / list_delete (no early "nothing to do" exit).
"""
from ..core import Finding, RuleResult
from ..facts import AnalysisBroken
from ..poly import Poly
from ..flow import Engine
from ..consttrack import ConstTracker

FILE = "vnaproperty.c"
PROPS = {"C13", "C03"}


def _poly(e, names):
    e = e.strip()
    if e.cv is not None and e.k != "BinaryOperator":
        return Poly.const(e.cv)
    if e.k == "DeclRefExpr":
        return Poly.sym(e.refname)
    if e.k == "MemberExpr":
        return Poly.sym(e.member)
    if e.k == "BinaryOperator" and e.op in ("+", "-", "*"):
        a, b = _poly(e.kids[0], names), _poly(e.kids[1], names)
        return a + b if e.op == "+" else (a - b if e.op == "-" else a * b)
    if e.k == "UnaryExprOrTypeTraitExpr":
        return Poly.sym("SIZEOF")
    return Poly.sym(e.text())


def run(P, tier="quick"):
    R = RuleResult("R03", "container delete operations release the removed child; element shifts stay inside the logical "
                   "length / ensured allocation; vnaproperty_vdelete always reaches the container delete operation", floor=3)
    md = P.need_func("map_delete", FILE)
    ld = P.need_func("list_delete", FILE)
    # sibling: map_delete frees the value
    mfree = [c for c in md.calls("vnaproperty_free")]
    if not mfree:
        raise AnalysisBroken("map_delete no longer calls vnaproperty_free: sibling reference lost")
    lfree = [c for c in ld.calls("vnaproperty_free") if "vpl_vector" in c.args()[0].text()]
    shifts = [c for c in ld.calls("memmove")]
    if lfree and (not shifts or ld.cfg.node_dominates(lfree[0], shifts[0])):
        R.ok("R03|%s|list_delete|frees-removed-child" % FILE, PROPS)
    else:
        R.violated(Finding("R03", PROPS, FILE, "list_delete", "frees-removed-child",
                           "map_delete releases the removed value with vnaproperty_free, list_delete overwrites vpl_vector[index] "
                           "without releasing it: every deleted list element (and its subtree) is leaked", ld.line))
    # SHIFT-EXTENT
    for f in P.by_file.get(FILE, []):
        for c in f.calls("memmove"):
            a = c.args()
            d, s, n = a[0].strip(), a[1].strip(), a[2].strip()
            if not (d.k == "UnaryOperator" and d.op == "&" and s.k == "UnaryOperator" and s.op == "&"):
                continue
            dsub, ssub = d.kids[0].strip(), s.kids[0].strip()
            if dsub.k != "ArraySubscriptExpr" or ssub.k != "ArraySubscriptExpr":
                continue
            arr = dsub.kids[0].strip()
            if arr.k != "MemberExpr" or arr.member != "vpl_vector":
                continue
            di, si = _poly(dsub.kids[1], None), _poly(ssub.kids[1], None)
            # n = count * sizeof
            cnt = None
            if n.k == "BinaryOperator" and n.op == "*":
                for x, y in ((n.kids[0], n.kids[1]), (n.kids[1], n.kids[0])):
                    if y.strip().k == "UnaryExprOrTypeTraitExpr":
                        cnt = _poly(x, None)
            key = "R03|%s|%s|shift-extent" % (FILE, f.name)
            if cnt is None:
                R.unclassified(key, "memmove length is not count * sizeof", PROPS)
                continue
            L = Poly.sym("vpl_length")
            src_slack = L - (si + cnt)                 # >= 0 : source stays inside the logical length
            # the destination may use one more slot only if list_check_allocation(L + 1) was called before
            ensured = L
            for cc in f.calls("list_check_allocation"):
                if f.cfg.node_dominates(cc, c):
                    ensured = _poly(cc.args()[1], None)
            dst_slack = ensured - (di + cnt)
            bad = []
            for nm, sl in (("source", src_slack), ("destination", dst_slack)):
                v = sl.const_value()
                if v is None or v < 0:
                    bad.append("%s range ends at index %s of %s elements (slack %s)" %
                               (nm, (si if nm == "source" else di) + cnt, L if nm == "source" else ensured, sl))
            if bad:
                R.violated(Finding("R03", PROPS, FILE, f.name, "shift-extent", "memmove of vpl_vector: " + "; ".join(bad) +
                                   ": one element beyond the list is read or written", c.line))
            else:
                R.ok(key, PROPS)
    # DELETE-REACHES
    vd = P.need_func("vnaproperty_vdelete", FILE)

    class T(ConstTracker):
        def __init__(self, fn):
            ConstTracker.__init__(self, fn)
            self.bad = None
            self.nsucc = 0
            self.retvars = {r.kids[0].strip().refdecl for r in fn.returns() if r.kids and r.kids[0].strip().k == "DeclRefExpr"}

        def on_node(self, ints, extra, n, ctx):
            if n.k == "BinaryOperator" and n.op == "=" and n.kids[0].strip().k == "DeclRefExpr" and \
                    n.kids[0].strip().refdecl in self.retvars:
                extra = frozenset(x for x in extra if not (isinstance(x, tuple) and x[0] == "rv"))
                extra = extra | {("rv", n.kids[1].strip().cv)}
            if n.k == "VarDecl" and n.get("decl") in self.retvars and n.kids:
                extra = extra | {("rv", n.kids[0].strip().cv)}
            if n.k == "CallExpr" and n.callee in ("map_delete", "list_delete", "vnaproperty_free"):
                return extra | {"deleted"}
            if n.k == "CallExpr" and n.callee == "parse_and_descend":
                return extra | {"parsed"}
            if n.k == "ReturnStmt" and n.kids:
                e = n.kids[0].strip()
                v = e.cv
                if v is None and e.k == "DeclRefExpr":
                    v = dict(ints).get(e.refdecl)
                    for x in extra:
                        if isinstance(x, tuple) and x[0] == "rv":
                            v = x[1]
                if (v == 0 or v is None) and "parsed" in extra:
                    self.nsucc += 1
                    if "deleted" not in extra and v == 0 and self.bad is None:
                        self.bad = (n, ctx.trace())
            return extra
    t = T(vd)
    Engine(vd, t, 100000).run()
    if t.nsucc == 0:
        raise AnalysisBroken("vnaproperty_vdelete: no success path found")
    if t.bad is None:
        R.ok("R03|%s|vnaproperty_vdelete|success-implies-delete" % FILE, PROPS)
    else:
        n, trace = t.bad
        R.violated(Finding("R03", {"C13"}, FILE, "vnaproperty_vdelete", "success-implies-delete",
                           "vnaproperty_vdelete can return 0 (line %d) without having called map_delete, list_delete or "
                           "vnaproperty_free: the addressed entry stays in its collection" % n.line, n.line, trace))
    # VACATED-NULL: list_subtree raises vpl_length in one step (sparse extend) and does not write the slots it
    # exposes: it relies on "every slot in [vpl_length, vpl_allocation) is NULL".  list_check_allocation keeps that
    # for new memory (memset of the tail); every function that *lowers* vpl_length must keep it for the slot it vacates
    from ..util import is_null as _is_null
    growers, shrinkers = [], []
    for f in P.by_file.get(FILE, []):
        if f.body is None:
            continue
        for n in f.walk():
            if n.k == "BinaryOperator" and n.op == "=" and n.kids[0].strip().k == "MemberExpr" and \
                    n.kids[0].strip().member == "vpl_length" and n.kids[1].strip().cv != 0:
                wrote = any(m.k == "BinaryOperator" and m.op == "=" and m.kids[0].strip().k == "ArraySubscriptExpr" and
                            m.kids[0].strip().kids[0].strip().k == "MemberExpr" and
                            m.kids[0].strip().kids[0].strip().member == "vpl_vector" for m in f.walk())
                if not wrote:
                    growers.append((f, n))
            if n.k == "UnaryOperator" and n.op == "--" and n.kids[0].strip().k == "MemberExpr" and \
                    n.kids[0].strip().member == "vpl_length":
                shrinkers.append((f, n))
            if n.k == "CompoundAssignOperator" and n.op == "-=" and n.kids[0].strip().k == "MemberExpr" and \
                    n.kids[0].strip().member == "vpl_length":
                shrinkers.append((f, n))
    if not growers or not shrinkers:
        raise AnalysisBroken("vnaproperty.c: sparse-extend of vpl_length (%d) or shrink of vpl_length (%d) not found" %
                             (len(growers), len(shrinkers)))
    for (f, n) in shrinkers:
        key = "R03|%s|%s|vacated-null" % (FILE, f.name)
        cleared = False
        for m in f.walk():
            if m.k == "BinaryOperator" and m.op == "=" and _is_null(m.kids[1]):
                l = m.kids[0].strip()
                if l.k == "ArraySubscriptExpr" and l.kids[0].strip().k == "MemberExpr" and l.kids[0].strip().member == "vpl_vector":
                    idx = l.kids[1].strip()
                    # v[--len] = NULL   or   --len; ... v[len] = NULL (after the decrement)
                    if (idx.k == "UnaryOperator" and idx.op == "--" and idx.kids[0].strip().k == "MemberExpr" and
                            idx.kids[0].strip().member == "vpl_length") or \
                            (idx.k == "MemberExpr" and idx.member == "vpl_length" and m.line >= n.line):
                        cleared = True
        if cleared:
            R.ok(key, {"C13", "C03"})
        else:
            g = growers[0]
            R.violated(Finding("R03", {"C13", "C03"}, FILE, f.name, "vacated-null",
                               "%s lowers vpl_length (line %d) without storing NULL in the slot it vacates; %s (line %d) raises "
                               "vpl_length past the end without writing the slots in between, so the stale pointer reappears as a "
                               "list element (a dangling one if the last element was deleted)" %
                               (f.name, n.line, g[0].name, g[1].line), n.line))
    # WRAPPER-ANCHOR: the vnacal_property_* wrappers hand the library the address of the root pointer stored in
    # the calibration (what _get_property_root returned); the address of a local copy would lose a new root
    from ..canon import Canon
    MUT = {"vnaproperty_vset": 0, "vnaproperty_vdelete": 0, "vnaproperty_vset_subtree": 0}
    READ = {"vnaproperty_vtype": 0, "vnaproperty_vcount": 0, "vnaproperty_vkeys": 0, "vnaproperty_vget": 0,
            "vnaproperty_vget_subtree": 0}
    nw = 0
    for f in P.by_file.get("vnacal_property.c", []):
        CN = Canon(f)
        for c in f.calls():
            if c.callee in MUT or c.callee in READ:
                nw += 1
                a0 = CN.path(c.args()[0])
                want = "_get_property_root($0,$1)" if c.callee in MUT else "*_get_property_root($0,$1)"
                key = "R03|vnacal_property.c|%s|anchor:%s" % (f.name, c.callee)
                if a0 == want:
                    R.ok(key, {"C13"})
                else:
                    R.violated(Finding("R03", {"C13"}, "vnacal_property.c", f.name, "anchor:" + c.callee,
                                       "%s is called with %s instead of %s: changes to the root (creation or replacement) "
                                       "do not reach the calibration's own root pointer" % (c.callee, a0, want), c.line))
    if nw < 8:
        raise AnalysisBroken("vnacal_property.c: only %d wrapper calls found" % nw)
    # WRAPPER-VERB: vnacal_property_<verb> forwards to vnaproperty_v<verb> and to no other descriptor function
    # (a "get" that forwards to vset creates keys, replaces nodes and extends lists on a query)
    nv_ = 0
    for f in P.by_file.get("vnacal_property.c", []):
        if not f.name.startswith("vnacal_property_") or f.body is None:
            continue
        verb = f.name[len("vnacal_property_"):]
        calls = [c for c in f.calls() if c.callee in MUT or c.callee in READ]
        if not calls:
            continue
        nv_ += 1
        key = "R03|vnacal_property.c|%s|verb" % f.name
        wrong = [c for c in calls if c.callee != "vnaproperty_v" + verb]
        if not wrong:
            R.ok(key, {"C13"})
        else:
            c = wrong[0]
            R.violated(Finding("R03", {"C13"}, "vnacal_property.c", f.name, "verb",
                               "%s forwards to %s instead of vnaproperty_v%s: %s" %
                               (f.name, c.callee, verb, "a query function modifies the tree" if c.callee in MUT and
                                "vnaproperty_v" + verb in READ else "the wrapper does not do what its name says"), c.line))
    if nv_ < 8:
        raise AnalysisBroken("vnacal_property.c: only %d vnacal_property_* wrappers found" % nv_)
    # IDCHAR-CLASSES: quote_key must classify the first and the following characters with the scanner's own macros
    qk = P.need_func("vnaproperty_quote_key", FILE)
    sc = P.need_func("scan", FILE)

    def id_macros(fn):
        first, rest = set(), set()
        for n in fn.walk():
            for m in n.macros:
                if m in ("ISIDCHAR1", "ISIDCHAR") and n.get("marg"):
                    # the macro argument: key[0] / key[i] / scnp->scn_cur
                    if n.k == "ArraySubscriptExpr":
                        idx = n.kids[1].strip()
                        (first if idx.cv == 0 else rest).add(m)
        return first, rest
    qf, qr = id_macros(qk)
    sm = {m for n in sc.walk() for m in n.macros if m in ("ISIDCHAR1", "ISIDCHAR")}
    if sm != {"ISIDCHAR1", "ISIDCHAR"}:
        raise AnalysisBroken("scan(): identifier character macros not found")
    if qf == {"ISIDCHAR1"} and qr == {"ISIDCHAR"}:
        R.ok("R03|%s|vnaproperty_quote_key|idchar-classes" % FILE, {"C13"})
    else:
        R.violated(Finding("R03", {"C13"}, FILE, "vnaproperty_quote_key", "idchar-classes",
                           "quote_key tests key[0] with %s and key[i>0] with %s; the scanner starts identifiers with ISIDCHAR1 and "
                           "continues them with ISIDCHAR, so keys are quoted differently from how they are scanned" %
                           (sorted(qf) or "nothing", sorted(qr) or "nothing"), qk.line))
    R.check_floor()
    return R

"""R05 NULL-CONTRADICTION (C03, C02, C13): a pointer is dereferenced and the same value is then tested for NULL.

(a) If a local pointer is dereferenced (p->f, p[i], *p) at A and compared with NULL at B,
    A executes on every path to B and p is not assigned in between, then either the test is
    dead or the dereference can fault: the code states two contradictory beliefs.  It is
    reported when the pointer's value comes from a table whose slots are legitimately NULL
    or from a parameter - i.e. whenever the test is the only evidence that NULL is possible.
(b) A pointer that is assigned the literal NULL and is dereferenced on a path on which it
    has not been assigned again.
"""
from ..core import Finding, RuleResult
from ..flow import Engine, Tracker, TooManyStates
from ..util import is_null

PROPS = {"C03"}


class NullTracker(Tracker):
    """state: frozenset of ('deref', decl, node id) / ('null', decl, node id)"""

    def __init__(self, fn):
        self.fn = fn
        self.ptrs = {}
        for n in fn.walk():
            if n.k == "VarDecl" and n.ctype.endswith("*") and not n.get("static"):
                self.ptrs[n.get("decl")] = n.get("name")
        for p in fn.params:
            if p.get("ct", p["t"]).endswith("*"):
                self.ptrs[p["decl"]] = p["name"]
        self.contra = {}
        self.nullderef = {}
        self.ntests = 0

    def initial(self, fn):
        return frozenset()

    def _kill(self, st, d):
        return frozenset(x for x in st if x[1] != d)

    def step(self, st, n, ctx):
        k = n.k
        if k == "VarDecl" and n.get("decl") in self.ptrs:
            st = self._kill(st, n.get("decl"))
            if n.kids and is_null(n.kids[0]):
                st = st | {("null", n.get("decl"), n.id)}
            return [st]
        if k == "BinaryOperator" and n.op == "=":
            l = n.kids[0].strip()
            if l.k == "DeclRefExpr" and l.refdecl in self.ptrs:
                st = self._kill(st, l.refdecl)
                r = n.kids[1].strip()
                while r.k == "BinaryOperator" and r.op == "=":
                    r = r.kids[1].strip()
                if is_null(r):
                    st = st | {("null", l.refdecl, n.id)}
                return [st]
        if k == "UnaryOperator" and n.op in ("++", "--") and n.kids[0].strip().k == "DeclRefExpr":
            return [self._kill(st, n.kids[0].strip().refdecl)]
        if k == "CallExpr":
            for a in n.args():
                a = a.strip()
                if a.k == "UnaryOperator" and a.op == "&" and a.kids[0].strip().k == "DeclRefExpr":
                    st = self._kill(st, a.kids[0].strip().refdecl)
            return [st]
        base = None
        if k == "MemberExpr" and n.get("arrow"):
            base = n.kids[0].strip()
        elif k == "ArraySubscriptExpr":
            base = n.kids[0].strip()
        elif k == "UnaryOperator" and n.op == "*":
            base = n.kids[0].strip()
        if base is not None and base.k == "DeclRefExpr" and base.refdecl in self.ptrs:
            d = base.refdecl
            for x in st:
                if x[0] == "null" and x[1] == d:
                    self.nullderef.setdefault(d, (n, self.fn.by_id.get(x[2]), ctx.trace()))
            if not any(x[0] in ("deref", "nonnull") and x[1] == d for x in st):
                st = st | {("deref", d, n.id)}
        return [st]

    def branch(self, st, cond, truth, ctx):
        c = cond.strip()
        while c.k == "UnaryOperator" and c.op == "!":
            truth = not truth
            c = c.kids[0].strip()
        subj = None
        nulltrue = None
        if c.k == "BinaryOperator" and c.op in ("==", "!=") and c.kids[0].strip().k == "BinaryOperator" and \
                c.kids[0].strip().op == "=" and is_null(c.kids[1]):
            # (p = f(...)) == NULL
            l = c.kids[0].strip().kids[0].strip()
            if l.k == "DeclRefExpr" and l.refdecl in self.ptrs:
                subj, nulltrue = l.refdecl, (c.op == "==")
        elif c.k == "BinaryOperator" and c.op in ("==", "!="):
            a, b = c.kids[0].strip(), c.kids[1].strip()
            if is_null(b) and a.k == "DeclRefExpr" and a.refdecl in self.ptrs:
                subj, nulltrue = a.refdecl, (c.op == "==")
            elif is_null(a) and b.k == "DeclRefExpr" and b.refdecl in self.ptrs:
                subj, nulltrue = b.refdecl, (c.op == "==")
        elif c.k == "DeclRefExpr" and c.refdecl in self.ptrs:
            subj, nulltrue = c.refdecl, False
        if subj is None:
            return frozenset((("nullweak",) + x[1:]) if x[0] == "null" else x for x in st)
        if truth:       # count each test once
            self.ntests += 1
        for x in st:
            if x[0] == "deref" and x[1] == subj:
                self.contra.setdefault(subj, (self.fn.by_id.get(x[2]), cond, ctx.trace()))
        null_edge = (truth == nulltrue)
        # any conditional branch weakens "holds the literal NULL" facts of other pointers (flag-correlated paths)
        st = frozenset((("nullweak",) + x[1:]) if (x[0] == "null" and x[1] != subj) else x for x in st)
        if null_edge:
            return frozenset(x for x in st if not (x[0] in ("nonnull",) and x[1] == subj)) | {("nullweak", subj, cond.strip().id)}
        return frozenset(x for x in st if not (x[0] in ("null", "nullweak") and x[1] == subj)) | {("nonnull", subj, 0)}


def run(P, tier="quick"):
    R = RuleResult("R05", "no local pointer is dereferenced on every path leading to a NULL test of the same value; no pointer "
                   "holding the literal NULL reaches a dereference", floor=80)
    ntests = 0
    for f in P.lib_functions():
        if f.cfg is None:
            continue
        tr = NullTracker(f)
        try:
            Engine(f, tr, 200000).run()
        except TooManyStates as e:
            R.unclassified("R05|%s|%s" % (f.file, f.name), str(e), PROPS)
            continue
        ntests += tr.ntests
        props = set(PROPS)
        if f.file.startswith("vnacal_new_solve"):
            props |= {"C02", "C01"}
        if f.file.startswith("vnaproperty"):
            props.add("C13")
        if f.file in ("vnacal_load.c", "vnadata_load_npd.c", "vnadata_load_touchstone.c"):
            props.add("C09")
        bad = False
        for d, (deref, cond, trace) in tr.contra.items():
            # an assert(p != NULL) after a dereference is a redundant belief, not a contradiction worth an alarm
            if any("__assert_fail" in (c.callee or "") for c in cond.parent.calls()) if cond.parent is not None else False:
                continue
            if "assert" in " ".join(cond.macros) or any("assert" in m for a in cond.ancestors() for m in a.macros):
                continue
            bad = True
            R.violated(Finding("R05", props, f.file, f.name, "deref-then-test:%s" % tr.ptrs[d],
                               "'%s' is dereferenced at line %d (%s) and then tested for NULL at line %d with no assignment in "
                               "between: if it can be NULL the dereference faults first" %
                               (tr.ptrs[d], deref.line if deref is not None else 0, deref.text()[:40] if deref is not None else "",
                                cond.line), cond.line, trace))
        for d, (n, src, trace) in tr.nullderef.items():
            bad = True
            R.violated(Finding("R05", props, f.file, f.name, "null-deref:%s" % tr.ptrs[d],
                               "'%s' holds NULL (line %d) when it is dereferenced at line %d (%s)" %
                               (tr.ptrs[d], src.line if src is not None else 0, n.line, n.text()[:40]), n.line, trace))
        if not bad and tr.ntests:
            R.ok("R05|%s|%s" % (f.file, f.name), props)
    R.counts["null_tests_examined"] = ntests
    R.check_floor()
    return R

"""R06 UNINIT-BELIEF (C09, C03, C12): tables whose empty slots are believed to be NULL are initialised; returned scalars are assigned.

(a) A local array of pointers declared without initialiser whose elements are
    compared with NULL (the code believes "unset == NULL") must be wholly
    initialised - initialiser, memset(A, 0, ...) or a counted loop storing
    into A[i] for the whole extent - on every path before the first such
    comparison and before the array is handed to a callee.
(b) A scalar local that is returned must be definitely assigned on every path
    to that return.
"""
from ..core import Finding, RuleResult
from ..flow import Engine, Tracker, TooManyStates
from ..util import is_null


class InitTracker(Tracker):
    def __init__(self, fn, arrays, scalars):
        self.fn = fn
        self.arrays = arrays       # decl -> name
        self.scalars = scalars     # decl -> name
        self.bad_reads = {}        # decl -> (node, kind)
        self.bad_returns = {}

    def initial(self, fn):
        return frozenset()

    def _arr_of(self, e):
        e = e.strip()
        if e.k == "DeclRefExpr" and e.refdecl in self.arrays:
            return e.refdecl
        if e.k == "UnaryOperator" and e.op == "&":
            x = e.kids[0].strip()
            while x.k == "ArraySubscriptExpr":
                x = x.kids[0].strip()
            if x.k == "DeclRefExpr" and x.refdecl in self.arrays:
                return x.refdecl
        return None

    def step(self, st, n, ctx):
        k = n.k
        if k == "CallExpr":
            args = n.args()
            if n.callee in ("memset", "bzero") and args:
                d = self._arr_of(args[0])
                if d is not None:
                    return [st | {d}]
            for a in args:
                d = self._arr_of(a)
                if d is not None and d not in st and n.callee not in ("memset", "bzero", "sizeof"):
                    self.bad_reads.setdefault(d, (n, "passed to %s()" % (n.callee or "a function")))
        elif k == "BinaryOperator" and n.op in ("==", "!="):
            for a, b in ((n.kids[0], n.kids[1]), (n.kids[1], n.kids[0])):
                a_s = a.strip()
                if is_null(b) and a_s.k == "ArraySubscriptExpr":
                    x = a_s.kids[0].strip()
                    if x.k == "DeclRefExpr" and x.refdecl in self.arrays and x.refdecl not in st:
                        self.bad_reads.setdefault(x.refdecl, (n, "compared with NULL"))
        elif k == "BinaryOperator" and n.op == "=":
            l = n.kids[0].strip()
            if l.k == "DeclRefExpr" and l.refdecl in self.scalars:
                return [st | {l.refdecl}]
            if l.k == "ArraySubscriptExpr":
                x = l.kids[0].strip()
                if x.k == "DeclRefExpr" and x.refdecl in self.arrays and x.refdecl not in st:
                    # covering loop: for (i = 0; i < EXTENT; ++i) A[i] = ...
                    for anc in n.ancestors():
                        if anc.k == "ForStmt":
                            idx = l.kids[1].strip()
                            init = anc.kids[0]
                            iv = None
                            if init is not None and init.k == "DeclStmt" and init.kids and init.kids[0].kids and init.kids[0].kids[0].cv == 0:
                                iv = init.kids[0].get("decl")
                            elif init is not None and init.strip().k == "BinaryOperator" and init.strip().kids[1].strip().cv == 0:
                                iv = init.strip().kids[0].strip().refdecl
                            if iv is not None and idx.k == "DeclRefExpr" and idx.refdecl == iv:
                                # accepted as initialising loop (extent equality is R13's business)
                                return [st | {("loop", x.refdecl)}]
                            break
        elif k == "VarDecl":
            d = n.get("decl")
            if d in self.scalars and n.kids:
                return [st | {d}]
            # `for (int i = 0; i < K; ++i) A[i] = ...;` with a constant K > 0 runs at least once and covers A: the
            # zero-iteration path of such a loop is infeasible, so A counts as initialised from the loop's start
            if n.kids and n.kids[0] is not None and n.kids[0].strip().cv == 0:
                loop = n.parent.parent if n.parent is not None else None
                if loop is not None and loop.k == "ForStmt" and loop.kids[2] is not None:
                    c = loop.kids[2].strip()
                    if c.k == "BinaryOperator" and c.op == "<" and c.kids[0].strip().k == "DeclRefExpr" and \
                            c.kids[0].strip().refdecl == d and (c.kids[1].strip().cv or 0) > 0 and loop.kids[4] is not None:
                        add = set()
                        for m in loop.kids[4].walk():
                            if m.k == "BinaryOperator" and m.op == "=" and m.kids[0].strip().k == "ArraySubscriptExpr":
                                l = m.kids[0].strip()
                                x, i = l.kids[0].strip(), l.kids[1].strip()
                                if x.k == "DeclRefExpr" and x.refdecl in self.arrays and i.k == "DeclRefExpr" and i.refdecl == d and \
                                        not any(a.k in ("IfStmt", "SwitchStmt") for a in m.ancestors() if loop.kids[4].is_ancestor_of(a)):
                                    add.add(x.refdecl)
                        if add:
                            return [st | add]
        elif k in ("CompoundAssignOperator",) or (k == "UnaryOperator" and n.op in ("++", "--")):
            pass
        elif k == "ReturnStmt" and n.kids:
            e = n.kids[0].strip()
            if e.k == "DeclRefExpr" and e.refdecl in self.scalars and e.refdecl not in st:
                self.bad_returns.setdefault(e.refdecl, (n, ctx.trace()))
        elif k == "UnaryOperator" and n.op == "&":
            x = n.kids[0].strip()
            if x.k == "DeclRefExpr" and x.refdecl in self.scalars:
                return [st | {x.refdecl}]
        return [st]

    def enter_block(self, st, bid):
        # a loop-initialised array counts as initialised once the loop has been left:
        # approximated by promoting ("loop", A) to A when the block is outside any loop storing into A
        out = set(st)
        for x in list(st):
            if isinstance(x, tuple) and x[0] == "loop":
                out.add(x[1])
        return frozenset(out)


def run(P, tier="quick"):
    R = RuleResult("R06", "local pointer tables compared with NULL are wholly initialised before that comparison and before "
                   "being passed on; every returned scalar local is definitely assigned", floor=40)
    ntab = 0
    nret = 0
    for f in P.lib_functions():
        if f.cfg is None:
            continue
        arrays = {}
        scalars = {}
        returned = set()
        for r in f.returns():
            if r.kids and r.kids[0].strip().k == "DeclRefExpr" and r.kids[0].strip().refkind == "local":
                returned.add(r.kids[0].strip().refdecl)
        for v in f.vardecls():
            if v.get("static"):
                continue
            if v.d.get("_dims") and not v.kids and "*" in v.ctype.split("[")[0]:
                # pointer table: believed-NULL?
                d = v.get("decl")
                for n in f.walk():
                    if n.k == "BinaryOperator" and n.op in ("==", "!="):
                        for a, b in ((n.kids[0], n.kids[1]), (n.kids[1], n.kids[0])):
                            a_s = a.strip()
                            if is_null(b) and a_s.k == "ArraySubscriptExpr" and a_s.kids[0].strip().k == "DeclRefExpr" and \
                                    a_s.kids[0].strip().refdecl == d:
                                arrays[d] = v.get("name")
            elif not v.d.get("_dims") and v.get("decl") in returned and not v.kids:
                scalars[v.get("decl")] = v.get("name")
        if not arrays and not scalars:
            for d in returned:
                nret += 1
            if returned:
                R.ok("R06|%s|%s|returned-locals-initialised-at-declaration" % (f.file, f.name), {"C03", "C12"})
            continue
        tr = InitTracker(f, arrays, scalars)
        try:
            Engine(f, tr, 200000).run()
        except TooManyStates as e:
            R.unclassified("R06|%s|%s" % (f.file, f.name), str(e), {"C03"})
            continue
        for d, name in arrays.items():
            ntab += 1
            key = "R06|%s|%s|table:%s" % (f.file, f.name, name)
            props = {"C03", "C09"} if f.file.endswith("load.c") or "load_" in f.file else {"C03"}
            if d in tr.bad_reads:
                n, how = tr.bad_reads[d]
                R.violated(Finding("R06", props, f.file, f.name, "table:" + name,
                                   "pointer table '%s' has no initialiser and is %s at line %d on a path where it has not "
                                   "been initialised (slots hold indeterminate values, not NULL)" % (name, how, n.line), n.line))
            else:
                R.ok(key, props)
        for d, name in scalars.items():
            nret += 1
            key = "R06|%s|%s|return:%s" % (f.file, f.name, name)
            if d in tr.bad_returns:
                n, trace = tr.bad_returns[d]
                R.violated(Finding("R06", {"C03", "C12", "C11"}, f.file, f.name, "return:" + name,
                                   "'%s' is returned at line %d without having been assigned on some path" % (name, n.line), n.line, trace))
            else:
                R.ok(key, {"C03", "C12"})
    R.counts["believed_null_tables"] = ntab
    R.counts["returned_scalar_locals"] = nret
    R.check_floor()
    return R

"""R07 UNION-TAG (C09, C03): a libyaml node union is read only under the matching type test.

Every access X->data.scalar / X->data.sequence / X->data.mapping on a
yaml_node_t* must be preceded, on every path, by a test establishing
X->type == YAML_{SCALAR,SEQUENCE,MAPPING}_NODE for the same pointer value
(if-form, negated early-exit form and switch(X->type) case form).  When X is
a parameter of a static function that has no own test, every call site must
hold the fact for the argument it passes.
"""
from ..core import Finding, RuleResult
from ..flow import Engine, Tracker, TooManyStates
from .r09_bounds import spell

KIND_OF_ENUM = {"YAML_SCALAR_NODE": "scalar", "YAML_SEQUENCE_NODE": "sequence", "YAML_MAPPING_NODE": "mapping"}
LOADERS = ("vnacal_load.c", "vnaproperty.c", "vnaproperty_import_yaml_from_string.c", "vnaproperty_import_yaml_from_file.c")


def union_access(n):
    """if n is X->data.<kind>: (X node, kind)"""
    if n.k != "MemberExpr" or n.member not in ("scalar", "sequence", "mapping") or n.get("arrow"):
        return None
    d = n.kids[0].strip()
    if d.k != "MemberExpr" or d.member != "data" or not d.get("arrow"):
        return None
    x = d.kids[0].strip()
    if "yaml_node" not in x.ctype:
        return None
    return (x, n.member)


def type_test(c):
    """if c is X->type OP YAML_*_NODE: (X node, op, kind)"""
    c = c.strip()
    if c.k != "BinaryOperator" or c.op not in ("==", "!="):
        return None
    for a, b in ((c.kids[0].strip(), c.kids[1].strip()), (c.kids[1].strip(), c.kids[0].strip())):
        if a.k == "MemberExpr" and a.member == "type" and a.get("arrow") and "yaml_node" in a.kids[0].strip().ctype:
            nm = b.refname if b.k == "DeclRefExpr" else None
            if nm in KIND_OF_ENUM:
                return (a.kids[0].strip(), c.op, KIND_OF_ENUM[nm])
            if b.cv is not None:
                kind = {1: "scalar", 2: "sequence", 3: "mapping"}.get(b.cv)
                if kind:
                    return (a.kids[0].strip(), c.op, kind)
    return None


class TagTracker(Tracker):
    def __init__(self, fn):
        self.fn = fn
        self.access = {}      # node id -> set of verdicts
        self.call_facts = {}  # call node id -> list of states

    def initial(self, fn):
        return frozenset()

    def step(self, st, n, ctx):
        ua = union_access(n)
        if ua is not None:
            x, kind = ua
            s = spell(x)
            if s is None:
                self.access.setdefault(n.id, set()).add("complex")
            else:
                self.access.setdefault(n.id, set()).add("ok" if (s, kind) in st else "missing")
        if n.k == "CallExpr":
            self.call_facts.setdefault(n.id, []).append(st)
        if n.k == "BinaryOperator" and n.op == "=":
            s = spell(n.kids[0])
            if s is not None:
                r = n.kids[1].strip()
                st2 = frozenset(x for x in st if x[0] != s)
                # copy facts on pointer copy
                rs = spell(r)
                if rs is not None:
                    st2 = st2 | {(s, k) for (t, k) in st if t == rs}
                return [st2]
        if n.k == "VarDecl" and n.kids:
            s = "%s#%d" % (n.get("name"), n.get("decl"))
            rs = spell(n.kids[0])
            st2 = frozenset(x for x in st if x[0] != s)
            if rs is not None:
                st2 = st2 | {(s, k) for (t, k) in st if t == rs}
            return [st2]
        if n.k == "UnaryOperator" and n.op in ("++", "--"):
            s = spell(n.kids[0])
            if s is not None:
                return [frozenset(x for x in st if x[0] != s)]
        return [st]

    def branch(self, st, cond, truth, ctx):
        c = cond.strip()
        while c.k == "UnaryOperator" and c.op == "!":
            truth = not truth
            c = c.kids[0].strip()
        tt = type_test(c)
        if tt is None:
            return st
        x, op, kind = tt
        s = spell(x)
        if s is None:
            return st
        is_kind = (op == "==") == truth
        if is_kind:
            return st | {(s, kind)}
        return st

    def switch(self, st, cond, case_vals, is_default, all_vals, ctx):
        if cond is None:
            return st
        c = cond.strip()
        if c.k == "MemberExpr" and c.member == "type" and c.get("arrow") and "yaml_node" in c.kids[0].strip().ctype:
            s = spell(c.kids[0])
            if s is not None and not is_default and len(case_vals) == 1:
                kind = {1: "scalar", 2: "sequence", 3: "mapping"}.get(case_vals[0])
                if kind:
                    return st | {(s, kind)}
        return st


def run(P, tier="quick"):
    R = RuleResult("R07", "every X->data.{scalar,sequence,mapping} access on a libyaml node is dominated on every path by the "
                   "matching X->type test for the same pointer (or, for parameters of static helpers, at every call site)",
                   floor=40)
    trackers = {}
    naccess = 0
    pending = []
    for f in P.lib_functions():
        if f.cfg is None:
            continue
        if not any(union_access(n) for n in f.walk()):
            # still needed for call facts if it calls a function with pending obligations: run lazily
            continue
        tr = TagTracker(f)
        try:
            Engine(f, tr, 200000).run()
        except TooManyStates as e:
            R.unclassified("R07|%s|%s" % (f.file, f.name), str(e), {"C09", "C03"})
            continue
        trackers[f.key()] = tr
        per = {}
        for nid, verdicts in sorted(tr.access.items()):
            n = f.by_id[nid]
            x, kind = union_access(n)
            naccess += 1
            base = x.refname or x.text()
            per[(base, kind)] = per.get((base, kind), 0) + 1
            anchor = "%s->data.%s#%d" % (base, kind, per[(base, kind)])
            key = "R07|%s|%s|%s" % (f.file, f.name, anchor)
            if verdicts == {"ok"}:
                R.ok(key, {"C09", "C03"})
            elif "missing" in verdicts:
                if x.k == "DeclRefExpr" and x.refkind == "param" and f.static:
                    pending.append((f, n, x, kind, anchor))
                else:
                    R.violated(Finding("R07", {"C09", "C03"}, f.file, f.name, anchor,
                                       "%s is read on a path where %s->type has not been tested to be YAML_%s_NODE" %
                                       (n.text(), x.text(), kind.upper()), n.line))
            else:
                R.unclassified(key, "node expression too complex", {"C09", "C03"})
    # parameters validated by the callers
    callers = P.callers()
    for (f, n, x, kind, anchor) in pending:
        idx = [i for i, p in enumerate(f.params) if p["decl"] == x.refdecl][0]
        # the parameter must not be reassigned in f
        bad = None
        sites = callers.get(f.key(), [])
        if not sites:
            bad = "no caller establishes the type"
        for (g, call) in sites:
            tr = trackers.get(g.key())
            if tr is None:
                tr = TagTracker(g)
                try:
                    Engine(g, tr, 200000).run()
                except TooManyStates:
                    bad = "caller %s too complex" % g.name
                    break
                trackers[g.key()] = tr
            arg = call.args()[idx] if idx < len(call.args()) else None
            s = spell(arg) if arg is not None else None
            sts = tr.call_facts.get(call.id, [])
            if s is None or not sts or not all((s, kind) in st for st in sts):
                bad = "caller %s passes %s without having tested its type (line %d)" % (g.name, arg.text() if arg is not None else "?", call.line)
                break
        key = "R07|%s|%s|%s" % (f.file, f.name, anchor)
        if bad is None:
            R.ok(key + "(checked by callers)", {"C09", "C03"})
        else:
            R.violated(Finding("R07", {"C09", "C03"}, f.file, f.name, anchor,
                               "%s is read without a type test in %s and %s" % (n.text(), f.name, bad), n.line))
    R.counts["union_accesses"] = naccess
    R.check_floor()
    return R

"""R08 INDEX-GUARD: caller-supplied indices into the object arrays are guarded by exact range tests.

For every subscript of one of the arrays in the extent table (DESIGN A.2)
whose index is (an affine use of) an integer parameter of a non-static
function, a forward dataflow over the CFG collects, per path, the range facts
the branch conditions establish for that parameter (p >= 0, p < E, p <= E);
at the subscript the facts must include p >= 0 and p < extent, where `extent`
is the field paired with the array *on the same object*.  `p <= extent`
(guard written with `>` instead of `>=`) is the classic off-by-one and is
reported with the accepted value.
"""
import re

from ..core import Finding, RuleResult
from ..flow import Engine, Tracker, TooManyStates
from ..canon import Canon

INT_TYPES = ("int", "long", "unsigned int", "size_t", "unsigned long", "vnadata_parameter_type_t")

# array field -> how to obtain the extent from the object path B (text before the field)
#   'B' is the canonical object path, 'U' the user-visible vnadata_t path when B = INT(U)
EXTENTS = {
    "vd_frequency_vector": ("freq", "{B}->vd_frequencies"),
    "vd_data": ("freq", "{B}->vd_frequencies"),
    "vdi_z0.vdi_z0_vector": ("ports", None),
    "vdi_z0.vdi_z0_vector_vector": ("freq", "{U}->vd_frequencies"),
    "vc_calibration_vector": ("slot", "{B}->vc_calibration_allocation"),
    "vprmc_vector": ("slot", "{B}->vprmc_allocation"),
    "vpl_vector": ("slot", "{B}->vpl_length"),
}


def _ports_forms(U):
    r, c = "%s->vd_rows" % U, "%s->vd_columns" % U
    forms = set()
    for a, b in ((r, c), (c, r)):
        for op in (">=", ">"):
            forms.add("((%s%s%s)?%s:%s)" % (a, op, b, a, b))
        for op in ("<=", "<"):
            forms.add("((%s%s%s)?%s:%s)" % (a, op, b, b, a))
    return forms


_CLB = {}


def checker_lower_bounds(g):
    """{parameter index: c} when g fails (returns -1) whenever that parameter is below c: a top-level
    `if (p < c) { ...; return -1; }` (or `p <= c-1`) in g"""
    k = g.key()
    if k in _CLB:
        return _CLB[k]
    out = {}
    pidx = {p["decl"]: i for i, p in enumerate(g.params)}
    for st in (g.body.kids if g.body is not None else []):
        if st is None or st.k != "IfStmt":
            continue
        kids = [z for z in st.kids if z is not None]
        if len(kids) != 2:
            continue
        last = kids[1].kids[-1] if kids[1].k == "CompoundStmt" and kids[1].kids else kids[1]
        if last is None or last.k != "ReturnStmt" or not last.kids or last.kids[0].strip().cv != -1:
            continue
        c = kids[0].strip()
        if c.k == "BinaryOperator" and c.op in ("<", "<="):
            a, b = c.kids[0].strip(), c.kids[1].strip()
            if a.k == "DeclRefExpr" and a.refdecl in pidx and b.cv is not None:
                out[pidx[a.refdecl]] = b.cv if c.op == "<" else b.cv + 1
    _CLB[k] = out
    return out


class RangeTracker(Tracker):
    P = None

    def __init__(self, fn, canon, targets):
        self.fn = fn
        self.cn = canon
        self.targets = targets          # node id -> list of (param decl, name, extents set, label)
        self.params = {p["decl"]: p["name"] for p in fn.params if p.get("ct", p["t"]) in INT_TYPES}
        self.unsigned = {p["decl"] for p in fn.params if "unsigned" in p.get("ct", p["t"]) or p.get("ct", p["t"]) == "size_t"}
        self.verdicts = {}              # (node id, param) -> set of verdict strings

    def initial(self, fn):
        return frozenset()

    def step(self, st, n, ctx):
        if n.k == "ArraySubscriptExpr" and n.id in self.targets:
            facts = set(st)
            for (decl, name, extents, label) in self.targets[n.id]:
                lo = (decl in self.unsigned) or any(f[0] == decl and f[1] == "ge" and f[2] >= 0 for f in facts)
                lt = any(f[0] == decl and f[1] == "lt" and f[2] in extents for f in facts)
                le = any(f[0] == decl and f[1] == "le" and f[2] in extents for f in facts)
                if lt and lo:
                    v = "ok"
                elif le and not lt:
                    v = "offbyone"
                elif lt and not lo:
                    v = "negative"
                else:
                    v = "unguarded"
                self.verdicts.setdefault((n.id, decl, label), set()).add(v)
        # assignment to a tracked parameter invalidates its facts
        if n.k in ("BinaryOperator", "CompoundAssignOperator") and n.op and n.op.endswith("=") and n.op not in ("==", "!=", "<=", ">="):
            l = n.kids[0].strip()
            if l.k == "DeclRefExpr" and l.refdecl in self.params:
                st = frozenset(f for f in st if f[0] != l.refdecl)
        if n.k == "UnaryOperator" and n.op in ("++", "--"):
            l = n.kids[0].strip()
            if l.k == "DeclRefExpr" and l.refdecl in self.params:
                st = frozenset(f for f in st if f[0] != l.refdecl)
        return [st]

    def branch(self, st, cond, truth, ctx):
        c = cond.strip()
        while c.k == "UnaryOperator" and c.op == "!":
            truth = not truth
            c = c.kids[0].strip()
        if c.k != "BinaryOperator" or c.op not in ("<", "<=", ">", ">=", "==", "!="):
            return st
        a, b = c.kids[0].strip(), c.kids[1].strip()
        op = c.op
        # success edge of a checker: `if (validate(.., p, ..) == -1) return -1;` where the callee refuses p < 0
        if a.k == "CallExpr" and b.cv == -1 and op in ("==", "!=") and self.P is not None:
            success = (op == "==" and not truth) or (op == "!=" and truth)
            if success:
                g = self.P.resolve_call(a, self.fn)
                if g is not None and g.body is not None:
                    lows = checker_lower_bounds(g)
                    facts = set(st)
                    for i, x in enumerate(a.args()):
                        x = x.strip()
                        if x.k == "DeclRefExpr" and x.refdecl in self.params and i in lows:
                            facts.add((x.refdecl, "ge", lows[i]))
                    return frozenset(facts)
            return st
        if not (a.k == "DeclRefExpr" and a.refdecl in self.params):
            if b.k == "DeclRefExpr" and b.refdecl in self.params:
                a, b = b, a
                op = {"<": ">", ">": "<", "<=": ">=", ">=": "<="}.get(op, op)
            else:
                return st
        if not truth:
            op = {"<": ">=", ">=": "<", ">": "<=", "<=": ">", "==": "!=", "!=": "=="}[op]
        d = a.refdecl
        cvb = b.cv
        facts = set(st)
        if cvb is not None:
            if op == ">=":
                facts.add((d, "ge", cvb))
            elif op == ">":
                facts.add((d, "ge", cvb + 1))
            elif op == "==":
                facts.add((d, "ge", cvb))
            # constant upper bounds are not extents
        else:
            bt = self.cn.path(b)
            if op == "<":
                facts.add((d, "lt", bt))
            elif op == "<=":
                m = re.match(r"^\((.*)-1\)$", bt)
                if m:
                    facts.add((d, "lt", m.group(1)))
                else:
                    facts.add((d, "le", bt))
            elif op == "==":
                facts.add((d, "le", bt))
        return frozenset(facts)


def _split_base(path):
    """'X->field' or 'X.field' -> (X, field) for the known array fields (longest match)"""
    for fld in sorted(EXTENTS, key=len, reverse=True):
        for sep in ("->", "."):
            suf = sep + fld
            if path.endswith(suf):
                return path[: -len(suf)], fld
    return None, None


def run(P, tier="quick"):
    R = RuleResult("R08", "every subscript of an object array (frequency vector, data matrices, z0 vectors, calibration "
                   "slots, parameter slots, list vector) by an integer parameter of a non-static function is dominated "
                   "on every path by guards establishing 0 <= index < paired extent of the same object; `index > extent` "
                   "guards (accepting index n) are reported", floor=20)
    nsub = 0
    RangeTracker.P = P
    for f in P.all_functions():
        if f.cfg is None:
            continue
        if f.static and not f.file.endswith(".h"):
            continue
        iparams = {p["decl"]: (i, p["name"]) for i, p in enumerate(f.params) if p.get("ct", p["t"]) in INT_TYPES}
        if not iparams:
            continue
        CN = Canon(f)
        targets = {}
        for n in f.walk():
            if n.k != "ArraySubscriptExpr":
                continue
            base = CN.path(n.kids[0])
            idx = n.kids[1].strip()
            level2 = None
            B, fld = _split_base(base)
            if B is None:
                # second level: X->vd_data[f][r*C+c], X->vdi_z0_vector_vector[f][p]
                b0 = n.kids[0].strip()
                if b0.k == "ArraySubscriptExpr":
                    B, fld = _split_base(CN.path(b0.kids[0]))
                    if fld in ("vd_data", "vdi_z0.vdi_z0_vector_vector"):
                        level2 = fld
                    else:
                        B = None
            if B is None:
                continue
            U = B[4:-1] if B.startswith("INT(") and B.endswith(")") else B
            reqs = []
            if level2 == "vd_data":
                # index r*C + c
                it = idx
                if it.k == "BinaryOperator" and it.op == "+" and it.kids[0].strip().k == "BinaryOperator" and it.kids[0].strip().op == "*":
                    mul = it.kids[0].strip()
                    r, C, c = mul.kids[0].strip(), mul.kids[1].strip(), it.kids[1].strip()
                    Ct = CN.path(C)
                    if r.k == "DeclRefExpr" and r.refdecl in iparams:
                        reqs.append((r.refdecl, iparams[r.refdecl][1], {"%s->vd_rows" % U}, "row"))
                    if c.k == "DeclRefExpr" and c.refdecl in iparams:
                        reqs.append((c.refdecl, iparams[c.refdecl][1], {"%s->vd_columns" % U}, "column"))
                    if reqs and Ct != "%s->vd_columns" % U:
                        R.violated(Finding("R08", ("C15", "C03"), f.file, f.name, "stride@%s" % fld,
                                           "row stride is %s, expected %s->vd_columns" % (Ct, U), n.line))
            elif level2 == "vdi_z0.vdi_z0_vector_vector":
                if idx.k == "DeclRefExpr" and idx.refdecl in iparams:
                    reqs.append((idx.refdecl, iparams[idx.refdecl][1], _ports_forms(U), "port"))
            else:
                kind, tmpl = EXTENTS[fld]
                if idx.k == "DeclRefExpr" and idx.refdecl in iparams:
                    if kind == "ports":
                        ext = _ports_forms(U)
                    else:
                        ext = {tmpl.format(B=B, U=U)}
                        # the same extent reached through '.' instead of '->'
                        ext |= {e.replace("->vprmc_allocation", ".vprmc_allocation") for e in ext}
                    reqs.append((idx.refdecl, iparams[idx.refdecl][1], ext, {"freq": "findex", "ports": "port", "slot": "slot"}[kind]))
            if reqs:
                targets[n.id] = reqs
        if not targets:
            continue
        tr = RangeTracker(f, CN, targets)
        try:
            Engine(f, tr, 50000).run()
        except TooManyStates as e:
            R.unclassified("R08|%s|%s" % (f.file, f.name), str(e))
            continue
        # aggregate per (function, parameter, label)
        agg = {}
        lines = {}
        for (nid, decl, label), vs in tr.verdicts.items():
            k = (iparams[decl][1], label)
            agg.setdefault(k, set()).update(vs)
            lines.setdefault(k, f.by_id[nid].line)
        nsub += len(tr.verdicts)
        for (pname, label), vs in sorted(agg.items()):
            key = "R08|%s|%s|%s:%s" % (f.file, f.name, label, pname)
            props = {"C03"}
            if f.file.startswith("vnadata"):
                props.add("C15")
            if f.file.startswith("vnacal"):
                props.add("C16")
            if f.file.startswith("vnaproperty"):
                props.add("C13")
            ln = lines[(pname, label)]
            if vs == {"ok"}:
                R.ok(key, props)
            elif "offbyone" in vs:
                R.violated(Finding("R08", props, f.file, f.name, "%s:%s" % (label, pname),
                                   "index '%s' is only bounded by <= extent before the subscript: the value n "
                                   "(one past the end) is accepted" % pname, ln))
            elif "negative" in vs:
                R.violated(Finding("R08", props, f.file, f.name, "%s:%s" % (label, pname),
                                   "index '%s' has an upper-bound guard but negative values are not excluded" % pname, ln))
            else:
                R.violated(Finding("R08", props, f.file, f.name, "%s:%s" % (label, pname),
                                   "index '%s' reaches the subscript on some path without a range guard against the "
                                   "paired extent" % pname, ln))
    R.counts["guarded_subscripts"] = nsub
    R.check_floor()
    return R

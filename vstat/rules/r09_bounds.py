"""R09 LAST-ELEMENT and R10 PRED-GUARD (C03, C09): subscripts of the form v[E - c] need E >= c.

A forward dataflow collects lower-bound facts `E >= k` for pure integer
expressions E (locals, parameters, object fields) from the branch conditions
on every path, from loop initialisations and from monotone increments.
Field invariants are *derived from the constructors*: when a validated
parameter is stored into a field (`vnp->vn_frequencies = frequencies` after
`if (frequencies < 0) error`) the field inherits the parameter's lower bound.

At v[E - c]:
  proven      a fact E >= c holds on every path (or E is a field/alias whose invariant is >= c);
  R09         the best bound known is k < c although a guard on E exists or E is a field
              whose constructor admits k  ->  index -1 is reachable (e.g. n == 0);
  R10         E is a loop counter starting at s < c and the enclosing guard demands
              E >= k with k > c: the comparison with the predecessor skips the pair (c-1+?, ...)
              i.e. `i > 1 && v[i-1]` never looks at v[0];
  unproven    nothing is known: listed in the evidence, not an alarm.
"""
from ..core import Finding, RuleResult
from ..flow import Engine, Tracker, TooManyStates
from ..util import base_var

INTS = ("int", "long", "size_t", "unsigned int", "unsigned long", "const int", "const size_t")


def spell(n):
    """decl-id based spelling of a pure expression, or None"""
    n = n.strip()
    k = n.k
    if k == "DeclRefExpr":
        if n.refkind in ("local", "param"):
            return "%s#%d" % (n.refname, n.refdecl)
        return None
    if k == "MemberExpr":
        b = spell(n.kids[0])
        return None if b is None else b + ("->" if n.get("arrow") else ".") + (n.member or "?")
    if k == "UnaryOperator" and n.op in ("&", "*"):
        b = spell(n.kids[0])
        return None if b is None else n.op + b
    return None


class BoundTracker(Tracker):
    def __init__(self, fn, sites, field_inv):
        self.fn = fn
        self.sites = sites          # node id -> (E node, c)
        self.field_inv = field_inv
        self.results = {}           # node id -> set of best lower bounds seen (None = unknown)
        self.store_facts = []       # (field name, bound or None) for `obj->field = param`
        self.single = {}
        # single-definition locals -> defining expression (for aliasing n = obj->field)
        from ..canon import Canon
        self.cn = Canon(fn)

    def initial(self, fn):
        return frozenset()

    def _lb(self, st, e, depth=0):
        """best known lower bound of expression e in state st"""
        e = e.strip()
        if e.cv is not None:
            return e.cv
        s = spell(e)
        best = None
        if s is not None:
            for fact in st:
                if len(fact) == 2:
                    t, k = fact
                    if t == s and (best is None or k > best):
                        best = k
        if e.k == "MemberExpr" and e.member in self.field_inv:
            inv = self.field_inv[e.member]
            if inv is not None and (best is None or inv > best):
                best = inv
        if e.k == "DeclRefExpr" and e.refkind == "local" and depth < 4:
            d = self.cn.single_def(e.refdecl)
            if d is not None:
                b2 = self._lb(st, d, depth + 1)
                if b2 is not None and (best is None or b2 > best):
                    best = b2
        if e.k == "BinaryOperator" and e.op in ("+", "-") and e.kids[1].strip().cv is not None:
            b = self._lb(st, e.kids[0], depth + 1)
            if b is not None:
                c = e.kids[1].strip().cv
                v = b + c if e.op == "+" else b - c
                if best is None or v > best:
                    best = v
        if "unsigned" in e.ctype or e.ctype == "size_t":
            if best is None or best < 0:
                best = 0
        return best

    def step(self, st, n, ctx):
        k = n.k
        if n.id in self.sites:
            E, c = self.sites[n.id]
            self.results.setdefault(n.id, set()).add(self._lb(st, E))
        if k == "VarDecl" and n.kids and n.ctype in INTS:
            s = "%s#%d" % (n.get("name"), n.get("decl"))
            b = self._lb(st, n.kids[0])
            st = frozenset(x for x in st if x[0] != s)
            if b is not None:
                st = st | {(s, b)}
            return [st]
        if k == "BinaryOperator" and n.op == "=":
            l = n.kids[0].strip()
            s = spell(l)
            if s is not None:
                b = self._lb(st, n.kids[1]) if l.ctype in INTS or n.kids[1].strip().ctype in INTS else None
                st = frozenset(x for x in st if x[0] != s and not x[0].startswith(s + "->") and not x[0].startswith(s + "."))
                if b is not None:
                    st = st | {(s, b)}
                # constructor store: obj->field = <param or expression with known bound>
                if l.k == "MemberExpr" and l.member:
                    self.store_facts.append((l.member, b, n.kids[1].strip().ctype in INTS or l.ctype in INTS))
            return [st]
        if k == "UnaryOperator" and n.op in ("++", "--"):
            s = spell(n.kids[0])
            if s is not None:
                if n.op == "++":
                    pass        # monotone: every lower bound stays valid (no widening needed)
                else:
                    st = frozenset(x for x in st if x[0] != s)
            return [st]
        if k == "CompoundAssignOperator":
            s = spell(n.kids[0])
            if s is not None:
                c = n.kids[1].strip().cv
                if not (n.op == "+=" and c is not None and c >= 0):
                    st = frozenset(x for x in st if x[0] != s)
            return [st]
        if k == "CallExpr":
            # a callee may modify locals whose address is passed
            for a in n.args():
                a = a.strip()
                if a.k == "UnaryOperator" and a.op == "&":
                    s = spell(a.kids[0])
                    if s is not None:
                        st = frozenset(x for x in st if x[0] != s)
            return [st]
        return [st]

    def branch(self, st, cond, truth, ctx):
        c = cond.strip()
        while c.k == "UnaryOperator" and c.op == "!":
            truth = not truth
            c = c.kids[0].strip()
        if c.k == "BinaryOperator" and c.op in ("<", "<=", ">", ">=", "==", "!="):
            a, b = c.kids[0].strip(), c.kids[1].strip()
            op = c.op
            if b.cv is None and a.cv is not None:
                a, b = b, a
                op = {"<": ">", ">": "<", "<=": ">=", ">=": "<="}.get(op, op)
            if b.cv is not None:
                s = spell(a)
                if s is None:
                    return st
                if not truth:
                    op = {"<": ">=", ">=": "<", ">": "<=", "<=": ">", "==": "!=", "!=": "=="}[op]
                k = b.cv
                lb = None
                if op == ">=":
                    lb = k
                elif op == ">":
                    lb = k + 1
                elif op == "==":
                    lb = k
                elif op == "!=" and k == 0:
                    cur = self._lb(st, a)
                    if cur is not None and cur >= 0:
                        lb = 1
                extra = set()
                if op == "<=":
                    extra.add((s, "le", k))
                elif op == "<":
                    extra.add((s, "le", k - 1))
                elif op == "==":
                    extra.add((s, "le", k))
                elif op == "!=":
                    extra.add((s, "ne", k))
                if lb is not None:
                    return st | {(s, lb)} | extra
                if extra:
                    return st | extra
            else:
                # E > F / E >= F with a known bound of F
                s = spell(a)
                if s is not None:
                    opx = op if truth else {"<": ">=", ">=": "<", ">": "<=", "<=": ">", "==": "!=", "!=": "=="}[op]
                    fb = self._lb(st, b)
                    if fb is not None and opx in (">", ">=", "=="):
                        return st | {(s, fb + (1 if opx == ">" else 0))}
                s2 = spell(b)
                if s2 is not None:
                    opx = op if truth else {"<": ">=", ">=": "<", ">": "<=", "<=": ">", "==": "!=", "!=": "=="}[op]
                    fa = self._lb(st, a)
                    if fa is not None and opx in ("<", "<=", "=="):
                        return st | {(s2, fa + (1 if opx == "<" else 0))}
            return st
        # bare `if (n)` on an integer
        s = spell(c)
        if s is not None and truth and c.ctype in INTS:
            cur = self._lb(st, c)
            if cur is not None and cur >= 0:
                return st | {(s, 1)}
        return st


def derive_field_invariants(P):
    """field name -> minimal lower bound over all stores of validated integers (None = unknown)"""
    inv = {}
    unknown = set()
    for f in P.all_functions():
        if f.cfg is None:
            continue
        has = False
        for n in f.walk():
            if n.k == "BinaryOperator" and n.op == "=" and n.kids[0].strip().k == "MemberExpr" and \
                    n.kids[0].strip().ctype in INTS:
                has = True
                break
        if not has:
            continue
        tr = BoundTracker(f, {}, {})
        try:
            Engine(f, tr, 20000).run()
        except TooManyStates:
            for n in f.walk():
                if n.k == "BinaryOperator" and n.op == "=" and n.kids[0].strip().k == "MemberExpr":
                    unknown.add(n.kids[0].strip().member)
            continue
        for (field, b, isint) in tr.store_facts:
            if not isint:
                continue
            if b is None:
                unknown.add(field)
            else:
                inv[field] = b if field not in inv else min(inv[field], b)
    # a field that is only ever set from an (unguarded) integer parameter of an internal function inherits the weakest
    # bound its callers guarantee for that argument: literals, fields with a known invariant, or locals/parameters of the
    # caller with the lower-bound facts that hold at the call (one level up, then once more)
    callers = P.callers()

    def arg_bound(h, call, a, depth):
        a_s = a.strip()
        if a_s.cv is not None:
            return a_s.cv
        if a_s.k == "DeclRefExpr" and a_s.refkind == "local":
            # a never-reassigned local: look through to its defining expression (no dataflow needed)
            from ..canon import Canon
            sd = Canon(h).single_def(a_s.refdecl)
            if sd is not None:
                a_s = sd.strip()
                if a_s.cv is not None:
                    return a_s.cv
        if a_s.k == "MemberExpr" and inv.get(a_s.member) is not None and a_s.member not in unknown:
            return inv[a_s.member]
        if h.cfg is None or call.id not in h.cfg.pos:
            return None
        tr2 = BoundTracker(h, {call.id: (a, 0)}, {k: v for k, v in inv.items() if k not in unknown})
        try:
            Engine(h, tr2, 50000).run()
        except TooManyStates:
            return None
        bs = tr2.results.get(call.id)
        if bs and None not in bs:
            return min(bs)
        if depth < 2 and a_s.k == "DeclRefExpr" and a_s.refkind == "param":
            return param_bound(h, h.param_index(a_s.refname), depth + 1)
        return None

    def param_bound(g, pi, depth=0):
        if pi is None:
            return None
        bs = []
        for (h, call) in callers.get(g.key(), []):
            if pi >= len(call.args()):
                return None
            b = arg_bound(h, call, call.args()[pi], depth)
            if b is None:
                return None
            bs.append(b)
        return min(bs) if bs else None
    for f in P.all_functions():
        if f.body is None:
            continue
        for n in f.walk():
            if n.k == "BinaryOperator" and n.op == "=" and n.kids[0].strip().k == "MemberExpr" and \
                    n.kids[0].strip().ctype in INTS and n.kids[1].strip().k == "DeclRefExpr" and \
                    n.kids[1].strip().refkind == "param":
                fld = n.kids[0].strip().member
                if fld in unknown or inv.get(fld) is None:
                    # every store of this field must be such a parameter store for the result to be meaningful
                    stores = [m for g in P.all_functions() if g.body is not None for m in g.walk()
                              if m.k == "BinaryOperator" and m.op == "=" and m.kids[0].strip().k == "MemberExpr" and
                              m.kids[0].strip().member == fld]
                    if all(m.kids[1].strip().k == "DeclRefExpr" and m.kids[1].strip().refkind == "param" for m in stores):
                        b = param_bound(f, f.param_index(n.kids[1].strip().refname))
                        if b is not None:
                            inv[fld] = b if inv.get(fld) is None else min(inv[fld], b)
                            unknown.discard(fld)
    # ++/-- or compound updates of a field make the bound unknown unless only incremented
    for f in P.all_functions():
        for n in f.walk():
            if n.k == "UnaryOperator" and n.op == "--" and n.kids[0].strip().k == "MemberExpr":
                unknown.add(n.kids[0].strip().member)
            if n.k == "CompoundAssignOperator" and n.op == "-=" and n.kids[0].strip().k == "MemberExpr":
                unknown.add(n.kids[0].strip().member)
    return {k: (None if k in unknown else v) for k, v in inv.items()}, unknown


def run(P, tier="quick"):
    R = RuleResult("R09", "every subscript v[E - c] is reached only with E >= c: lower-bound facts from guards, loop "
                   "initialisations and constructor-derived field invariants; guards that admit E = c-1 (n == 0) or that "
                   "demand more than c for a loop counter (skipping the first pair) are reported", floor=6)
    inv, unknown = derive_field_invariants(P)
    R.counts["field_invariants"] = {k: v for k, v in sorted(inv.items()) if v is not None and
                                    any(x in k for x in ("frequenc", "rows", "columns", "length", "count", "ports", "terms"))}
    nsites = 0
    for f in P.lib_functions():
        if f.cfg is None:
            continue
        sites = {}
        for n in f.walk():
            if n.k == "ArraySubscriptExpr":
                i = n.kids[1].strip()
                if i.k == "BinaryOperator" and i.op == "-" and i.kids[1].strip().cv is not None and i.kids[1].strip().cv > 0:
                    if n.id in f.cfg.pos:
                        sites[n.id] = (i.kids[0], i.kids[1].strip().cv)
        if not sites:
            continue
        tr = BoundTracker(f, sites, inv)
        try:
            Engine(f, tr, 100000).run()
        except TooManyStates as e:
            R.unclassified("R09|%s|%s" % (f.file, f.name), str(e), {"C03"})
            continue
        seen_anchor = {}
        for nid, (E, c) in sorted(sites.items()):
            nsites += 1
            n = f.by_id[nid]
            arr = n.kids[0].strip()
            anchor0 = "%s[%s-%d]" % (arr.member if arr.k == "MemberExpr" else (arr.refname or arr.text()), E.strip().refname or
                                     (E.strip().member if E.strip().k == "MemberExpr" else E.text()), c)
            seen_anchor[anchor0] = seen_anchor.get(anchor0, 0) + 1
            anchor = anchor0 if seen_anchor[anchor0] == 1 else "%s#%d" % (anchor0, seen_anchor[anchor0])
            key = "R09|%s|%s|%s" % (f.file, f.name, anchor)
            props = {"C03"}
            if f.file in ("vnacal_load.c", "vnadata_load_touchstone.c", "vnadata_load_npd.c"):
                props.add("C09")
            bounds = tr.results.get(nid)
            if not bounds:
                R.unclassified(key, "subscript not reached by the analysis", props)
                continue
            worst = None if None in bounds else min(bounds)
            # loop counter with a guard stricter than needed?
            skip = _skips_first_pair(f, n, E, c)
            if skip is not None:
                R.violated(Finding("R10", props, f.file, f.name, anchor,
                                   "%s is only evaluated when %s: the element at index %d is never compared with its "
                                   "predecessor" % (n.text(), skip[0], skip[1]), n.line))
                continue
            if worst is not None and worst >= c:
                R.ok(key, props)
            elif worst is not None:
                R.violated(Finding("R09", props, f.file, f.name, anchor,
                                   "%s: the strongest guarantee on '%s' here is >= %d (constructor/guard admits %d), so index %d "
                                   "is reachable" % (n.text(), E.text(), worst, worst, worst - c), n.line))
            else:
                R.unclassified(key, "no lower bound known for '%s'" % E.text(), props)
    R.counts["predecessor_or_last_element_subscripts"] = nsites
    R.check_floor()
    return R


def _skips_first_pair(f, sub, E, c):
    """E is a counter that starts below the guard's demand: return (guard text, skipped index)"""
    E = E.strip()
    if E.k != "DeclRefExpr":
        return None
    # only predecessor *comparisons*: the subscript is an operand of a relational operator and the
    # same array is also accessed with the plain index E somewhere in the function
    rel = None
    for a in sub.ancestors():
        if a.k == "BinaryOperator" and a.op in ("<", "<=", ">", ">="):
            rel = a
            break
        if a.k not in ("ImplicitCastExpr", "ParenExpr", "CStyleCastExpr"):
            break
    if rel is None:
        return None
    arr = sub.kids[0].strip()
    plain = False
    for m in f.walk():
        if m.k == "ArraySubscriptExpr" and m is not sub and m.kids[0].strip().text() == arr.text():
            ix = m.kids[1].strip()
            if ix.k == "DeclRefExpr" and ix.refdecl == E.refdecl:
                plain = True
    if not plain:
        return None
    # counter: has a ++ somewhere and an initialisation to a constant s
    from ..canon import Canon
    cn = Canon(f)
    ds = cn.defs.get(E.refdecl, [])
    if not any(k == "update" for k, _ in ds):
        # derived counter, e.g. findex = item - start : accept when it is declared inside a loop body
        d = cn.single_def(E.refdecl)
        if d is None or not any(a.k in ("ForStmt", "WhileStmt") for a in sub.ancestors()):
            return None
        start = 0
        if not (d.strip().k == "BinaryOperator" and d.strip().op == "-"):
            return None
    else:
        inits = [r.strip().cv for k, r in ds if k in ("init", "assign") and r is not None]
        if not inits or any(v is None for v in inits):
            return None
        start = min(inits)
    # nearest enclosing guard on E in the same condition (&&) or an enclosing if
    guard = None
    for a in sub.ancestors():
        if a.k == "BinaryOperator" and a.op == "&&":
            l = a.kids[0].strip()
            if l.k == "BinaryOperator" and l.op in (">", ">=", "!=") and l.kids[0].strip().k == "DeclRefExpr" and \
                    l.kids[0].strip().refdecl == E.refdecl and l.kids[1].strip().cv is not None and not l.is_ancestor_of(sub):
                guard = l
                break
        if a.k == "IfStmt":
            cnd = [k for k in a.kids if k is not None][0].strip()
            if cnd.k == "BinaryOperator" and cnd.op in (">", ">=") and cnd.kids[0].strip().k == "DeclRefExpr" and \
                    cnd.kids[0].strip().refdecl == E.refdecl and cnd.kids[1].strip().cv is not None and not cnd.is_ancestor_of(sub):
                guard = cnd
                break
    if guard is None:
        return None
    k = guard.kids[1].strip().cv
    need = k + 1 if guard.op == ">" else (k if guard.op == ">=" else 1)
    if need > c and start < need:
        return (guard.text(), c)
    return None

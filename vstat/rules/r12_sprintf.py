"""R12 SPRINTF-BOUND (C07, C06, C03): every sprintf into a stack buffer fits for every accepted precision.

For each sprintf/vsprintf into a local char array the longest possible
output is computed from the format string (%d, %c, %s with literal arguments,
%a, %e/%f/%g with a `.*` precision) as an integer expression of at most one
free variable (the precision); the buffer capacity is the array extent
(constant or VLA expression of the same variable).  The admissible values of
the variable are taken from the guards on the path to the call (>=, <=, !=,
assert), from the arguments at all call sites and, for object fields, from
*every store into the field in the library* (the validating setters): if a
setter accepts any precision >= 1 the range is unbounded above.  Both
expressions are then evaluated (integers only - no library code runs) over the
admissible range, up to 2000 above the lower bound; the first value whose
output does not fit is reported as the witness.
"""
import re

from ..core import Finding, RuleResult
from ..flow import Engine, TooManyStates
from ..util import eval_int, CannotEval
from .r09_bounds import BoundTracker, spell

PROPS = ("C03",)
FMT = re.compile(r"%([-+ #0]*)(\*|\d+)?(?:\.(\*|\d+))?(hh|h|ll|l|L|z|j|t)?([diouxXeEfFgGaAcsp%])")


def parse_format(fmt):
    """list of ('lit', n) / ('conv', flags, width, prec, length, conv) in order"""
    out = []
    pos = 0
    for m in FMT.finditer(fmt):
        if m.start() > pos:
            out.append(("lit", m.start() - pos))
        out.append(("conv",) + m.groups())
        pos = m.end()
    if pos < len(fmt):
        out.append(("lit", len(fmt) - pos))
    return out


class SiteTracker(BoundTracker):
    """BoundTracker that records the facts reaching given call nodes"""

    def __init__(self, fn, calls, interest=None):
        BoundTracker.__init__(self, fn, {}, {})
        self.calls = calls
        self.at = {}
        self.interest = interest      # spelled variables worth tracking (None = all)

    def _filter(self, states):
        if self.interest is None:
            return states
        out = []
        for st in states:
            out.append(frozenset(x for x in st if x[0] in self.interest))
        return out

    def branch(self, st, cond, truth, ctx):
        r = BoundTracker.branch(self, st, cond, truth, ctx)
        if r is None or self.interest is None:
            return r
        return frozenset(x for x in r if x[0] in self.interest)

    def step(self, st, n, ctx):
        if n.id in self.calls:
            self.at.setdefault(n.id, []).append(st)
        # assert(x >= k) appears as a branch on the assertion's condition (handled by branch())
        if n.k == "BinaryOperator" and n.op == "=":
            l = n.kids[0].strip()
            s = spell(l)
            c = n.kids[1].strip().cv
            r = BoundTracker.step(self, st, n, ctx)
            if s is not None and c is not None:
                r = [x | {(s, "le", c)} for x in r]
            return self._filter(r)
        return self._filter(BoundTracker.step(self, st, n, ctx))


def facts_range(states, sp):
    """(lo, hi, excluded) valid in every state reaching the site"""
    lo_all, hi_all, ne_all = None, None, None
    first = True
    for st in states:
        lo = hi = None
        ne = set()
        for fct in st:
            if fct[0] != sp:
                continue
            if len(fct) == 2:
                lo = fct[1] if lo is None else max(lo, fct[1])
            elif fct[1] == "le":
                hi = fct[2] if hi is None else min(hi, fct[2])
            elif fct[1] == "ne":
                ne.add(fct[2])
        if first:
            lo_all, hi_all, ne_all = lo, hi, ne
            first = False
        else:
            lo_all = None if (lo is None or lo_all is None) else min(lo, lo_all)
            hi_all = None if (hi is None or hi_all is None) else max(hi, hi_all)
            ne_all &= ne
    return lo_all, hi_all, ne_all or set()


class Ranges:
    """interprocedural value ranges of int parameters and object fields"""

    def __init__(self, P):
        self.P = P
        self.memo = {}
        self.field_stores = None

    def _field_stores(self):
        if self.field_stores is None:
            fs = {}
            for f in self.P.all_functions():
                for n in f.walk():
                    if n.k == "BinaryOperator" and n.op == "=" and n.kids[0].strip().k == "MemberExpr":
                        fs.setdefault(n.kids[0].strip().member, []).append((f, n))
            self.field_stores = fs
        return self.field_stores

    def expr(self, f, e, site_states, depth=0):
        """(lo, hi, ne) of integer expression e evaluated at a point whose reaching states are site_states"""
        e = e.strip()
        if e.cv is not None:
            return (e.cv, e.cv, set())
        if depth > 5:
            return (None, None, set())
        if e.k == "BinaryOperator" and e.op in ("+", "-") and e.kids[1].strip().cv is not None:
            lo, hi, ne = self.expr(f, e.kids[0], site_states, depth + 1)
            c = e.kids[1].strip().cv * (1 if e.op == "+" else -1)
            return (None if lo is None else lo + c, None if hi is None else hi + c, {x + c for x in ne})
        sp = spell(e)
        lo = hi = None
        ne = set()
        if sp is not None and site_states:
            lo, hi, ne = facts_range(site_states, sp)
        if e.k == "DeclRefExpr" and e.refkind == "param":
            plo, phi, pne = self.param(f, e.refdecl, depth + 1)
            # the parameter may have been modified before the site; path facts refine the entry range only
            # when the variable is not reassigned -- conservative: intersect only if never assigned
            from ..canon import Canon
            cn = Canon(f)
            if not cn.defs.get(e.refdecl):
                lo = plo if lo is None else (lo if plo is None else max(lo, plo))
                hi = phi if hi is None else (hi if phi is None else min(hi, phi))
                ne = ne | pne
        elif e.k == "MemberExpr" and e.member:
            flo, fhi, fne = self.field(e.member, depth + 1)
            lo = flo if lo is None else (lo if flo is None else max(lo, flo))
            hi = fhi if hi is None else (hi if fhi is None else min(hi, fhi))
        return (lo, hi, ne)

    def param(self, f, decl, depth):
        key = ("p", f.key(), decl)
        if key in self.memo:
            return self.memo[key]
        self.memo[key] = (None, None, set())
        idx = [i for i, p in enumerate(f.params) if p["decl"] == decl]
        callers = self.P.callers().get(f.key(), [])
        res = None
        if idx and callers and f.static:
            for (g, call) in callers:
                if idx[0] >= len(call.args()):
                    res = (None, None, set())
                    break
                states = self.states_at(g, call)
                r = self.expr(g, call.args()[idx[0]], states, depth + 1)
                if res is None:
                    res = r
                else:
                    res = (None if (res[0] is None or r[0] is None) else min(res[0], r[0]),
                           None if (res[1] is None or r[1] is None) else max(res[1], r[1]), res[2] & r[2])
        if res is None:
            res = (None, None, set())      # externally callable: anything
        self.memo[key] = res
        return res

    def states_at(self, g, call):
        key = ("s", g.key())
        if key not in self.memo:
            calls = {c.id for c in g.calls()}
            tr = SiteTracker(g, calls)
            try:
                Engine(g, tr, 200000).run()
                self.memo[key] = tr.at
            except TooManyStates:
                self.memo[key] = {}
        return self.memo[key].get(call.id, [])

    def field(self, name, depth):
        key = ("f", name)
        if key in self.memo:
            return self.memo[key]
        self.memo[key] = (None, None, set())
        res = None
        for (g, st) in self._field_stores().get(name, []):
            states = self.states_at_node(g, st)
            r = self.expr(g, st.kids[1], states, depth + 1)
            if res is None:
                res = r
            else:
                res = (None if (res[0] is None or r[0] is None) else min(res[0], r[0]),
                       None if (res[1] is None or r[1] is None) else max(res[1], r[1]), set())
        if res is None:
            res = (None, None, set())
        self.memo[key] = res
        return res

    def states_at_node(self, g, node):
        key = ("sn", g.key())
        if key not in self.memo:
            ids = {n.id for n in g.walk() if n.k == "BinaryOperator" and n.op == "=" and n.kids[0].strip().k == "MemberExpr"}
            tr = SiteTracker(g, ids)
            try:
                Engine(g, tr, 200000).run()
                self.memo[key] = tr.at
            except TooManyStates:
                self.memo[key] = {}
        return self.memo[key].get(node.id, [])


def run(P, tier="quick"):
    R = RuleResult("R12", "the longest output of every sprintf into a stack char array (from its format, with `.*` precisions "
                   "ranging over everything the validating setters and guards admit) fits the array", floor=5)
    RG = Ranges(P)
    nsites = 0
    for f in P.lib_functions():
        if f.cfg is None:
            continue
        calls = [c for c in f.calls() if c.callee in ("sprintf", "vsprintf")]
        if not calls:
            continue
        interest = set()
        for c in calls:
            for a in c.args():
                for m in a.walk():
                    sp = spell(m) if m.k in ("DeclRefExpr", "MemberExpr") else None
                    if sp is not None:
                        interest.add(sp)
            b0 = c.args()[0].strip()
            for v in f.vardecls():
                if b0.k == "DeclRefExpr" and v.get("decl") == b0.refdecl:
                    for dnode in (v.d.get("_dims") or []):
                        if dnode is not None:
                            for m in dnode.walk():
                                sp = spell(m) if m.k in ("DeclRefExpr", "MemberExpr") else None
                                if sp is not None:
                                    interest.add(sp)
        tr = SiteTracker(f, {c.id for c in calls}, interest)
        try:
            Engine(f, tr, 300000).run()
        except TooManyStates as e:
            R.unclassified("R12|%s|%s" % (f.file, f.name), str(e), set(PROPS))
            continue
        per = {}
        for c in calls:
            nsites += 1
            a = c.args()
            buf = a[0].strip()
            per[buf.text()] = per.get(buf.text(), 0) + 1
            anchor = "%s#%d" % (buf.refname or buf.text(), per[buf.text()])
            key = "R12|%s|%s|%s" % (f.file, f.name, anchor)
            props = set(PROPS)
            if f.file == "vnacal_save.c":
                props.add("C07")
            if f.file == "vnadata_save.c":
                props.add("C06")
            if buf.k != "DeclRefExpr" or buf.refkind not in ("local",):
                R.unclassified(key, "destination is not a local array", props)
                continue
            vd = [v for v in f.vardecls() if v.get("decl") == buf.refdecl]
            if not vd or not vd[0].d.get("_dims"):
                R.unclassified(key, "destination is not an array", props)
                continue
            dim = vd[0].d["_dims"][0]
            fm = a[1].strip()
            if fm.k != "StringLiteral":
                R.unclassified(key, "format is not a literal", props)
                continue
            # build the length as (const, [expr nodes whose value adds linearly])
            const = 1      # NUL
            lin = []       # (node, coefficient)
            unbounded = None
            argi = 2
            for item in parse_format(fm.val):
                if item[0] == "lit":
                    const += item[1]
                    continue
                _, flags, width, prec, length, conv = item
                wnode = pnode = None
                if width == "*":
                    wnode = a[argi]
                    argi += 1
                if prec == "*":
                    pnode = a[argi]
                    argi += 1
                val = a[argi] if conv != "%" and argi < len(a) else None
                if conv != "%":
                    argi += 1
                w = int(width) if width and width != "*" else 0
                if conv == "%":
                    n = 1
                elif conv in "di":
                    n = 20 if length in ("l", "ll", "z", "j") else 11
                    # small non-negative values: use the value range when known
                    if val is not None:
                        lo, hi, _ne = RG.expr(f, val, tr.at.get(c.id, []))
                        if lo is not None and hi is not None and lo >= 0:
                            n = len(str(hi)) + (1 if "+" in flags or " " in flags else 0)
                elif conv in "ouxX":
                    n = 22 if length in ("l", "ll", "z", "j") else 11
                elif conv == "c":
                    n = 1
                elif conv in "aA":
                    n = 24
                elif conv in "eE":
                    n = 8            # sign d . e+XXX  (digits after the point added below)
                    if pnode is not None:
                        lin.append((pnode, 1))
                    elif prec:
                        n += int(prec)
                    else:
                        n += 6
                elif conv == "s":
                    v = val.strip() if val is not None else None
                    if v is not None and v.k == "StringLiteral":
                        n = len(v.val)
                    else:
                        lits = _string_values(P, f, v)
                        if lits is None:
                            unbounded = "%s argument '%s' has no static bound" % ("%s", val.text() if val is not None else "?")
                            n = 0
                        else:
                            n = max(len(x) for x in lits)
                else:
                    unbounded = "conversion %%%s not modelled" % conv
                    n = 0
                const += max(n, w)
            if unbounded:
                R.unclassified(key, unbounded, props)
                continue
            # free variables
            var_nodes = [n for (n, k) in lin]
            capvars = []
            if dim is not None and dim.k != "ConstSize":
                capvars = [m for m in dim.walk() if m.k == "DeclRefExpr" and m.refkind in ("local", "param")]
            names = {spell(n.strip().kids[0]) if (n.strip().k == "BinaryOperator") else spell(n) for n in var_nodes}
            # evaluate over the range of the single variable involved
            base = None
            for n in var_nodes:
                e = n.strip()
                while e.k == "BinaryOperator" and e.op in ("+", "-") and e.kids[1].strip().cv is not None:
                    e = e.kids[0].strip()
                base = e
            if base is None and capvars:
                base = capvars[0]
            if base is None:
                cap = dim.get("val") if dim is not None and dim.k == "ConstSize" else None
                if cap is None:
                    R.unclassified(key, "capacity not constant", props)
                elif const <= cap:
                    R.ok(key, props)
                else:
                    R.violated(Finding("R12", props, f.file, f.name, anchor, "sprintf(%s, %s...) can write %d bytes into a "
                                       "%d-byte buffer" % (buf.text(), fm.text(), const, cap), c.line))
                continue
            lo, hi, ne = RG.expr(f, base, tr.at.get(c.id, []))
            bname = base.refname if base.k == "DeclRefExpr" else base.text()
            if lo is None:
                lo = 0
            top = hi if hi is not None else lo + 2000
            witness = None
            v = lo
            while v <= top:
                if v not in ne:
                    env = {bname: v}
                    try:
                        total = const + sum(k * eval_int(n, env) for (n, k) in lin)
                        cap = dim.get("val") if dim.k == "ConstSize" else eval_int(dim, env)
                    except CannotEval as ex:
                        witness = ("?", str(ex))
                        break
                    if total > cap:
                        witness = (v, total, cap)
                        break
                v += 1
            if witness is None:
                R.ok(key, props)
            elif witness[0] == "?":
                R.unclassified(key, "cannot evaluate: %s" % witness[1], props)
            else:
                R.violated(Finding("R12", props, f.file, f.name, anchor,
                                   "sprintf(%s, %s, ...): with %s = %d (admitted: %s..%s) the output needs %d bytes but the "
                                   "buffer holds %d" % (buf.text(), fm.text(), bname, witness[0], lo,
                                                        hi if hi is not None else "unbounded", witness[1], witness[2]), c.line))
    R.counts["sprintf_sites"] = nsites
    R.check_floor()
    return R


def _string_values(P, f, v):
    """finite set of literal strings an expression may denote, or None"""
    if v is None:
        return None
    v = v.strip()
    if v.k == "StringLiteral":
        return {v.val}
    if v.k == "ConditionalOperator":
        a, b = _string_values(P, f, v.kids[1]), _string_values(P, f, v.kids[2])
        return None if a is None or b is None else a | b
    if v.k == "DeclRefExpr" and v.refkind == "local":
        from ..canon import Canon
        cn = Canon(f)
        out = set()
        for kind, rhs in cn.defs.get(v.refdecl, []):
            if rhs is None:
                return None
            r = _string_values(P, f, rhs)
            if r is None:
                return None
            out |= r
        return out or None
    if v.k == "CallExpr":
        g = P.resolve_call(v, f)
        if g is not None and g.cfg is not None:
            out = set()
            for rt in g.returns():
                r = _string_values(P, g, rt.kids[0]) if rt.kids else None
                if r is None:
                    if rt.kids and rt.kids[0].strip().cv == 0:
                        continue
                    return None
                out |= r
            return out or None
    return None

"""R13 VLA-ORDER (C03, C11): a variable-length array is sized only from values that have already been validated.

For every local array whose extent is not a constant, the extent expression is reduced to the caller-supplied
quantities it depends on (parameters, fields of a by-value argument structure; single-definition locals expanded).
If the function *does* refuse bad values of such a quantity - an `if` that compares it and then reports a usage
error and leaves - that refusal must be executed before the array comes into existence (dominate its declaration).
A declaration in front of its own validation means the stack array is created with the unvalidated value: zero or
negative (undefined behaviour) or arbitrarily large (stack overflow) - the refusal that would have produced a
clean -1/EINVAL comes too late.
"""
from ..core import Finding, RuleResult
from ..facts import AnalysisBroken
from ..canon import Canon

PROPS = ("C03", "C11")
REPORTERS = ("_vnacal_error", "_vnadata_error")


def _pos(cfg, n):
    p = cfg.pos_of(n)
    if p is not None:
        return p
    for m in n.walk():          # a short-circuit condition is not an element itself: take its first evaluated part
        if m.id in cfg.pos:
            return cfg.pos[m.id]
    return None


def dominates(cfg, a, b):
    pa, pb = _pos(cfg, a), _pos(cfg, b)
    if pa is None or pb is None:
        return False
    if pa[0] == pb[0]:
        return pa[1] <= pb[1]
    return cfg.block_dominates(pa[0], pb[0])


def atoms(e, cn, out, depth=0):
    e = e.strip()
    if e.k == "DeclRefExpr":
        if e.refkind == "param":
            out.add(("p", e.refdecl, e.refname))
        elif e.refkind == "local":
            sd = cn.single_def(e.refdecl) if depth < 6 else None
            if sd is not None:
                atoms(sd, cn, out, depth + 1)
        return
    if e.k == "MemberExpr":
        b = e
        while b.k == "MemberExpr":
            b = b.kids[0].strip()
        if b.k == "DeclRefExpr" and b.refkind == "param" and not e.get("arrow"):
            out.add(("m", e.member, e.text()))
        return
    for k in e.kids:
        if k is not None:
            atoms(k, cn, out, depth)


def clamp(e, bad, cn):
    """(lower bounded by a positive constant, upper bounded by something independent of the atoms in `bad`)"""
    e = e.strip()
    if e.cv is not None:
        return (e.cv >= 1, True)
    own = set()
    atoms(e, cn, own)
    if not ({a[1] for a in own} & bad):
        return (False, True)
    if e.k == "ConditionalOperator":
        c, a, b = e.kids[0].strip(), e.kids[1].strip(), e.kids[2].strip()
        if c.k == "BinaryOperator" and c.op in ("<", "<=", ">", ">="):
            la, ua = clamp(a, bad, cn)
            lb, ub = clamp(b, bad, cn)
            x, y = c.kids[0].strip().text(), c.kids[1].strip().text()
            picks_smaller = (c.op in ("<", "<=") and a.text() == x and b.text() == y) or \
                            (c.op in (">", ">=") and a.text() == y and b.text() == x)
            picks_larger = (c.op in (">", ">=") and a.text() == x and b.text() == y) or \
                           (c.op in ("<", "<=") and a.text() == y and b.text() == x)
            if picks_smaller:       # MIN: bounded above if either operand is; below only if both are
                return (la and lb, ua or ub)
            if picks_larger:        # MAX: bounded below if either operand is; above only if both are
                return (la or lb, ua and ub)
            return (la and lb, ua and ub)
    return (False, False)


def run(P, tier="quick"):
    R = RuleResult("R13", "every variable-length array is declared after the refusals that validate the caller-supplied values its "
                   "extent depends on", floor=10)
    nv = 0
    for f in P.lib_functions():
        if f.cfg is None:
            continue
        vlas = [v for v in f.vardecls() if any(hasattr(d, "k") and d.k != "ConstSize" for d in (v.d.get("_dims") or []))]
        if not vlas:
            continue
        cn = Canon(f)
        # refusals: if (cond) { report USAGE; leave }
        refusals = []
        for n in f.walk():
            if n.k != "IfStmt":
                continue
            kids = [x for x in n.kids if x is not None]
            if len(kids) < 2:
                continue
            top = kids[1].kids if kids[1].k == "CompoundStmt" else [kids[1]]
            top = [x for x in top if x is not None]
            rep = any(c.callee in REPORTERS and len(c.args()) > 1 and "VNAERR_USAGE" in (c.args()[1].strip().refname or c.args()[1].text())
                      for t in top if t.k not in ("IfStmt", "ForStmt", "WhileStmt") for c in ([t] if t.k == "CallExpr" else t.calls()))
            leaves = any(t.k in ("ReturnStmt", "GotoStmt") for t in top)
            if rep and leaves:
                # only range tests count as validation of a size: X < k, X > extent, ... (not X != Y)
                ra = set()
                for t in kids[0].walk():
                    if t.k == "BinaryOperator" and t.op in ("<", "<=", ">", ">="):
                        atoms(t, cn, ra)
                if ra:
                    refusals.append((n, kids[0], ra))
        for v in vlas:
            ea = set()
            for d in v.d.get("_dims") or []:
                if hasattr(d, "k") and d.k != "ConstSize":
                    atoms(d, cn, ea)
            if not ea:
                continue
            nv += 1
            key = "R13|%s|%s|vla:%s" % (f.file, f.name, v.get("name"))
            late = []
            for (n, cond, ra) in refusals:
                common0 = {a[1] for a in ea} & {a[1] for a in ra}
                if common0 and all(clamp(d, common0, cn) == (True, True) for d in (v.d.get("_dims") or [])
                                   if hasattr(d, "k") and d.k != "ConstSize"):
                    continue        # MAX(1, MIN(value, full extent)): safe whatever the value is
                common = {a[1] for a in ea} & {a[1] for a in ra}
                # the declaration is executed on every path to the refusal: the array exists before the value is checked
                if common and dominates(f.cfg, v, cond) and not dominates(f.cfg, cond, v):
                    late.append((n, sorted(a[2] for a in ra if a[1] in common)))
            if not late:
                R.ok(key, PROPS)
            else:
                n, names = late[0]
                R.violated(Finding("R13", PROPS, f.file, f.name, "vla:" + (v.get("name") or "?"),
                                   "%s[%s] is declared at line %d, but %s is only validated at line %d (`%s`): the array is created with "
                                   "the unvalidated value (zero/negative: undefined behaviour; huge: stack overflow) before the call "
                                   "can be refused" % (v.get("name"), "][".join(d.text()[:30] for d in v.d.get("_dims") if hasattr(d, "text")),
                                                       v.line, ", ".join(names), n.line, [x for x in n.kids if x is not None][0].text()[:50]), v.line))
    R.counts["vlas_with_caller_extent"] = nv
    R.check_floor()
    return R

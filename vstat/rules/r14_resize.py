"""R14 VACATED-RESET (C15): vnadata_resize re-initialises every cell it vacates.

The invariant stated in vnadata_alloc.c - "cells beyond the current
frequencies, cells or ports values are always filled with initial values" -
is what makes a later regrow present 0 / 0 / 50 ohm.  The rule interprets the
*integer skeleton* of vnadata_resize (loop bounds, branch conditions, memset
offsets and lengths; no data value is computed and no library code runs) for
every combination of old and new dimensions in 0..2 and both z0 modes, and
collects which cells of the z0 vectors, the frequency vector and the data
matrices are reset.  Every cell with index inside the old logical size and
outside the new one must be covered.
"""
import itertools

from ..core import Finding, RuleResult
from ..facts import AnalysisBroken
from ..miniexec import MiniExec, Frame, UNKNOWN, Stop

FILE = "vnadata_alloc.c"
PROPS = ("C15",)


def _indices(e, ex, fr):
    """(array field name, [index values]) for nested subscripts rooted in a member"""
    idx = []
    x = e.strip()
    while x.k == "ArraySubscriptExpr":
        idx.append(ex.val(x.kids[1], fr))
        x = x.kids[0].strip()
    name = x.member if x.k == "MemberExpr" else None
    return name, list(reversed(idx))


def run(P, tier="quick"):
    R = RuleResult("R14", "for all old/new dimensions in 0..2 and both z0 modes, vnadata_resize resets every z0, frequency and "
                   "data cell that lies inside the old logical size and outside the new one (integer skeleton of the function "
                   "interpreted; no data values)", floor=4)
    f = P.need_func("vnadata_resize", FILE)
    perf = None
    for fn in P.all_functions():
        for n in fn.walk():
            if n.k == "IntegerLiteral" and n.macro == "VF_PER_F_Z0":
                perf = n.val
    if perf is None:
        raise AnalysisBroken("VF_PER_F_Z0 not found")
    rng = range(0, 3) if tier == "quick" else range(0, 4)
    nconf = 0
    ncommit = 0
    bad = {}
    for (orow, ocol, ofr, nrow, ncol, nfr, mode) in itertools.product(rng, rng, rng, rng, rng, rng, (0, 1)):
        nconf += 1
        events = []

        def on_store(l, v, fr, ex):
            name, idx = _indices(l, ex, fr)
            if not idx and l.k == "MemberExpr":
                fr.members[l.member] = v if v is not UNKNOWN else fr.members.get(l.member, UNKNOWN)
                fr.events.append(("field", l.member))
                return
            if name is not None and all(i is not UNKNOWN for i in idx):
                fr.events.append(("set", name, tuple(idx)))

        def on_call(c, fr, ex):
            if c.callee == "memset":
                a = c.args()
                d = a[0].strip()
                if d.k == "UnaryOperator" and d.op == "&":
                    name, idx = _indices(d.kids[0], ex, fr)
                else:
                    name, idx = _indices(d, ex, fr)
                    idx = idx + [0]
                ln = ex.val(a[2], fr)
                if name is not None and ln is not UNKNOWN and all(i is not UNKNOWN for i in idx):
                    esz = 16 if name == "vd_data" else 8
                    cnt = ln // esz
                    for k in range(cnt):
                        fr.events.append(("set", name, tuple(idx[:-1] + [idx[-1] + k])))
                return 0
            if c.callee in ("validate_type", "_vnadata_extend_p", "_vnadata_extend_m", "_vnadata_extend_f"):
                return 0        # assume success: the rule is about what a successful resize resets
            return None
        ex = MiniExec(on_call=on_call, on_store=on_store)
        fr = Frame({"rows": nrow, "columns": ncol, "frequencies": nfr, "type": 0},
                   {"vd_rows": orow, "vd_columns": ocol, "vd_frequencies": ofr, "vdi_flags": perf * mode,
                    "vdi_magic": None})
        # pretend the handle checks pass: vdp != NULL, magic ok
        fr.env["vdp"] = 1
        for n in f.walk():
            if n.k == "IntegerLiteral" and n.macro == "VDI_MAGIC":
                fr.members["vdi_magic"] = n.val
                break
        try:
            frames = ex.exec(f.body, [fr])
        except Stop as e:
            R.unclassified("R14|config", str(e))
            continue
        done = [g for g in frames if ("field", "vd_rows") in g.events]
        if not done:
            continue
        ncommit += 1
        for g in done:
            reset = {(e[1], e[2]) for e in g.events if e[0] == "set"}
            ocells, ncells = orow * ocol, nrow * ncol
            oports, nports = max(orow, ocol), max(nrow, ncol)
            missing = []
            # frequency vector
            for fi in range(nfr, ofr):
                if ("vd_frequency_vector", (fi,)) not in reset:
                    missing.append("vd_frequency_vector[%d]" % fi)
            # data cells
            for fi in range(ofr):
                for c in range(ocells):
                    if (fi >= nfr or c >= ncells) and ("vd_data", (fi, c)) not in reset:
                        missing.append("vd_data[%d][%d]" % (fi, c))
            # z0
            if mode:
                for fi in range(ofr):
                    for p in range(oports):
                        if (fi >= nfr or p >= nports) and ("vdi_z0_vector_vector", (fi, p)) not in reset:
                            missing.append("vdi_z0_vector_vector[%d][%d]" % (fi, p))
            else:
                for p in range(nports, oports):
                    if ("vdi_z0_vector", (p,)) not in reset:
                        missing.append("vdi_z0_vector[%d]" % p)
            if missing:
                kind = missing[0].split("[")[0]
                bad.setdefault(kind, ((orow, ocol, ofr, nrow, ncol, nfr, mode), missing))
    R.counts["configurations"] = nconf
    for kind in ("vd_frequency_vector", "vd_data", "vdi_z0_vector", "vdi_z0_vector_vector"):
        if kind in bad:
            cfg, missing = bad[kind]
            R.violated(Finding("R14", PROPS, FILE, "vnadata_resize", "vacated:" + kind,
                               "resizing %dx%d x %d frequencies -> %dx%d x %d (%s z0): vacated cell(s) %s are not reset to their "
                               "initial value, a later regrow exposes stale data" %
                               (cfg[0], cfg[1], cfg[2], cfg[3], cfg[4], cfg[5], "per-frequency" if cfg[6] else "ordinary",
                                ", ".join(missing[:4])), f.line))
        else:
            R.ok("R14|%s|vnadata_resize|vacated:%s" % (FILE, kind), set(PROPS))
    R.counts["configurations_reaching_the_dimension_commit"] = ncommit
    if ncommit < nconf * 0.9:
        raise AnalysisBroken("R14: only %d of %d configurations reached the end of vnadata_resize" % (ncommit, nconf))
    R.check_floor()
    return R

"""R14b REALLOC-INIT (C15, C03, C12): a grown vector of pointers has no indeterminate slots.

After `q = realloc(p, new * sizeof(T *))` of a vector whose elements are
pointers, the new tail [old, new) must be given defined values before the
function returns successfully: a memset on &q[old] (or &field[old]), or a
counted loop starting at the old size that stores into every element
*unconditionally*.  A loop that fills the slots only under some condition
leaves garbage pointers that a later realloc()/free() of the slot will use.
ALLOC-EXTENT: loops that reallocate the rows of such a vector run over the
vector's allocation extent (the field the growing function maintains), not
over the logical size.
"""
from ..core import Finding, RuleResult
from ..util import base_var

PROPS = {"C15", "C03", "C12"}
ALLOC_EXTENT = {"vdi_z0_vector_vector": "vdi_f_allocation", "vd_data": "vdi_f_allocation"}


def _is_ptr_vector(t):
    return t.endswith("**") or t.endswith("* *")


def run(P, tier="quick"):
    R = RuleResult("R14b", "every realloc of a vector of pointers is followed by a memset of the new tail or an unconditional "
                   "counted fill; row-reallocation loops run over the allocation extent", floor=4)
    nre = 0
    for f in P.lib_functions():
        if f.cfg is None:
            continue
        for c in f.calls("realloc"):
            if not _is_ptr_vector(c.args()[0].strip().ctype.replace("const ", "")):
                continue
            nre += 1
            src = c.args()[0].strip()
            fld = src.member if src.k == "MemberExpr" else (src.refname or src.text())
            # destination local (q) and the field it is published into
            q = None
            p = c.parent
            while p is not None and p.k in ("ImplicitCastExpr", "CStyleCastExpr", "ParenExpr"):
                p = p.parent
            if p is not None and p.k == "BinaryOperator" and p.op == "=":
                q = p.kids[0].strip()
            elif p is not None and p.k == "VarDecl":
                q = p
            names = {fld}
            if q is not None:
                names.add(q.refname if q.k == "DeclRefExpr" else q.get("name"))
            cpos = f.cfg.pos_of(c)
            # the local that receives the result may be reused for another vector later: its name only
            # stands for this vector until it is assigned again
            qname = q.refname if q is not None and q.k == "DeclRefExpr" else (q.get("name") if q is not None else None)
            qend = 10 ** 9
            if qname:
                for n in f.walk():
                    if n.k == "BinaryOperator" and n.op == "=" and n.kids[0].strip().k == "DeclRefExpr" and \
                            n.kids[0].strip().refname == qname and n.line > c.line and not n.is_ancestor_of(c):
                        qend = min(qend, n.line)
            filled = None
            why = "no memset or fill loop for the new tail"
            for n in f.walk():
                npos = f.cfg.pos_of(n)
                if npos is None and n.k == "ForStmt":
                    # a loop statement is no CFG element itself: it is where its condition (or initialiser) is
                    for kid in (n.kids[2], n.kids[0]):
                        if kid is not None and npos is None:
                            npos = f.cfg.pos_of(kid) or next((f.cfg.pos_of(x) for x in kid.walk() if f.cfg.pos_of(x) is not None), None)
                if npos is None or cpos is None:
                    continue
                after = (npos[0] == cpos[0] and npos[1] > cpos[1]) or (npos[0] != cpos[0] and npos[0] in f.cfg.reachable_from(cpos[0]))
                if not after:
                    continue
                if n.k == "CallExpr" and n.callee == "memset" and n.args():
                    d = n.args()[0].strip()
                    if d.k == "UnaryOperator" and d.op == "&" and d.kids[0].strip().k == "ArraySubscriptExpr":
                        b = d.kids[0].strip().kids[0].strip()
                        bn = b.member if b.k == "MemberExpr" else b.refname
                        if bn in names and not (bn == qname and n.line >= qend):
                            filled = "memset"
                if n.k == "ForStmt":
                    init = n.kids[0]
                    iv = None
                    start = None
                    if init is not None and init.k == "DeclStmt" and init.kids and init.kids[0].kids:
                        iv = init.kids[0].get("decl")
                        start = init.kids[0].kids[0].strip()
                    if iv is None or start is None or start.cv == 0:
                        continue
                    # stores into ARR[iv] directly in the loop body
                    body = n.kids[4]
                    for m in body.walk():
                        if m.k == "BinaryOperator" and m.op == "=":
                            l = m.kids[0].strip()
                            if l.k == "ArraySubscriptExpr" and l.kids[1].strip().k == "DeclRefExpr" and l.kids[1].strip().refdecl == iv:
                                b = l.kids[0].strip()
                                bn = b.member if b.k == "MemberExpr" else b.refname
                                if bn in names and not (bn == qname and m.line >= qend):
                                    # unconditional? no IfStmt between the loop body and the store whose condition is not
                                    # the allocation-failure test of the store itself
                                    cond_guard = None
                                    for anc in m.ancestors():
                                        if anc is body or anc is n:
                                            break
                                        if anc.k == "IfStmt":
                                            c0 = [x for x in anc.kids if x is not None][0]
                                            if not c0.is_ancestor_of(m):
                                                cond_guard = c0
                                    if cond_guard is None:
                                        filled = filled or "loop"
                                    elif filled is None:
                                        why = "slots [old,new) of %s are filled only when (%s) holds; otherwise they stay " \
                                              "indeterminate pointers" % (bn, cond_guard.text()[:70])
            key = "R14b|%s|%s|%s" % (f.file, f.name, fld)
            if filled:
                R.ok(key, PROPS)
            else:
                R.violated(Finding("R14b", PROPS, f.file, f.name, "tail:" + fld,
                                   "realloc of pointer vector %s: %s" % (fld, why), c.line))
    # ALLOC-EXTENT
    for f in P.lib_functions():
        if f.cfg is None:
            continue
        for lp in f.walk():
            if lp.k != "ForStmt":
                continue
            init = lp.kids[0]
            if init is None or init.k != "DeclStmt" or not init.kids:
                continue
            iv = init.kids[0].get("decl")
            cond = lp.kids[2].strip() if lp.kids[2] is not None else None
            for c in lp.kids[4].calls("realloc") if lp.kids[4] is not None else []:
                a = c.args()[0].strip()
                if a.k == "ArraySubscriptExpr" and a.kids[1].strip().k == "DeclRefExpr" and a.kids[1].strip().refdecl == iv:
                    b = a.kids[0].strip()
                    bn = b.member if b.k == "MemberExpr" else None
                    if bn in ALLOC_EXTENT and cond is not None and cond.k == "BinaryOperator":
                        bound = cond.kids[1].strip()
                        key = "R14b|%s|%s|rows-of:%s" % (f.file, f.name, bn)
                        if bound.k == "MemberExpr" and bound.member == ALLOC_EXTENT[bn]:
                            R.ok(key, PROPS)
                        else:
                            R.violated(Finding("R14b", PROPS, f.file, f.name, "rows-of:" + bn,
                                               "the rows of %s are reallocated for index < %s, but %s rows are allocated: rows "
                                               "beyond the logical size keep their old width while the recorded width grows" %
                                               (bn, bound.text(), ALLOC_EXTENT[bn]), lp.line))
    # ALLOC-EXTENT-STEP: a loop that allocates the rows one by one and can fail in the middle must advance the
    # allocation extent inside the loop, otherwise the rows allocated before the failure are not covered by it
    for f in P.lib_functions():
        if f.cfg is None:
            continue
        for lp in f.walk():
            if lp.k != "ForStmt" or lp.kids[4] is None:
                continue
            init = lp.kids[0]
            if init is None or init.k != "DeclStmt" or not init.kids:
                continue
            iv = init.kids[0].get("decl")
            body = lp.kids[4]
            rows = set()
            for m in body.walk():
                if m.k == "BinaryOperator" and m.op == "=" and m.kids[1].strip().k == "CallExpr" and \
                        m.kids[1].strip().callee in ("calloc", "malloc"):
                    l = m.kids[0].strip()
                    if l.k == "ArraySubscriptExpr" and l.kids[1].strip().k == "DeclRefExpr" and l.kids[1].strip().refdecl == iv:
                        b = l.kids[0].strip()
                        if b.k == "MemberExpr" and b.member in ALLOC_EXTENT:
                            rows.add(b.member)
            if not rows or not any(m.k == "ReturnStmt" for m in body.walk()):
                continue
            for bn in sorted(rows):
                ext = ALLOC_EXTENT[bn]
                stepped = any((m.k == "UnaryOperator" and m.op == "++" or m.k in ("BinaryOperator", "CompoundAssignOperator") and
                               m.op in ("=", "+=")) and m.kids[0].strip().k == "MemberExpr" and m.kids[0].strip().member == ext
                              for m in body.walk())
                key = "R14b|%s|%s|extent-step:%s" % (f.file, f.name, bn)
                if stepped:
                    R.ok(key, PROPS)
                else:
                    R.violated(Finding("R14b", PROPS, f.file, f.name, "extent-step:" + bn,
                                       "rows of %s are allocated one by one in a loop that can return on failure, but %s is not "
                                       "advanced inside the loop: rows allocated before a failing one are lost to free() and to "
                                       "the repeated call" % (bn, ext), lp.line))
    R.counts["pointer_vector_reallocs"] = nre
    R.check_floor()
    return R

"""R15 RET-FAIL and R16 REPORT-ONCE (C11, C20, C09, C12).

R15: on no path may a function deliver a success value after an error was
     reported on that path (by itself or by a callee whose failure edge it took).
R16a: on no path is the same error channel (vnacal / vnadata / yaml) reported twice.
R16b: a public function of a reporting family (vnacal_*, vnadata_*) must not
     return its failure value without any report when the failure stems from a
     failed system call (malloc/calloc/realloc/strdup/fopen/...), followed
     through silent callees.
"""
from ..core import Finding, RuleResult
from ..failflow import compute_fail_summaries

LOADERS = ("vnacal_load.c", "vnadata_load_touchstone.c", "vnadata_load_npd.c", "vnadata_load.c",
           "vnaproperty_import_yaml_from_string.c", "vnaproperty_import_yaml_from_file.c")
SOLVERS = ("vnacal_new_solve.c", "vnacal_new_solve_simple.c", "vnacal_new_solve_auto.c", "vnacal_new_solve_trl.c")


def _props(file):
    p = {"C11"}
    if file in LOADERS:
        p.add("C09")
    if file in SOLVERS:
        p.add("C20")
        p.add("C02")
    return p


def run(P, tier="quick"):
    S = compute_fail_summaries(P)
    R15 = RuleResult("R15", "constant propagation of returned values with report counting over every CFG path: a path on "
                     "which an error was reported (directly or by a callee whose failure edge was taken) must not end in "
                     "a success return value", floor=300)
    R16 = RuleResult("R16", "no path reports twice on the same error channel; a public vnacal_*/vnadata_* function does "
                     "not return failure silently when the cause is a failed system call", floor=150)
    nret = 0
    for key, s in sorted(S.items()):
        file, name = key.split(":")
        f = P.func(name, file)
        if f is None or not f.file.endswith(".c"):
            if f is None or f.file != "vnadata.h":
                continue
        bad15 = None
        dbl = {}
        sil = None
        for (val, nrep, cats, failed, flags, node, trace) in s.returns:
            nret += 1
            if val[0] == "ok" and nrep >= 1:
                if bad15 is None:
                    bad15 = (val, cats, node, trace)
            if val[0] == "fail" and nrep == 2:
                cal = sorted(c.split(":")[-1] for c in cats if ":callee:" in c)
                anchor = "after:" + (",".join(cal) if cal else "self")
                dbl.setdefault(anchor, (cats, node, trace))
            if val[0] == "fail" and nrep == 0 and "sysfail" in flags and "noerrfn" not in flags:
                public = (not f.static) and not name.startswith("_") and \
                    (file.startswith("vnacal") or file.startswith("vnadata")) and file != "vnacal_property.c"
                if public and sil is None:
                    sil = (failed, node, trace)
        k15 = "R15|%s|%s" % (file, name)
        if bad15:
            val, cats, node, trace = bad15
            R15.violated(Finding("R15", _props(file), file, name, "success-after-report",
                                 "returns success value %s at line %d on a path that reported %s" %
                                 (val[1], node.line if node else 0, ", ".join(sorted(cats))), node.line if node else 0, trace))
        else:
            R15.ok(k15, _props(file))
        if dbl:
            for anchor, (cats, node, trace) in sorted(dbl.items()):
                R16.violated(Finding("R16", _props(file) | {"C12"}, file, name, "double-report:" + anchor,
                                     "failure path reports twice on one channel (%s)" % ", ".join(sorted(cats)),
                                     node.line if node else 0, trace))
        else:
            R16.ok("R16|%s|%s|double" % (file, name), _props(file))
        if sil:
            failed, node, trace = sil
            R16.violated(Finding("R16", {"C11"}, file, name, "silent-system-failure:" + ",".join(sorted(failed)),
                                 "returns failure without any error report when %s fails (system failure followed "
                                 "through silent callees)" % ", ".join(sorted(failed)), node.line if node else 0, trace))
        elif not f.static and not name.startswith("_") and (file.startswith("vnacal") or file.startswith("vnadata")):
            R16.ok("R16|%s|%s|sys" % (file, name), {"C11"})
    # R16c: inside a loop, the failure of a callee that reports must end the loop: otherwise one failing
    # public call can emit one error line per iteration
    from .r25_loops import natural_loops
    from ..failflow import failure_value_kind
    from ..util import is_null
    nloopcalls = 0
    for f in P.lib_functions():
        if f.cfg is None:
            continue
        loops = None
        for c in f.calls():
            g = P.resolve_call(c, f)
            gs = S.get(g.key()) if g is not None else None
            if gs is None or not (1 in gs.fail_reports or 2 in gs.fail_reports):
                continue
            pos = f.cfg.pos_of(c)
            if pos is None:
                continue
            if failure_value_kind(g) != "minus1":
                continue        # value-returning accessors are used with indices known to be in range
            pv = c.parent
            while pv is not None and pv.k in ("ImplicitCastExpr", "ParenExpr"):
                pv = pv.parent
            if pv is not None and pv.k == "CStyleCastExpr" and pv.type == "void":
                continue        # explicitly ignored
            if loops is None:
                loops = natural_loops(f.cfg)
            inloops = [(h, body) for h, body in loops.items() if pos[0] in body]
            if not inloops:
                continue
            nloopcalls += 1
            body = set.union(*[b for _, b in inloops])
            # find the branch that tests the call (directly or through the variable it is assigned to)
            tested_exit = False
            tested = False
            var = None
            p = c.parent
            while p is not None and p.k in ("ImplicitCastExpr", "ParenExpr", "CStyleCastExpr"):
                p = p.parent
            if p is not None and p.k in ("BinaryOperator", "CompoundAssignOperator") and p.op in ("=", "|=", "+=", "&=") and \
                    p.kids[0].strip().k == "DeclRefExpr":
                var = p.kids[0].strip().refdecl
                accumulate = p.op != "="
            else:
                accumulate = False
            gk = failure_value_kind(g)
            for b in f.cfg.blocks.values():
                if b.cond is None or len(b.succs) != 2 or b.id not in body:
                    continue
                cc = b.cond.strip()
                neg = False
                while cc.k == "UnaryOperator" and cc.op == "!":
                    neg = not neg
                    cc = cc.kids[0].strip()
                subj = cc
                failv_true = None
                if cc.k == "BinaryOperator" and cc.op in ("==", "!="):
                    subj = cc.kids[0].strip()
                    rv = cc.kids[1].strip()
                    k = rv.cv if rv.cv is not None else (0 if is_null(rv) else None)
                    isfail = (gk in ("minus1", "huge") and k == -1) or (gk == "null" and k == 0)
                    if not isfail:
                        continue
                    failv_true = (cc.op == "==")
                elif gk == "null":
                    failv_true = False       # if (p) ... : true edge is success
                else:
                    continue
                if neg:
                    failv_true = not failv_true
                if subj.k == "BinaryOperator" and subj.op == "=":
                    subj = subj.kids[1].strip()
                hit = subj is c or (subj.k == "DeclRefExpr" and var is not None and subj.refdecl == var and not accumulate and
                                    f.cfg.node_dominates(c, b.cond))
                if not hit:
                    continue
                tested = True
                fail_succ = b.succs[0] if failv_true else b.succs[1]
                # does the failure edge leave every enclosing loop (without coming back)?
                if fail_succ is not None and not (f.cfg.reachable_from(fail_succ) | {fail_succ}) & {h for h, _ in inloops}:
                    tested_exit = True
            idx = [x for x in f.calls(c.callee)].index(c)
            key = "R16|%s|%s|loop-call:%s#%d" % (f.file, f.name, c.callee, idx)
            if tested_exit:
                R16.ok(key, _props(f.file))
            else:
                R16.violated(Finding("R16", _props(f.file), f.file, f.name, "repeated-report:%s#%d" % (c.callee, idx),
                                     "%s() reports its own failures and is called in a loop, but its failure %s: one failing call "
                                     "can produce several error reports" %
                                     (c.callee, "does not leave the loop" if tested else "is not tested before the next iteration"), c.line))
    R16.counts["reporting_calls_in_loops"] = nloopcalls
    R15.counts["return_paths_classified"] = nret
    R15.check_floor()
    R16.check_floor()
    return [R15, R16]

"""R15c IGNORED-FAILURE (C11, C09, C20): a failure value delivered by a library function is not dropped.

For every call of a library function that can return its failure value
(-1 / NULL, from the failure-discipline summaries): the value is tested,
returned, passed on, explicitly discarded with a (void) cast, or assigned to
a variable that is *read* on every path before it is overwritten or the
function ends.  `rc = f(); ...; rc = 0;` with no test in between loses the
failure: the caller reports success after f already reported an error.
"""
from ..core import Finding, RuleResult
from ..failflow import compute_fail_summaries

PROPS = {"C11"}
LOADERS = ("vnacal_load.c", "vnadata_load_touchstone.c", "vnadata_load_npd.c", "vnadata_load.c",
           "vnaproperty_import_yaml_from_string.c", "vnaproperty_import_yaml_from_file.c")


def _props(file):
    p = {"C11", "C12"}
    if file in LOADERS:
        p.add("C09")
    if file.startswith("vnacal_new_solve"):
        p.add("C20")
    return p


def _is_read(ref):
    p = ref.parent
    if p is None:
        return True
    if p.k == "BinaryOperator" and p.op == "=" and p.kids[0].strip() is ref and p.kids[0] is ref:
        return False
    if p.k == "ImplicitCastExpr" and p.get("cast") == "LValueToRValue":
        return True
    if p.k == "UnaryOperator" and p.op == "&":
        return True      # address taken: assume it is examined
    if p.k in ("CompoundAssignOperator",):
        return True
    if p.k == "ParenExpr":
        return _is_read(p)
    return p.k != "BinaryOperator" or p.op != "="


def lost_paths(f, assign_node, var):
    """True if the value stored by assign_node into var can be overwritten or reach the exit unread."""
    cfg = f.cfg
    pos = cfg.pos_of(assign_node)
    if pos is None:
        return None
    seen = set()
    work = [(pos[0], pos[1] + 1)]
    while work:
        bid, i0 = work.pop()
        b = cfg.blocks[bid]
        stop = False
        for el in b.elems[i0:]:
            if el.k == "DeclRefExpr" and el.refdecl == var:
                if _is_read(el):
                    stop = True
                    break
            if el.k == "BinaryOperator" and el.op == "=" and el.kids[0].strip().k == "DeclRefExpr" and \
                    el.kids[0].strip().refdecl == var and el is not assign_node:
                return el        # overwritten before any read
            if el.k == "ReturnStmt":
                # a return that does not read var: the value is lost; that matters when the
                # function then claims success
                v = el.kids[0].strip().cv if el.kids and el.kids[0] is not None else None
                if v is not None and v != -1 and f.cret in ("int", "long"):
                    return el
                stop = True
                break
        if stop:
            continue
        if b.noreturn:
            continue
        if bid == cfg.exit:
            continue
        for sb in b.succs:
            if sb is not None and sb not in seen:
                seen.add(sb)
                work.append((sb, 0))
    return None


def run(P, tier="quick"):
    R = RuleResult("R15c", "the failure value of every fallible library call is tested, returned, passed on, explicitly "
                   "(void)-discarded, or stored in a variable that is read on every path before being overwritten", floor=300)
    S = compute_fail_summaries(P)
    ncalls = 0
    for f in P.lib_functions():
        if f.cfg is None:
            continue
        for c in f.calls():
            g = P.resolve_call(c, f)
            if g is None:
                continue
            gs = S.get(g.key())
            if gs is None or not gs.can_fail:
                continue
            ncalls += 1
            idx = [x for x in f.calls(c.callee)].index(c)
            anchor = "%s#%d" % (c.callee, idx)
            key = "R15c|%s|%s|%s" % (f.file, f.name, anchor)
            p = c.parent
            while p is not None and p.k in ("ParenExpr", "ImplicitCastExpr"):
                p = p.parent
            if p is None:
                R.unclassified(key, "no parent", _props(f.file))
                continue
            if p.k == "CStyleCastExpr" and p.type == "void":
                R.ok(key, _props(f.file))
                continue
            var = None
            asg = None
            if p.k == "BinaryOperator" and p.op == "=" and p.kids[0].strip().k == "DeclRefExpr" and \
                    p.kids[0].strip().refkind in ("local", "param"):
                # is the assignment itself used as a value (e.g. inside a condition)?
                pp = p.parent
                while pp is not None and pp.k == "ParenExpr":
                    pp = pp.parent
                if pp is not None and pp.k not in ("CompoundStmt", "IfStmt", "ForStmt", "WhileStmt", "DoStmt", "CaseStmt",
                                                   "DefaultStmt", "LabelStmt", "SwitchStmt") or \
                        (pp is not None and pp.k in ("IfStmt", "WhileStmt", "DoStmt", "SwitchStmt") and
                         any(k is not None and k.is_ancestor_of(p) and k.k not in ("CompoundStmt",) and
                             k is [x for x in pp.kids if x is not None][0] for k in pp.kids)):
                    R.ok(key, _props(f.file))
                    continue
                var = p.kids[0].strip().refdecl
                asg = p
            elif p.k == "VarDecl":
                var = p.get("decl")
                asg = p
            elif p.k == "CompoundStmt" or p.k in ("IfStmt", "ForStmt", "WhileStmt", "DoStmt", "LabelStmt", "CaseStmt",
                                                  "DefaultStmt") and not any(
                    k is not None and k.is_ancestor_of(c) and k is [x for x in p.kids if x is not None][0] for k in p.kids
                    if p.k in ("IfStmt", "WhileStmt")):
                # expression statement: value discarded without a (void) cast
                if g.ret == "void" or (not gs.fail_reports and gs.silent_fail):
                    # nothing to lose, or the callee can only fail its (already validated) handle check
                    R.ok(key, _props(f.file))
                    continue
                R.violated(Finding("R15c", _props(f.file), f.file, f.name, anchor,
                                   "the result of %s() is discarded although the function can fail" % c.callee, c.line))
                continue
            else:
                R.ok(key, _props(f.file))
                continue
            if g.cret.endswith("*"):
                # pointer results: an unread NULL is harmless here (dereferences are R05's business)
                R.ok(key, _props(f.file))
                continue
            lost = lost_paths(f, asg, var)
            if lost is None:
                R.ok(key, _props(f.file))
            else:
                ln = getattr(lost, "line", 0) if not hasattr(lost, "elems") else 0
                how = "overwritten at line %d" % ln if getattr(lost, "k", "") == "BinaryOperator" else "never examined before the function returns"
                R.violated(Finding("R15c", _props(f.file), f.file, f.name, anchor,
                                   "the failure value of %s() stored in '%s' is %s on some path" %
                                   (c.callee, asg.kids[0].strip().refname if asg.k == "BinaryOperator" else asg.get("name"), how), c.line))
    R.counts["fallible_call_sites"] = ncalls
    R.check_floor()
    return R

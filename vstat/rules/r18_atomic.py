"""R18 FAIL-ATOMIC (C11, C13, C15, C10): a call that is refused for its arguments has not touched the object.

On every CFG path of every library function that receives an object (vnadata,
vnacal, vnacal_new, property root), no *mutation* of that object may precede a
*refusal*:
  mutation  a store through an lvalue rooted in the object parameter (or a local
            derived from it: vdip = VDP_TO_VDIP(vdp), vnphp = &vnp->vn_parameter_hash,
            anchor = rootptr), free()/memcpy()/memset() on such memory, or a call
            passing such a pointer to a library function summarised as mutating that
            parameter (summaries are computed with the constant arguments of the call
            site, so parse_and_descend(.., set=false, ..) is not a mutation);
  refusal   a VNAERR_USAGE report, `errno = EINVAL/ENOENT`, or the failure edge of a
            callee whose failing paths report VNAERR_USAGE - followed by a failure return.
System failures (ENOMEM, I/O) are not refusals.
"""
from ..core import Finding, RuleResult
from ..flow import Engine, TooManyStates
from ..consttrack import ConstTracker
from ..failflow import compute_fail_summaries, failure_value_kind, REPORTERS, FIXED_REPORTERS
from ..util import base_var, is_null

LATE_FAILURE_FILES = ("vnadata_load.c", "vnadata_load_npd.c", "vnadata_load_touchstone.c", "vnacal_load.c",
                      "vnaproperty_import_yaml_from_file.c", "vnaproperty_import_yaml_from_string.c")
OBJ_TYPES = ("vnadata_t *", "vnadata_internal_t *", "vnacal_t *", "vnacal_new_t *", "vnaproperty_t **",
             "struct vnaproperty **")
OBJ_CANON = {t.replace(" ", "") for t in OBJ_TYPES} | {"structvnacal_new*", "structvnadata*", "structvnacal*",
                                                        "structvnadata_internal*"}
EXT_MUTATORS = {"memcpy": 0, "memmove": 0, "memset": 0, "strcpy": 0, "strncpy": 0, "free": 0, "realloc": 0, "insque": 0}
EINVAL_VALUES = (22, 2)      # EINVAL, ENOENT


def obj_params(f):
    out = {}
    for i, p in enumerate(f.params):
        t = p["t"].replace("const ", "")
        if t in OBJ_TYPES:
            out[p["decl"]] = i
    return out


def carrier_params(f):
    """parameters that are argument structures passed by value and carry an object pointer in a member
    (vnacal_new_add_arguments_t vnaa: vnaa.vnaa_cmp) -> {decl: index}"""
    out = {}
    if f.body is None:
        return out
    byval = {p["decl"]: i for i, p in enumerate(f.params) if "*" not in p["t"] and p["t"].endswith("_t")}
    if not byval:
        return out
    for n in f.walk():
        if n.k == "MemberExpr" and not n.get("arrow") and (n.ctype or "").replace("const", "").replace(" ", "") in OBJ_CANON:
            b = n.kids[0].strip()
            if b.k == "DeclRefExpr" and b.refdecl in byval:
                out[b.refdecl] = byval[b.refdecl]
    return out


class Roots:
    """which object parameter (index) is an expression rooted in?"""

    def __init__(self, f, cn):
        self.f = f
        self.cn = cn
        self.params = obj_params(f)
        self.carriers = carrier_params(f)
        self.memo = {}

    def root(self, e, depth=0):
        e = e.strip() if e is not None else None
        if e is None or depth > 6:
            return None
        if e.k == "MemberExpr" and not e.get("arrow") and self.carriers:
            b = e.kids[0].strip()
            if b.k == "DeclRefExpr" and b.refdecl in self.carriers and "*" in (e.ctype or ""):
                t = (e.ctype or "").replace("const", "").replace(" ", "")
                if t in OBJ_CANON:
                    return self.carriers[b.refdecl]
        bv = base_var(e)
        if bv is None:
            # VDP_TO_VDIP pointer arithmetic: (T*)((char*)(vdp) - off)
            for m in e.walk():
                if m.k == "DeclRefExpr" and m.refdecl in self.params and "VDP_TO_VDIP" in e.macros:
                    return self.params[m.refdecl]
            if e.k == "BinaryOperator" and e.op in ("-", "+"):
                return self.root(e.kids[0], depth + 1)
            return None
        if bv.refdecl in self.params:
            return self.params[bv.refdecl]
        if bv.refkind == "local":
            if bv.refdecl in self.memo:
                return self.memo[bv.refdecl]
            self.memo[bv.refdecl] = None
            r = None
            ds = [rhs for kind, rhs in self.cn.defs.get(bv.refdecl, []) if rhs is not None and kind in ("init", "assign")]
            roots = {self.root(rhs, depth + 1) for rhs in ds if "*" in bv.ctype}
            roots.discard(None)
            if len(roots) == 1:
                r = roots.pop()
            self.memo[bv.refdecl] = r
            return r
        return None


class MutSummaries:
    def __init__(self, P):
        self.P = P
        self.memo = {}
        self.busy = set()

    def mutates(self, g, idx, consts):
        """may g modify memory reachable from its parameter idx, given constant values for other params?"""
        key = (g.key(), idx, tuple(sorted(consts.items())))
        if key in self.memo:
            return self.memo[key]
        if key in self.busy:
            return False
        self.busy.add(key)
        r = False
        if g.cfg is not None and idx < len(g.params):
            fixed = {}
            for i, v in consts.items():
                if i < len(g.params):
                    fixed[g.params[i]["decl"]] = v
            tr = MutReach(self.P, g, fixed, g.params[idx]["decl"], self)
            try:
                Engine(g, tr, 200000).run()
                r = tr.found is not None
            except TooManyStates:
                r = True
        self.busy.discard(key)
        self.memo[key] = r
        return r


def call_mutation(P, f, roots, call, MS, ints=None):
    """(object param index, description) if the call may mutate an object of f"""
    nm = call.callee
    if nm in REPORTERS or nm in FIXED_REPORTERS or nm in ("strerror", "__errno_location"):
        return None
    args = call.args()
    if nm in EXT_MUTATORS and len(args) > EXT_MUTATORS[nm]:
        r = roots.root(args[EXT_MUTATORS[nm]])
        if r is not None:
            a = args[EXT_MUTATORS[nm]].strip()
            # free(local) etc. are not object mutations; only memory reached through the object
            if base_var(a) is not None and (a.k != "DeclRefExpr" or a.refdecl in roots.params):
                return (r, "%s(%s)" % (nm, a.text()[:40]))
        return None
    g = P.resolve_call(call, f)
    if g is None or g.cfg is None:
        return None
    consts = {}
    for i, a in enumerate(args):
        c = a.strip().cv
        if c is None and ints is not None and a.strip().k == "DeclRefExpr":
            c = dict(ints).get(a.strip().refdecl)
        if c is not None:
            consts[i] = c
    for i, a in enumerate(args):
        a_s = a.strip()
        if "*" not in a_s.ctype and not a_s.ctype.endswith("]"):
            continue
        r = roots.root(a_s)
        if r is None:
            continue
        if MS.mutates(g, i, consts):
            return (r, "%s()" % nm)
    return None


_UR = {}


def usage_reporter(g):
    """void function all of whose reporter calls are VNAERR_USAGE reports and which has at least one, and stores nothing
    through its parameters"""
    k = g.key()
    if k not in _UR:
        cats = []
        for c in g.calls():
            if c.callee in REPORTERS and len(c.args()) > REPORTERS[c.callee]:
                cats.append(c.args()[REPORTERS[c.callee]].strip().refname)
        _UR[k] = bool(cats) and all(c == "VNAERR_USAGE" for c in cats) and (g.ret or "void") == "void"
    return _UR[k]


class MutReach(ConstTracker):
    """is a mutation through parameter `pdecl` reachable (with some parameters fixed to constants)?"""

    def __init__(self, P, fn, fixed, pdecl, MS):
        ConstTracker.__init__(self, fn, fixed)
        self.P = P
        self.MS = MS
        self.roots = Roots(fn, self.cn)
        self.roots.params = {pdecl: 0}
        self.found = None

    def on_node(self, ints, extra, n, ctx):
        if self.found is not None:
            return extra
        k = n.k
        if (k in ("BinaryOperator", "CompoundAssignOperator") and n.op and n.op.endswith("=") and
                n.op not in ("==", "!=", "<=", ">=")) or (k == "UnaryOperator" and n.op in ("++", "--")):
            l = n.kids[0].strip()
            if l.k != "DeclRefExpr" and self.roots.root(l) is not None:
                self.found = n
        elif k == "CallExpr":
            if call_mutation(self.P, self.fn, self.roots, n, self.MS, ints) is not None:
                self.found = n
        return extra


class AtomicTracker(ConstTracker):
    def __init__(self, P, fn, S, MS, usage_fail):
        ConstTracker.__init__(self, fn)
        self.P = P
        self.S = S
        self.MS = MS
        self.usage_fail = usage_fail
        self.roots = Roots(fn, self.cn)
        self.violations = {}          # (param index) -> (mutation node, refusal node, trace)
        self.kind = failure_value_kind(fn)
        self.nrefusals = 0

    def initial_extra(self):
        return frozenset()

    def on_node(self, ints, extra, n, ctx):
        k = n.k
        if (k in ("BinaryOperator", "CompoundAssignOperator") and n.op and n.op.endswith("=") and
                n.op not in ("==", "!=", "<=", ">=")) or (k == "UnaryOperator" and n.op in ("++", "--")):
            l = n.kids[0].strip()
            if l.k != "DeclRefExpr":
                r = self.roots.root(l)
                if r is not None:
                    return extra | {("mut", r, n.id)} if not any(x[0] == "mut" and x[1] == r for x in extra) else extra
                # errno = EINVAL / ENOENT
                if l.k == "UnaryOperator" and l.op == "*" and l.kids[0].strip().k == "CallExpr" and \
                        l.kids[0].strip().callee == "__errno_location" and n.kids[1].strip().cv in EINVAL_VALUES:
                    # `if (errno == 0) errno = EINVAL;` after a failed library call is a system failure, not a refusal
                    guarded = False
                    for anc in n.ancestors():
                        if anc.k == "IfStmt":
                            c0 = [x for x in anc.kids if x is not None][0]
                            if "__errno_location" in c0.text():
                                guarded = True
                            break
                    if not guarded:
                        return self._refuse(extra, n, ctx)
        elif k == "CallExpr":
            nm = n.callee
            cat = None
            if nm in REPORTERS and len(n.args()) > REPORTERS[nm]:
                cat = n.args()[REPORTERS[nm]].strip().refname
            elif nm in FIXED_REPORTERS:
                cat = FIXED_REPORTERS[nm]
            if cat is None and nm not in REPORTERS and nm not in FIXED_REPORTERS:
                # a void helper whose only job is to word a VNAERR_USAGE report (_vnacal_new_err_need_full_s)
                g = self.P.resolve_call(n, self.fn)
                if g is not None and g.body is not None and usage_reporter(g):
                    cat = "VNAERR_USAGE"
            if cat == "VNAERR_USAGE":
                return self._refuse(extra, n, ctx)
            m = call_mutation(self.P, self.fn, self.roots, n, self.MS, ints)
            if m is not None and not any(x[0] == "mut" and x[1] == m[0] for x in extra):
                return extra | {("mut", m[0], n.id)}
            if m is not None and any(x[0] == "mut" and x[1] == m[0] and x[2] == n.id for x in extra):
                # the same mutating call is executed again (a loop over cells): its refusal in this round comes after
                # the mutation of an earlier round
                return extra | {("again", m[0], n.id)}
        elif k == "ReturnStmt":
            if n.kids and n.kids[0].strip().k == "CallExpr":
                # `return g(...)`: the failure of g is the failure of this call
                call = n.kids[0].strip()
                g = self.P.resolve_call(call, self.fn)
                if g is not None and failure_value_kind(g) == self.kind and self.usage_fail(g) and self.delegated(call):
                    cm = call_mutation(self.P, self.fn, self.roots, call, self.MS, ints)
                    r_ = cm[0] if cm is not None else None
                    for x in list(extra):
                        if x[0] == "mut" and x[2] != call.id and (r_ is None or x[1] == r_):
                            self.nrefusals += 1
                            self.violations.setdefault(x[1], (self.fn.by_id.get(x[2]), call, ctx.trace()))
            pend = [x for x in extra if x[0] == "refused"]
            if pend and n.kids:
                e = n.kids[0].strip()
                v = e.cv if e.cv is not None else (0 if is_null(e) else None)
                if v is None and e.k == "DeclRefExpr":
                    v = dict(ints).get(e.refdecl)
                failing = (self.kind == "minus1" and v == -1) or (self.kind == "null" and v == 0) or \
                          (self.kind == "huge" and ("HUGE_VAL" in e.macros or v == -1)) or \
                          (self.kind and self.kind.startswith("enum") and v is not None and v < 0)
                if failing:
                    for (_, r, mid, rid) in pend:
                        self.violations.setdefault(r, (self.fn.by_id.get(mid), self.fn.by_id.get(rid), ctx.trace()))
        return extra

    def own_arguments(self, call):
        """does the call pass on something of this function's own plain arguments (a scalar parameter, a non-object
        member of a by-value argument structure), directly or through single-definition locals?  Values read out of
        another object (vdip_in->vdi_filetype) are not the caller's arguments: a callee cannot refuse them unless that
        object is already invalid."""
        objs = set(self.roots.params) | set(self.roots.carriers)
        plain = {p["decl"] for p in self.fn.params} - set(self.roots.params)

        def visit(e, depth=0):
            for m in e.walk():
                if m.k == "DeclRefExpr":
                    if m.refdecl in plain and m.refdecl not in self.roots.carriers:
                        return True
                    if m.refdecl in self.roots.carriers:
                        par = m.parent
                        while par is not None and par.k in ("ParenExpr", "ImplicitCastExpr"):
                            par = par.parent
                        t = (par.ctype or "").replace("const", "").replace(" ", "") if par is not None else ""
                        if par is not None and par.k == "MemberExpr" and t not in OBJ_CANON:
                            return True
                    if m.refkind == "local" and depth < 4:
                        d = self.cn.single_def(m.refdecl)
                        if d is not None and visit(d, depth + 1):
                            return True
            return False
        for a in call.args():
            if self.roots.root(a) is not None and a.strip().k in ("DeclRefExpr",):
                continue
            if visit(a):
                return True
        return False

    def delegated(self, call):
        """the plain parameters handed to the call have not been examined by this function itself (no condition in front
        of the call mentions them): their validation is delegated to the callee, so the callee's refusal is this
        function's argument refusal.  A function that has switched on / compared the value before has validated it and
        the callee can then only fail for resources."""
        plain = {p["decl"] for p in self.fn.params} - set(self.roots.params) - set(self.roots.carriers)
        passed = {m.refdecl for a in call.args() for m in a.walk() if m.k == "DeclRefExpr" and m.refdecl in plain}
        if not passed:
            return False
        for n in self.fn.walk():
            if n.k in ("IfStmt", "SwitchStmt", "ConditionalOperator", "WhileStmt", "ForStmt") and n.line < call.line:
                kids = [z for z in n.kids if z is not None]
                c = kids[0] if n.k != "ForStmt" else (n.kids[2] if n.kids[2] is not None else None)
                if c is not None and any(m.k == "DeclRefExpr" and m.refdecl in passed for m in c.walk()):
                    return False
        return True

    def _refuse(self, extra, n, ctx):
        self.nrefusals += 1
        muts = [x for x in extra if x[0] == "mut"]
        out = set(extra)
        for (_, r, mid) in muts:
            out.add(("refused", r, mid, n.id))
        return frozenset(out)

    def on_branch(self, ints, extra, cond, truth, ctx):
        # failure edge of a callee that refuses with VNAERR_USAGE
        c = cond.strip()
        while c.k == "UnaryOperator" and c.op == "!":
            truth = not truth
            c = c.kids[0].strip()
        call = None
        failv = None
        if c.k == "BinaryOperator" and c.op in ("==", "!="):
            a, b = c.kids[0].strip(), c.kids[1].strip()
            while a.k == "BinaryOperator" and a.op == "=":    # also `p = q = calloc(..)`
                a = a.kids[1].strip()
            if a.k == "CallExpr":
                call = a
                bv = b.cv if b.cv is not None else (0 if is_null(b) else None)
                if bv is not None:
                    eq = (c.op == "==") == truth
                    failv = bv if eq else None
        if call is not None and failv is not None:
            g = self.P.resolve_call(call, self.fn)
            if g is not None:
                gk = failure_value_kind(g)
                is_fail = (gk in ("minus1", "huge") and failv == -1) or (gk == "null" and failv == 0)
                if is_fail and self.usage_fail(g):
                    # only a pure checker's refusal is the caller's argument refusal; a callee that itself
                    # modifies the object fails "later in the work" and is judged inside that callee
                    cm = call_mutation(self.P, self.fn, self.roots, call, self.MS, ints)
                    if cm is None or (("again", cm[0], call.id) in extra and self.own_arguments(call)) or \
                            (any(x[0] == "mut" and x[1] == cm[0] and x[2] != call.id for x in extra) and self.delegated(call)):
                        # ... unless this function has itself modified the object before (vnadata_init empties the
                        # object, then lets vnadata_resize validate the arguments)
                        return self._refuse(extra, call, ctx)
        return extra


def run(P, tier="quick"):
    R = RuleResult("R18", "on no path does a store into (or mutating call on) the object precede a refusal (VNAERR_USAGE report, "
                   "errno = EINVAL/ENOENT, or failure of a callee that refuses) that ends in a failure return", floor=60)
    S = compute_fail_summaries(P)
    MS = MutSummaries(P)
    usage_memo = {}

    def usage_fail(g, depth=0):
        k = g.key()
        if k in usage_memo:
            return usage_memo[k]
        usage_memo[k] = False
        s = S.get(k)
        r = False
        if s is not None:
            for (val, nrep, cats, failed, flags, node, trace) in s.returns:
                if val[0] != "fail":
                    continue
                if any(c.endswith(":VNAERR_USAGE") for c in cats):
                    r = True
                    break
                for c in cats:
                    if ":callee:" in c and depth < 6:
                        h = P.functions.get(c.split(":")[-1])
                        if h is not None and usage_fail(h, depth + 1):
                            r = True
                if r:
                    break
        usage_memo[k] = r
        return r
    nf = 0
    for f in P.all_functions():
        if f.cfg is None or not (obj_params(f) or carrier_params(f)):
            continue
        if f.file.startswith("vnaconv") or f.file.startswith("vnacommon"):
            continue
        if f.file in LATE_FAILURE_FILES:
            continue        # loaders build the object while parsing: their failures are 'late', not argument refusals
        tr = AtomicTracker(P, f, S, MS, usage_fail)
        try:
            Engine(f, tr, 300000).run()
        except TooManyStates as e:
            R.unclassified("R18|%s|%s" % (f.file, f.name), str(e))
            continue
        if tr.nrefusals == 0:
            continue
        nf += 1
        props = {"C11"}
        if f.file.startswith("vnaproperty") or f.file == "vnacal_property.c":
            props.add("C13")
        if f.file.startswith("vnadata"):
            props.add("C15")
        if f.file in ("vnacal_new_parameter.c", "vnacal_new_set_m_error.c", "vnacal_new.c"):
            props.add("C10")
        if f.file == "vnadata_convert.c":
            props.add("C05")
        if not tr.violations:
            R.ok("R18|%s|%s" % (f.file, f.name), props)
            continue
        for r, (mut, ref, trace) in sorted(tr.violations.items()):
            pname = f.params[r]["name"]
            what = mut.text()[:70] if mut is not None else "?"
            # identity of the finding = (function, object): "this function is not atomic with respect to this object".
            # How the object is touched (a store, a helper call) is detail of the message: extracting the store into a
            # helper must not turn a recorded finding into a new one
            anchor = "not-atomic:%s" % pname
            R.violated(Finding("R18", props, f.file, f.name, anchor,
                               "object '%s' is modified at line %d (%s) on a path that is then refused at line %d and returns "
                               "failure: a refused call must leave the object unchanged" %
                               (pname, mut.line if mut is not None else 0, what, ref.line if ref is not None else 0),
                               ref.line if ref is not None else f.line, trace))
    R.counts["functions_with_refusals"] = nf
    R.check_floor()
    return R

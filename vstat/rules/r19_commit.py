"""R19b COMMIT-ORDER (C12): logical state is not committed before an allocation that can still fail.

On a path where an allocation fails (malloc/calloc/realloc/strdup returning NULL, or the
failure edge of a library callee whose failure can only stem from allocation) and the
function then returns its failure value, no *logical* state of a pre-existing object
(integer counters / indices / flags reached through an object parameter, or a hold taken
with _vnacal_hold_parameter) may have been changed before the failed allocation unless
the same field is written again on the failure path (undo).  Pointer fields (results of
realloc that must be published) are bookkeeping, not logical state, and are not counted.
"""
import re

from ..core import Finding, RuleResult
from ..flow import Engine, TooManyStates
from ..consttrack import ConstTracker
from ..failflow import compute_fail_summaries, failure_value_kind, EXT_FAIL_NULL
from ..util import base_var, is_null
from .r18_atomic import Roots, obj_params, carrier_params, LATE_FAILURE_FILES

# one symbol wide, one line of reason each
EXCEPTIONS = {
    ("_vnacal_new_solve_internal", "frequencies"): "reset to 0 together with free() of the vector it counts: a consistent empty state, "
                                                   "and the values are rewritten by the repeated solve",
}
HOLDS = {"_vnacal_hold_parameter": 0}
INT_T = ("int", "bool", "_Bool", "size_t", "unsigned int", "long", "uint32_t", "unsigned long")


class CommitTracker(ConstTracker):
    def __init__(self, P, fn, sysfail, modes=()):
        ConstTracker.__init__(self, fn)
        self.P = P
        self.sysfail = sysfail
        self.modes = modes
        self.roots = Roots(fn, self.cn)
        self.kind = failure_value_kind(fn)
        self.violations = {}
        self.nallocfail = 0

    def on_node(self, ints, extra, n, ctx):
        k = n.k
        if (k in ("BinaryOperator", "CompoundAssignOperator") and n.op and n.op.endswith("=") and
                n.op not in ("==", "!=", "<=", ">=")) or (k == "UnaryOperator" and n.op in ("++", "--")):
            l = n.kids[0].strip()
            if l.k == "MemberExpr" and l.ctype in INT_T and self.roots.root(l) is not None and \
                    not (l.member or "").endswith("_allocation") and (self.fn.name, l.member) not in EXCEPTIONS:
                fld = l.member
                if any(x[0] == "failed" for x in extra):
                    # a store on the failure path: undo of the same field
                    return frozenset(x for x in extra if not (x[0] == "commit" and x[1] == fld))
                return extra | {("commit", fld, n.id)}
            # a *mode switch*: a pointer member whose being non-NULL other files read as "feature enabled"
            # (vn_m_error_vector), set from NULL to a fresh allocation under `if (<it> == NULL)`
            if l.k == "MemberExpr" and "*" in (l.ctype or "") and l.member in self.modes and self.roots.root(l) is not None:
                fld = "mode:" + l.member
                if any(x[0] == "failed" for x in extra):
                    return frozenset(x for x in extra if not (x[0] == "commit" and x[1] == fld))
                r = n.kids[1].strip()
                for a in n.ancestors():
                    if a.k == "IfStmt":
                        kids = [z for z in a.kids if z is not None]
                        if len(kids) >= 2 and kids[1].is_ancestor_of(n):
                            for t in kids[0].walk():
                                if t.k == "BinaryOperator" and t.op == "==" and (is_null(t.kids[1]) or is_null(t.kids[0])):
                                    o = t.kids[0].strip() if is_null(t.kids[1]) else t.kids[1].strip()
                                    if (o.k == "MemberExpr" and o.member == l.member) or \
                                            (o.k == "DeclRefExpr" and r.k == "DeclRefExpr" and o.refdecl == r.refdecl):
                                        return extra | {("commit", fld, n.id)}
        elif k == "CallExpr":
            if n.callee in HOLDS:
                if any(x[0] == "failed" for x in extra):
                    return extra
                return extra | {("commit", "hold:" + n.args()[0].text()[:30], n.id)}
            if n.callee == "_vnacal_release_parameter" and any(x[0] == "failed" for x in extra):
                return frozenset(x for x in extra if not (x[0] == "commit" and str(x[1]).startswith("hold:")))
        elif k == "ReturnStmt":
            if any(x[0] == "failed" for x in extra) and n.kids:
                e = n.kids[0].strip()
                v = e.cv if e.cv is not None else (0 if is_null(e) else None)
                if v is None and e.k == "DeclRefExpr":
                    v = dict(ints).get(e.refdecl)
                failing = (self.kind == "minus1" and v == -1) or (self.kind == "null" and v == 0)
                if failing:
                    for x in extra:
                        if x[0] == "commit":
                            fa = [y for y in extra if y[0] == "failed"][0]
                            self.violations.setdefault(x[1], (self.fn.by_id.get(x[2]), self.fn.by_id.get(fa[1]), ctx.trace()))
        return extra

    def on_branch(self, ints, extra, cond, truth, ctx):
        c = cond.strip()
        while c.k == "UnaryOperator" and c.op == "!":
            truth = not truth
            c = c.kids[0].strip()
        call = None
        nulledge = None
        if c.k == "BinaryOperator" and c.op in ("==", "!="):
            a, b = c.kids[0].strip(), c.kids[1].strip()
            while a.k == "BinaryOperator" and a.op == "=":    # also `p = q = calloc(..)`
                a = a.kids[1].strip()
            bv = b.cv if b.cv is not None else (0 if is_null(b) else None)
            if a.k == "CallExpr" and bv is not None:
                call = a
                eq = (c.op == "==") == truth
                nulledge = bv if eq else None
            elif a.k == "DeclRefExpr" and bv == 0:
                # p == NULL where p was assigned from an allocator just before
                d = self.cn.defs.get(a.refdecl, [])
                for kind, rhs in d:
                    if rhs is not None and rhs.strip().k == "CallExpr" and self.fn.cfg.node_dominates(rhs.strip(), cond):
                        call = rhs.strip()
                        eq = (c.op == "==") == truth
                        nulledge = 0 if eq else None
        if call is not None and nulledge is not None:
            nm = call.callee
            isalloc = False
            if nm in EXT_FAIL_NULL and nulledge == 0:
                isalloc = True
            else:
                g = self.P.resolve_call(call, self.fn)
                if g is not None:
                    gk = failure_value_kind(g)
                    if ((gk == "minus1" and nulledge == -1) or (gk == "null" and nulledge == 0)) and self.sysfail(g):
                        isalloc = True
            if isalloc:
                self.nallocfail += 1
                return extra | {("failed", call.id)}
        return extra


def run(P, tier="quick"):
    R = RuleResult("R19b", "on an allocation-failure path that ends in a failure return, no integer counter/index/flag of a "
                   "pre-existing object and no parameter hold has been changed before the failed allocation without being "
                   "undone on that path", floor=25)
    S = compute_fail_summaries(P)
    memo = {}

    def sysfail(g, depth=0):
        """can g fail because an allocation failed (and only report SYSTEM / nothing on that path)?"""
        k = g.key()
        if k in memo:
            return memo[k]
        memo[k] = False
        s = S.get(k)
        r = False
        if s is not None:
            for (val, nrep, cats, failed, flags, node, trace) in s.returns:
                if val[0] != "fail":
                    continue
                if any(x in EXT_FAIL_NULL for x in failed) and not any(c.endswith(":VNAERR_USAGE") or c.endswith(":VNAERR_SYNTAX") for c in cats):
                    r = True
                    break
                for h in failed:
                    hf = P.functions.get(h)
                    if hf is not None and depth < 6 and sysfail(hf, depth + 1):
                        r = True
                if r:
                    break
        memo[k] = r
        return r
    # mode switches: pointer members compared with NULL in at least three functions spread over at least two files
    tests = {}
    for f in P.lib_functions():
        if f.body is None:
            continue
        for n in f.walk():
            if n.k == "BinaryOperator" and n.op in ("==", "!="):
                a, b = n.kids[0].strip(), n.kids[1].strip()
                for x, y in ((a, b), (b, a)):
                    if x.k == "MemberExpr" and "*" in (x.ctype or "") and is_null(y):
                        tests.setdefault(x.member, set()).add((f.file, f.name))
    modes = {m for m, fs in tests.items() if len(fs) >= 3 and len({fl for fl, _ in fs}) >= 2}
    R.counts["mode_switch_members"] = len(modes)
    nf = 0
    for f in P.lib_functions():
        if f.cfg is None or f.file in LATE_FAILURE_FILES:
            continue
        # objects: the handle types of R18, and any non-const pointer to a library structure (internal nodes such as the
        # property-list node a static helper extends)
        extra = {p["decl"]: i for i, p in enumerate(f.params)
                 if re.match(r"^(struct )?vna\w+ \*$", (p.get("t") or "")) and "const" not in (p.get("t") or "")}
        # a function that memsets the whole structure is its constructor: nothing "pre-existing" is committed
        for c in f.calls("memset"):
            a0 = c.args()[0].strip() if c.args() else None
            if a0 is not None and a0.k == "DeclRefExpr" and a0.refdecl in extra:
                extra.pop(a0.refdecl)
        if not obj_params(f) and not extra and not carrier_params(f):     # (an argument structure passed by value carries the object)
            continue
        tr = CommitTracker(P, f, sysfail, modes)
        for d, i in extra.items():
            tr.roots.params.setdefault(d, i)
        try:
            Engine(f, tr, 300000).run()
        except TooManyStates as e:
            R.unclassified("R19b|%s|%s" % (f.file, f.name), str(e), {"C12", "C11"})
            continue
        if tr.nallocfail == 0:
            continue
        nf += 1
        if not tr.violations:
            R.ok("R19b|%s|%s" % (f.file, f.name), {"C12", "C11"})
            continue
        for fld, (mut, fail, trace) in sorted(tr.violations.items(), key=lambda kv: str(kv[0])):
            R.violated(Finding("R19b", {"C12", "C11"}, f.file, f.name, "commit:%s" % fld,
                               "%s at line %d changes the object before %s() at line %d, whose failure makes the call return its "
                               "failure value without undoing it: a failed call leaves a trace and the repeated call behaves "
                               "differently" % (mut.text()[:60] if mut is not None else fld, mut.line if mut is not None else 0,
                                                fail.callee if fail is not None else "?", fail.line if fail is not None else 0),
                               fail.line if fail is not None else f.line, trace))
    R.counts["functions_with_allocation_failure_paths"] = nf
    R.check_floor()
    return R

"""R20 HALF-BUILT (C12, C09, C03): an object handed to its destructor on a failure path satisfies the destructor's contract.

Destructor contracts are discovered: a function containing  for (i = 0; i < P->N; ++i) free(P->V[i])  (no NULL test
of P->V in front) relies on "N > 0 implies V points to at least N slots", and releases exactly the first N elements.
For every function that stores a (non-zero) value into ->N and also creates ->V with an allocation call:
  ORDER   the store to N is executed only after V has been allocated *and checked*: the check `V == NULL -> leave`
          dominates the store.  Otherwise an allocation failure in between sends an object with N > 0 and V == NULL to
          the destructor, which dereferences NULL.
  COVER   the store to N dominates every allocation of an element V[i] (or N is advanced inside the same loop):
          otherwise elements allocated before a later failure are not released by the destructor (leak).
Both halves are failure-path properties no test executes; each looks fine when the other site is not in view.
"""
from ..core import Finding, RuleResult
from ..facts import AnalysisBroken
from ..util import is_null

PROPS = ("C12", "C09", "C03")
ALLOCS = ("malloc", "calloc", "realloc")


def destructor_pairs(P):
    pairs = {}
    for f in P.lib_functions():
        if f.body is None:
            continue
        for n in f.walk():
            if n.k != "ForStmt" or n.kids[2] is None or n.kids[4] is None:
                continue
            c = n.kids[2].strip()
            if c.k != "BinaryOperator" or c.op != "<" or c.kids[1].strip().k != "MemberExpr":
                continue
            N = c.kids[1].strip().member
            for m in n.kids[4].walk():
                if m.k == "CallExpr" and (m.callee == "free" or (m.callee or "").endswith("_free")):
                    for a in m.args():
                        a = a.strip()
                        if a.k == "ArraySubscriptExpr" and a.kids[0].strip().k == "MemberExpr":
                            pairs.setdefault((N, a.kids[0].strip().member), []).append(f)
            # a destructor that walks V[0..N) (takes an element's address, reads a member of it) relies on V as well
            if is_destructor(f):
                lv = n.kids[0]
                lvd = None
                if lv is not None:
                    for m in lv.walk():
                        if m.k == "VarDecl":
                            lvd = m.get("decl")
                for m in n.kids[4].walk():
                    if m.k == "ArraySubscriptExpr" and m.kids[0].strip().k == "MemberExpr" and \
                            m.kids[1].strip().k == "DeclRefExpr" and m.kids[1].strip().refdecl == lvd:
                        V = m.kids[0].strip()
                        # no NULL test of V around the loop
                        guarded = any(a_.k == "IfStmt" and V.member in [x for x in a_.kids if x is not None][0].text() and
                                      "vn_magic" not in [x for x in a_.kids if x is not None][0].text()
                                      for a_ in n.ancestors())
                        if not guarded and f not in pairs.get((N, V.member), []):
                            pairs.setdefault((N, V.member), []).append(f)
    return pairs


def is_destructor(f):
    if f.body is None or not f.params:
        return False
    p0 = f.params[0]["decl"]
    return any(c.args() and c.args()[0].strip().k == "DeclRefExpr" and c.args()[0].strip().refdecl == p0 for c in f.calls("free"))


def deref_members(f):
    """pointer members M of the destructor's parameter that it dereferences on every call without testing M:
    `T *x = P->M;` followed by x->..., or P->M->... directly, outside any `if` that mentions M"""
    out = {}
    if not is_destructor(f):
        return out
    p0 = f.params[0]["decl"]
    alias = {}
    for v in f.vardecls():
        if v.kids:
            r = v.kids[0].strip()
            if r.k == "MemberExpr" and r.kids[0].strip().k == "DeclRefExpr" and r.kids[0].strip().refdecl == p0 and "*" in (r.ctype or ""):
                alias[v.get("decl")] = r.member
    for n in f.walk():
        if n.k != "MemberExpr" or not n.get("arrow"):
            continue
        b = n.kids[0].strip()
        M = None
        if b.k == "DeclRefExpr" and b.refdecl in alias:
            M = alias[b.refdecl]
        elif b.k == "MemberExpr" and b.kids[0].strip().k == "DeclRefExpr" and b.kids[0].strip().refdecl == p0 and "*" in (b.ctype or ""):
            M = b.member
        if M is None:
            continue
        tested = False
        for a_ in n.ancestors():
            ct = None
            if a_.k in ("IfStmt", "WhileStmt", "ConditionalOperator"):
                ct = [x for x in a_.kids if x is not None][0]
            elif a_.k == "ForStmt":
                ct = a_.kids[2]
            if ct is not None and not (ct.id == n.id or ct.is_ancestor_of(n)):
                names = {m.member for m in ct.walk() if m.k == "MemberExpr"} | \
                        {alias.get(m.refdecl) for m in ct.walk() if m.k == "DeclRefExpr"}
                if M in names:
                    tested = True
        if not tested:
            out.setdefault(M, n)
    # circular list sentinel: `while (P->H.l_forw != &P->H)` assumes the head was linked to itself
    for n in f.walk():
        if n.k == "BinaryOperator" and n.op == "!=":
            a, b = n.kids[0].strip(), n.kids[1].strip()
            for x, y in ((a, b), (b, a)):
                if x.k == "MemberExpr" and y.k == "UnaryOperator" and y.op == "&" and y.kids[0].strip().k == "MemberExpr":
                    head = y.kids[0].strip()
                    inner = x.kids[0].strip()
                    if inner.k == "MemberExpr" and inner.member == head.member and \
                            head.kids[0].strip().k == "DeclRefExpr" and head.kids[0].strip().refdecl == p0:
                        out.setdefault("%s.%s" % (head.member, x.member), n)
    return out


def dominates(cfg, a, b):
    """CFG element containing a is executed on every path to the element containing b"""
    pa, pb = cfg.pos_of(a), cfg.pos_of(b)
    if pa is None or pb is None:
        return False
    if pa[0] == pb[0]:
        return pa[1] <= pb[1]
    return cfg.block_dominates(pa[0], pb[0])


def run(P, tier="quick"):
    R = RuleResult("R20", "where a destructor frees V[0..N) without testing V, every constructor stores N only after V was allocated "
                   "and checked, and before (or together with) the allocation of the elements", floor=1)
    pairs = destructor_pairs(P)
    if not pairs:
        raise AnalysisBroken("R20: no count/vector destructor loop found (4 confirmed by hand)")
    R.counts["destructor_pairs"] = len(pairs)
    n_ctor = 0
    for (N, V), dtors in sorted(pairs.items()):
        for f in P.lib_functions():
            if f.body is None or f.cfg is None or f in dtors:
                continue
            nstores, vstores, estores = [], [], []
            for n in f.walk():
                if n.k == "BinaryOperator" and n.op == "=":
                    l, r = n.kids[0].strip(), n.kids[1].strip()
                    if l.k == "MemberExpr" and l.member == N and r.cv != 0:
                        nstores.append(n)
                    if l.k == "MemberExpr" and l.member == V and any(c.callee in ALLOCS for c in ([r] if r.k == "CallExpr" else r.calls())):
                        vstores.append(n)
                    if l.k == "ArraySubscriptExpr" and l.kids[0].strip().k == "MemberExpr" and l.kids[0].strip().member == V and \
                            any(c.callee in ALLOCS for c in ([r] if r.k == "CallExpr" else r.calls())):
                        estores.append(n)
            if not nstores or not vstores:
                continue
            n_ctor += 1
            key = "R20|%s|%s|%s/%s" % (f.file, f.name, N, V)
            bad = None
            for ns in nstores:
                # ORDER: some V store dominates, and a NULL test of V lies between them
                doms = [vs for vs in vstores if dominates(f.cfg, vs, ns)]
                if not doms:
                    bad = ("order", ns, "%s is set to `%s` at line %d before %s has been allocated and checked (line %d): if that "
                           "allocation fails, %s() is given an object with %s > 0 and %s == NULL and dereferences it" %
                           (N, ns.kids[1].text(), ns.line, V, vstores[0].line, dtors[0].name, N, V))
                    break
                checked = False
                for t in f.walk():
                    if t.k == "IfStmt":
                        c = [x for x in t.kids if x is not None][0]
                        cs = c.strip()
                        def _is_v(x):
                            x = x.strip()
                            while x.k == "BinaryOperator" and x.op == "=":      # (P->V = alloc()) == NULL
                                x = x.kids[0].strip()
                            return x.k == "MemberExpr" and x.member == V
                        isnull = (cs.k == "BinaryOperator" and cs.op == "==" and
                                  any(_is_v(x) for x in cs.kids) and
                                  any(is_null(x) for x in cs.kids)) or \
                                 (cs.k == "UnaryOperator" and cs.op == "!" and cs.kids[0].strip().k == "MemberExpr" and
                                  cs.kids[0].strip().member == V)
                        # the test must lie between the allocation and the store of N, and the store must be on its
                        # "allocation succeeded" side: not inside the branch taken when V is NULL
                        kids_t = [x for x in t.kids if x is not None]
                        if isnull and dominates(f.cfg, doms[0], c) and dominates(f.cfg, c, ns) and \
                                f.cfg.pos_of(c) != f.cfg.pos_of(ns) and not kids_t[1].is_ancestor_of(ns):
                            checked = True
                if not checked:
                    bad = ("order", ns, "%s is set at line %d before the allocation of %s (line %d) has been checked" %
                           (N, ns.line, V, doms[0].line))
                    break
            if bad is None:
                for es in estores:
                    inloop = [a for a in es.ancestors() if a.k in ("ForStmt", "WhileStmt")]
                    adv = any(m.k in ("UnaryOperator", "CompoundAssignOperator") and m.kids[0].strip().k == "MemberExpr" and
                              m.kids[0].strip().member == N for lp in inloop for m in lp.walk())
                    if not adv and not any(dominates(f.cfg, ns, es) for ns in nstores):
                        bad = ("cover", es, "elements of %s are allocated at line %d before %s is set (line %d): when a later element "
                               "allocation fails, %s() sees %s == 0 and the elements already allocated leak" %
                               (V, es.line, N, nstores[0].line, dtors[0].name, N))
                        break
            if bad is None:
                R.ok(key, PROPS)
            else:
                R.violated(Finding("R20", PROPS, f.file, f.name, "%s:%s/%s" % (bad[0], N, V), bad[2], bad[1].line))
    # DEREF: members the destructor dereferences untested must be set on every path on which a constructor hands the
    # half-built object to it
    from ..flow import Engine, Tracker, TooManyStates

    class SetTracker(Tracker):
        def __init__(self, obj, members, dname):
            self.obj, self.members, self.dname = obj, members, dname
            self.bad = {}
            self.ncalls = 0

        def initial(self, fn):
            return frozenset()

        def step(self, st, n, ctx):
            if n.k == "BinaryOperator" and n.op == "=" and n.kids[0].strip().k == "DeclRefExpr" and \
                    n.kids[0].strip().refdecl == self.obj:
                r = n.kids[1].strip()
                while r.k == "BinaryOperator" and r.op == "=":
                    r = r.kids[1].strip()
                if r.k == "CallExpr" and r.callee in ALLOCS:
                    return [frozenset({"<alloc>"})]
                return [frozenset()]          # NULL / handed over: the destructor call is a no-op or not ours
            if n.k == "BinaryOperator" and n.op == "=":
                t = n
                while t.k == "BinaryOperator" and t.op == "=":
                    l = t.kids[0].strip()
                    if l.k == "MemberExpr" and l.member in self.members and l.kids[0].strip().k == "DeclRefExpr" and \
                            l.kids[0].strip().refdecl == self.obj and not (t.kids[1].strip().cv == 0):
                        st = st | {l.member}
                    elif l.k == "MemberExpr" and l.kids[0].strip().k == "MemberExpr" and \
                            "%s.%s" % (l.kids[0].strip().member, l.member) in self.members:
                        b_ = l.kids[0].strip().kids[0].strip()
                        if b_.k == "DeclRefExpr" and b_.refdecl == self.obj:
                            st = st | {"%s.%s" % (l.kids[0].strip().member, l.member)}
                    t = t.kids[1].strip()
                return [st]
            if n.k == "CallExpr" and n.callee == self.dname and n.args() and n.args()[0].strip().k == "DeclRefExpr" and \
                    n.args()[0].strip().refdecl == self.obj:
                self.ncalls += 1
                if "<alloc>" in st:
                    for m in self.members:
                        if m not in st:
                            self.bad.setdefault(m, (n, ctx.trace()))
            return [st]

        def branch(self, st, cond, truth, ctx):
            # the destructor is a no-op for a NULL object: `obj == NULL` edges do not count
            c = cond.strip()
            if c.k == "BinaryOperator" and c.op in ("==", "!="):
                a, b = c.kids[0].strip(), c.kids[1].strip()
                while a.k == "BinaryOperator" and a.op == "=":
                    a = a.kids[0].strip()
                if a.k == "DeclRefExpr" and a.refdecl == self.obj and (b.cv == 0 or b.k == "GNUNullExpr"):
                    if (c.op == "==") == truth:
                        return None
            return st
    n_deref = 0
    for D in P.lib_functions():
        need = deref_members(D)
        if not need:
            continue
        for C in P.lib_functions():
            if C.cfg is None or C.key() == D.key() or not C.calls(D.name):
                continue
            # the object must be one this function allocates (a local assigned from malloc/calloc)
            objs = set()
            for n in C.walk():
                if n.k == "BinaryOperator" and n.op == "=" and n.kids[0].strip().k == "DeclRefExpr" and n.kids[0].strip().refkind == "local":
                    r = n.kids[1].strip()
                    while r.k == "BinaryOperator" and r.op == "=":
                        r = r.kids[1].strip()
                    if r.k == "CallExpr" and r.callee in ALLOCS:
                        objs.add(n.kids[0].strip().refdecl)
            for c in C.calls(D.name):
                a0 = c.args()[0].strip() if c.args() else None
                if a0 is None or a0.k != "DeclRefExpr" or a0.refdecl not in objs:
                    continue
                tr = SetTracker(a0.refdecl, set(need), D.name)
                try:
                    Engine(C, tr, 200000).run()
                except TooManyStates:
                    R.unclassified("R20|%s|%s|deref:%s" % (C.file, C.name, D.name), "too many states", PROPS)
                    break
                n_deref += 1
                key = "R20|%s|%s|deref:%s" % (C.file, C.name, D.name)
                if not tr.bad:
                    R.ok(key, PROPS)
                for m, (n, trace) in sorted(tr.bad.items()):
                    R.violated(Finding("R20", PROPS, C.file, C.name, "deref:%s.%s" % (D.name, m),
                                       "%s() is given the half-built object at line %d on a path on which %s has not been set yet, "
                                       "and %s() dereferences %s without a test (line %d): a failure before that store (an "
                                       "allocation failure) crashes in the clean-up" %
                                       (D.name, n.line, m, D.name, m, need[m].line), n.line, trace))
                break
    R.counts["deref_contracts"] = n_deref
    R.counts["constructors"] = n_ctor
    if n_ctor < 1:
        raise AnalysisBroken("R20: no constructor storing both a count and its vector found (_vnacal_calibration_alloc expected)")
    R.check_floor()
    return R

"""R20 HALF-BUILT (C12, C09, C03): an object handed to its destructor on a failure path satisfies the destructor's contract.

Destructor contracts are discovered: a function containing  for (i = 0; i < P->N; ++i) free(P->V[i])  (no NULL test
of P->V in front) relies on "N > 0 implies V points to at least N slots", and releases exactly the first N elements.
For every function that stores a (non-zero) value into ->N and also creates ->V with an allocation call:
  ORDER   the store to N is executed only after V has been allocated *and checked*: the check `V == NULL -> leave`
          dominates the store.  Otherwise an allocation failure in between sends an object with N > 0 and V == NULL to
          the destructor, which dereferences NULL.
  COVER   the store to N dominates every allocation of an element V[i] (or N is advanced inside the same loop):
          otherwise elements allocated before a later failure are not released by the destructor (leak).
Both halves are failure-path properties no test executes; each looks fine when the other site is not in view.
"""
from ..core import Finding, RuleResult
from ..facts import AnalysisBroken
from ..util import is_null

PROPS = ("C12", "C09", "C03")
ALLOCS = ("malloc", "calloc", "realloc")


def destructor_pairs(P):
    pairs = {}
    for f in P.lib_functions():
        if f.body is None:
            continue
        for n in f.walk():
            if n.k != "ForStmt" or n.kids[2] is None or n.kids[4] is None:
                continue
            c = n.kids[2].strip()
            if c.k != "BinaryOperator" or c.op != "<" or c.kids[1].strip().k != "MemberExpr":
                continue
            N = c.kids[1].strip().member
            for m in n.kids[4].walk():
                if m.k == "CallExpr" and (m.callee == "free" or (m.callee or "").endswith("_free")):
                    for a in m.args():
                        a = a.strip()
                        if a.k == "ArraySubscriptExpr" and a.kids[0].strip().k == "MemberExpr":
                            pairs.setdefault((N, a.kids[0].strip().member), []).append(f)
    return pairs


def dominates(cfg, a, b):
    """CFG element containing a is executed on every path to the element containing b"""
    pa, pb = cfg.pos_of(a), cfg.pos_of(b)
    if pa is None or pb is None:
        return False
    if pa[0] == pb[0]:
        return pa[1] <= pb[1]
    return cfg.block_dominates(pa[0], pb[0])


def run(P, tier="quick"):
    R = RuleResult("R20", "where a destructor frees V[0..N) without testing V, every constructor stores N only after V was allocated "
                   "and checked, and before (or together with) the allocation of the elements", floor=1)
    pairs = destructor_pairs(P)
    if not pairs:
        raise AnalysisBroken("R20: no count/vector destructor loop found (4 confirmed by hand)")
    R.counts["destructor_pairs"] = len(pairs)
    n_ctor = 0
    for (N, V), dtors in sorted(pairs.items()):
        for f in P.lib_functions():
            if f.body is None or f.cfg is None or f in dtors:
                continue
            nstores, vstores, estores = [], [], []
            for n in f.walk():
                if n.k == "BinaryOperator" and n.op == "=":
                    l, r = n.kids[0].strip(), n.kids[1].strip()
                    if l.k == "MemberExpr" and l.member == N and r.cv != 0:
                        nstores.append(n)
                    if l.k == "MemberExpr" and l.member == V and any(c.callee in ALLOCS for c in ([r] if r.k == "CallExpr" else r.calls())):
                        vstores.append(n)
                    if l.k == "ArraySubscriptExpr" and l.kids[0].strip().k == "MemberExpr" and l.kids[0].strip().member == V and \
                            any(c.callee in ALLOCS for c in ([r] if r.k == "CallExpr" else r.calls())):
                        estores.append(n)
            if not nstores or not vstores:
                continue
            n_ctor += 1
            key = "R20|%s|%s|%s/%s" % (f.file, f.name, N, V)
            bad = None
            for ns in nstores:
                # ORDER: some V store dominates, and a NULL test of V lies between them
                doms = [vs for vs in vstores if dominates(f.cfg, vs, ns)]
                if not doms:
                    bad = ("order", ns, "%s is set to `%s` at line %d before %s has been allocated and checked (line %d): if that "
                           "allocation fails, %s() is given an object with %s > 0 and %s == NULL and dereferences it" %
                           (N, ns.kids[1].text(), ns.line, V, vstores[0].line, dtors[0].name, N, V))
                    break
                checked = False
                for t in f.walk():
                    if t.k == "IfStmt":
                        c = [x for x in t.kids if x is not None][0]
                        cs = c.strip()
                        isnull = (cs.k == "BinaryOperator" and cs.op == "==" and
                                  any(x.strip().k == "MemberExpr" and x.strip().member == V for x in cs.kids) and
                                  any(is_null(x) for x in cs.kids)) or \
                                 (cs.k == "UnaryOperator" and cs.op == "!" and cs.kids[0].strip().k == "MemberExpr" and
                                  cs.kids[0].strip().member == V)
                        if isnull and \
                                dominates(f.cfg, doms[0], c) and dominates(f.cfg, c, ns) and f.cfg.pos_of(c) != f.cfg.pos_of(ns):
                            checked = True
                if not checked:
                    bad = ("order", ns, "%s is set at line %d before the allocation of %s (line %d) has been checked" %
                           (N, ns.line, V, doms[0].line))
                    break
            if bad is None:
                for es in estores:
                    inloop = [a for a in es.ancestors() if a.k in ("ForStmt", "WhileStmt")]
                    adv = any(m.k in ("UnaryOperator", "CompoundAssignOperator") and m.kids[0].strip().k == "MemberExpr" and
                              m.kids[0].strip().member == N for lp in inloop for m in lp.walk())
                    if not adv and not any(dominates(f.cfg, ns, es) for ns in nstores):
                        bad = ("cover", es, "elements of %s are allocated at line %d before %s is set (line %d): when a later element "
                               "allocation fails, %s() sees %s == 0 and the elements already allocated leak" %
                               (V, es.line, N, nstores[0].line, dtors[0].name, N))
                        break
            if bad is None:
                R.ok(key, PROPS)
            else:
                R.violated(Finding("R20", PROPS, f.file, f.name, "%s:%s/%s" % (bad[0], N, V), bad[2], bad[1].line))
    R.counts["constructors"] = n_ctor
    if n_ctor < 1:
        raise AnalysisBroken("R20: no constructor storing both a count and its vector found (_vnacal_calibration_alloc expected)")
    R.check_floor()
    return R

"""R23 DET-CHECK (C19, C01, C20): every linear-solve result used by the calibration code is checked.

For each call of _vnacommon_{mldivide,mrdivide,minverse,lu} from a vnacal_*
file the returned determinant must reach a test `== 0.0` whose true edge leads,
on every path, to a failure return with a VNAERR_MATH report (made by the
function itself or by every caller on this function's failure edge).  For
_vnacommon_{qr,qrsolve} the returned rank must be compared `< unknowns` the
same way.  vnaconv_* callers are exempt (documented to yield non-finite output).
"""
from ..core import Finding, RuleResult
from ..flow import Engine, TooManyStates
from ..canon import Canon
from ..failflow import FailTracker, compute_fail_summaries

DET = ("_vnacommon_mldivide", "_vnacommon_mrdivide", "_vnacommon_minverse", "_vnacommon_lu")
RANK = ("_vnacommon_qr", "_vnacommon_qrsolve")
PROPS = ("C19", "C20", "C01")


def _is_zero(n):
    n = n.strip()
    if n.k == "FloatingLiteral":
        return n.val == 0.0
    return n.cv == 0


def run(P, tier="quick"):
    R = RuleResult("R23", "each determinant returned by LU-based solves is tested == 0.0 and each rank returned by QR solves "
                   "is tested < unknowns; the singular edge reaches only failure returns and a VNAERR_MATH report", floor=12)
    S = compute_fail_summaries(P)
    callers = P.callers()
    nsites = 0
    for f in P.lib_functions():
        if not f.file.startswith("vnacal") or f.cfg is None:
            continue
        sites = [c for c in f.calls() if c.callee in DET + RANK]
        if not sites:
            continue
        CN = Canon(f)
        marks = {}
        site_conds = {}
        site_unchecked = set()
        for c in sites:
            nsites += 1
            # variable receiving the result (if any)
            var = None
            p = c.parent
            while p is not None and p.k in ("ImplicitCastExpr", "ParenExpr", "CStyleCastExpr"):
                p = p.parent
            if p is not None and p.k == "BinaryOperator" and p.op == "=" and p.kids[0].strip().k == "DeclRefExpr":
                var = p.kids[0].strip().refdecl
            elif p is not None and p.k == "VarDecl":
                var = p.get("decl")
            conds = []
            for n in f.walk():
                if n.k != "BinaryOperator":
                    continue
                a, b = (n.kids[0].strip(), n.kids[1].strip())
                if c.callee in DET and n.op == "==":
                    for x, y in ((a, b), (b, a)):
                        if _is_zero(y) and ((x is c) or (x.k == "DeclRefExpr" and var is not None and x.refdecl == var)):
                            conds.append(n)
                if c.callee in RANK and n.op == "<":
                    if (a is c) or (a.k == "DeclRefExpr" and var is not None and a.refdecl == var):
                        # the rank must be compared with the number of unknowns handed to the solver
                        pr = P.prototypes.get(c.callee)
                        ni = [i for i, pp in enumerate(pr["params"]) if pp["name"] == "n"] if pr else []
                        if ni and len(c.args()) > ni[0] and CN.path(b) == CN.path(c.args()[ni[0]]):
                            conds.append(n)
            # reaching definitions: which of the tests can this call's value reach, and can the
            # value reach the function exit (or be overwritten) without being tested?
            mine = []
            unchecked = False
            direct = [cn for cn in conds if cn.kids[0].strip() is c or cn.kids[1].strip() is c]
            if direct:
                mine = direct
            elif var is not None:
                cond_ids = {cn.id: cn for cn in conds}
                defpos = f.cfg.pos_of(c)
                kills = set()
                for n in f.walk():
                    if n.k == "BinaryOperator" and n.op == "=" and n.kids[0].strip().k == "DeclRefExpr" and \
                            n.kids[0].strip().refdecl == var and n.id in f.cfg.pos:
                        kills.add(n.id)
                seen_b = set()
                work = [(defpos[0], defpos[1] + 1)]
                # the assignment of this very call is the first '=' after the call: skip it
                first_assign = True
                while work:
                    bid, start_i = work.pop()
                    b = f.cfg.blocks[bid]
                    stopped = False
                    for el in b.elems[start_i:]:
                        if el.id in kills:
                            if first_assign and bid == defpos[0]:
                                first_assign = False
                                continue
                            stopped = True
                            break
                        if el.id in cond_ids:
                            mine.append(cond_ids[el.id])
                            stopped = True
                            break
                    first_assign = False
                    if stopped:
                        continue
                    if bid == f.cfg.exit:
                        unchecked = True
                        continue
                    for sb in b.succs:
                        if sb is not None and sb not in seen_b:
                            seen_b.add(sb)
                            work.append((sb, 0))
                mine = list({m.id: m for m in mine}.values())
            site_conds[c.id] = mine
            if unchecked and mine:
                site_unchecked.add(c.id)
            for cn in mine:
                marks[cn.id] = "cond%d" % cn.id
        tr = FailTracker(P, f, S)
        tr.site_marks = marks
        try:
            Engine(f, tr, 400000).run()
        except TooManyStates as e:
            R.unclassified("R23|%s|%s" % (f.file, f.name), str(e), PROPS)
            continue
        for i, c in enumerate(sites):
            anchor = "%s#%d" % (c.callee, [s for s in sites if s.callee == c.callee].index(c))
            key = "R23|%s|%s|%s" % (f.file, f.name, anchor)
            if not site_conds[c.id]:
                R.violated(Finding("R23", PROPS, f.file, f.name, anchor, "result of %s() is never compared (== 0.0 for a "
                                   "determinant, < unknowns for a rank)" % c.callee, c.line))
                continue
            if c.id in site_unchecked:
                R.violated(Finding("R23", PROPS, f.file, f.name, anchor, "result of %s() can reach the end of the function "
                                   "without being tested on some path" % c.callee, c.line))
                continue
            mks = {"cond%d:T" % cn.id for cn in site_conds[c.id]}
            recs = [r for r in tr.records if mks & set(r[4])]
            if not recs:
                R.unclassified(key, "singular edge never reaches a return", PROPS)
                continue
            bad = None
            need_caller = False
            for (val, nrep, cats, failed, flags, node, trace) in recs:
                if val[0] != "fail":
                    bad = "the singular edge can reach a return that is not the failure value (%s at line %d)" % (val, node.line if node else 0)
                    break
                if not any(x.endswith("VNAERR_MATH") for x in cats):
                    if nrep == 0:
                        need_caller = True
                    else:
                        bad = "the singular edge reports %s, not VNAERR_MATH" % sorted(cats)
                        break
            if bad is None and need_caller:
                cs = callers.get(f.key(), [])
                if not cs:
                    bad = "singular edge returns failure silently and the function has no caller that reports"
                for (g, call) in cs:
                    gs = S.get(g.key())
                    if gs is None:
                        continue
                    for (val, nrep, cats, failed, flags, node, trace) in gs.returns:
                        if f.name in failed and val[0] == "fail" and not any(x.endswith("VNAERR_MATH") for x in cats):
                            bad = "singular edge returns failure silently and caller %s does not report VNAERR_MATH" % g.name
            if bad:
                R.violated(Finding("R23", PROPS, f.file, f.name, anchor, "%s(): %s" % (c.callee, bad), c.line))
            else:
                R.ok(key, PROPS)
    # exactly-determined systems go through the LU path: only there an exactly zero pivot yields an exactly
    # zero determinant (Householder QR leaves ~1e-17 on the diagonal and its rank test does not see it)
    from .r24_count import depends, EQ_FIELDS, UNK_FIELDS
    fs = P.need_func("_vnacal_new_solve_simple", "vnacal_new_solve_simple.c")
    found = False
    for n in fs.walk():
        if n.k == "IfStmt":
            kids = [x for x in n.kids if x is not None]
            c = kids[0].strip()
            if c.k == "BinaryOperator" and c.op == "==":
                a, b = depends(P, fs, c.kids[0]), depends(P, fs, c.kids[1])
                if (any(x in a for x in EQ_FIELDS) and any(x in b for x in UNK_FIELDS)) or \
                        (any(x in b for x in EQ_FIELDS) and any(x in a for x in UNK_FIELDS)):
                    if any(m.k == "CallExpr" and m.callee in DET for m in kids[1].walk()):
                        found = True
    if found:
        R.ok("R23|vnacal_new_solve_simple.c|_vnacal_new_solve_simple|square-systems-use-LU", PROPS)
    else:
        R.violated(Finding("R23", PROPS, "vnacal_new_solve_simple.c", "_vnacal_new_solve_simple", "square-systems-use-LU",
                           "no branch `equations == unknowns` that solves the exactly determined system with an LU-based solver "
                           "and tests the determinant: duplicated equations then pass the QR rank test and a singular system "
                           "is not reported", fs.line))
    R.counts["solver_call_sites"] = nsites
    R.check_floor()
    return R

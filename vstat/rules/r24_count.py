"""R24 MUST-CHECK-COUNT (C20): too few equations are refused before anything is solved or sized.

In _vnacal_new_solve_simple and _vnacal_new_solve_auto:
 (a) every linear-solve call (_vnacommon_mldivide / qrsolve / qr) is dominated by a test
     `equation count < unknown count` whose true edge reaches only failure returns after a
     VNAERR_MATH report;  equation count = expression depending on vns_equation_count or
     vn_equations, unknown count = expression depending on vl_t_terms;
 (b) no variable-length array whose extent depends on the equation count (which is 0 when
     no standard was added) is declared before that test: a zero-length VLA is undefined.
In _vnacal_new_solve_internal:
 (c) vn_calibration is assigned only where the success return (rc = 0) post-dominates.
"""
from ..core import Finding, RuleResult
from ..facts import AnalysisBroken
from ..canon import Canon
from ..flow import Engine
from ..failflow import FailTracker, compute_fail_summaries

PROPS = ("C20",)
SOLVERS = ("_vnacommon_mldivide", "_vnacommon_mrdivide", "_vnacommon_qrsolve", "_vnacommon_qr", "_vnacommon_qrsolve2")
EQ_FIELDS = ("vns_equation_count", "vn_equations")
UNK_FIELDS = ("vl_t_terms",)


def depends(P, f, e, depth=0, seen=None):
    """flow-insensitive: set of struct field names the value of e may depend on"""
    seen = seen if seen is not None else set()
    out = set()
    cn = Canon(f)
    for m in e.walk():
        if m.k == "MemberExpr" and m.member:
            out.add(m.member)
        elif m.k == "DeclRefExpr" and m.refkind in ("local", "param"):
            key = (f.key(), m.refdecl)
            if key in seen:
                continue
            seen.add(key)
            if m.refkind == "local":
                for kind, rhs in cn.defs.get(m.refdecl, []):
                    if rhs is not None:
                        out |= depends(P, f, rhs, depth + 1, seen)
            elif depth < 3:
                idx = [i for i, p in enumerate(f.params) if p["decl"] == m.refdecl]
                for (g, call) in P.callers().get(f.key(), []):
                    if idx and idx[0] < len(call.args()):
                        out |= depends(P, g, call.args()[idx[0]], depth + 1, seen)
    return out


def run(P, tier="quick"):
    R = RuleResult("R24", "every solve call in the error-term solvers is dominated by an equations < unknowns test that leads to "
                   "a VNAERR_MATH failure; no equation-count-sized VLA is declared before that test; vn_calibration is "
                   "replaced only on the success path", floor=6)
    S = compute_fail_summaries(P)
    for fname, file in (("_vnacal_new_solve_simple", "vnacal_new_solve_simple.c"), ("_vnacal_new_solve_auto", "vnacal_new_solve_auto.c")):
        f = P.need_func(fname, file)
        CN = Canon(f)
        tests = []
        for n in f.walk():
            if n.k == "BinaryOperator" and n.op in ("<", "<=", ">", ">="):
                if n.id not in f.cfg.pos:
                    continue
                a, b = depends(P, f, n.kids[0]), depends(P, f, n.kids[1])
                small, big = (a, b) if n.op in ("<", "<=") else (b, a)
                if any(x in small for x in EQ_FIELDS) and any(x in big for x in UNK_FIELDS) and \
                        not any(x in big for x in EQ_FIELDS):
                    tests.append(n)
        if not tests:
            R.violated(Finding("R24", PROPS, file, fname, "count-test", "no test comparing the equation count with the number of "
                               "unknowns found", f.line))
            continue
        # (d) SAME-SPACE: the two sides count in the same space - all systems together (vn_equations against
        # vn_systems * unknowns, e.g. the x_length argument) or one system (vns_equation_count against unknowns)
        for t in tests:
            a, b = depends(P, f, t.kids[0]), depends(P, f, t.kids[1])
            small, big = (a, b) if t.op in ("<", "<=") else (b, a)
            total_eq = "vn_equations" in small
            total_unk = "vn_systems" in big
            key = "R24|%s|%s|count-space" % (file, fname)
            if total_eq == total_unk:
                R.ok(key, PROPS)
            else:
                R.violated(Finding("R24", PROPS, file, fname, "count-space",
                                   "'%s' compares %s with %s: with one linear system per column (UE14/E12) a calibration that has "
                                   "enough equations for one system but not for all of them passes the test" %
                                   (t.text(), "the equations of all systems" if total_eq else "the equations of one system",
                                    "the unknowns of all systems" if total_unk else "the unknowns of one system"), t.line))
        # the true edge of the test must fail with MATH
        tr = FailTracker(P, f, S)
        tr.site_marks = {t.id: "cnt%d" % t.id for t in tests}
        Engine(f, tr, 400000).run()
        good_tests = []
        for t in tests:
            edge = "T" if t.op in ("<", "<=") else "F"
            recs = [r for r in tr.records if ("cnt%d:%s" % (t.id, edge)) in r[4]]
            okk = bool(recs) and all(r[0][0] == "fail" and any(c.endswith("VNAERR_MATH") for c in r[2]) for r in recs)
            if okk:
                good_tests.append(t)
                R.ok("R24|%s|%s|count-test-fails-with-MATH" % (file, fname), PROPS)
            else:
                R.violated(Finding("R24", PROPS, file, fname, "count-test-fails-with-MATH", "the too-few-equations edge of '%s' does "
                                   "not always end in a failure return after a VNAERR_MATH report" % t.text(), t.line))
        for i, c in enumerate([c for c in f.calls() if c.callee in SOLVERS]):
            anchor = "%s#%d" % (c.callee, i)
            if any(f.cfg.node_dominates(t, c) for t in good_tests):
                R.ok("R24|%s|%s|%s" % (file, fname, anchor), PROPS)
            else:
                R.violated(Finding("R24", PROPS, file, fname, anchor, "%s() can be reached without passing the equations < "
                                   "unknowns test" % c.callee, c.line))
        for v in f.vardecls():
            dims = v.d.get("_dims") or []
            dt = [d.text() for d in dims if d is not None and d.k != "ConstSize"]
            dd = set()
            for d in dims:
                if d is not None and d.k != "ConstSize":
                    dd |= depends(P, f, d)
            if any(x in dd for x in EQ_FIELDS):
                anchor = "vla:%s" % v.get("name")
                if any(f.cfg.node_dominates(t, v) for t in good_tests):
                    R.ok("R24|%s|%s|%s" % (file, fname, anchor), PROPS | {"C03"} if isinstance(PROPS, set) else set(PROPS) | {"C03"})
                else:
                    R.violated(Finding("R24", set(PROPS) | {"C03"}, file, fname, anchor,
                                       "variable-length array %s[%s] is declared before the equations < unknowns test: with no "
                                       "equations in a system its length is 0 (undefined behaviour)" % (v.get("name"), "][".join(dt)), v.line))
    # (e) a refusal that depends on the number of equations is a mathematical failure (EDOM), not a usage error
    nref = 0
    for fname, file in (("_vnacal_new_solve_simple", "vnacal_new_solve_simple.c"), ("_vnacal_new_solve_auto", "vnacal_new_solve_auto.c"),
                        ("_vnacal_new_solve_internal", "vnacal_new_solve.c")):
        f = P.need_func(fname, file)
        for n in f.walk():
            if n.k != "IfStmt":
                continue
            kids = [x for x in n.kids if x is not None]
            if any(m.k == "CallExpr" for m in kids[0].walk()):
                continue        # allocation / callee results sized by the equation count are not count tests
            if not any(x in depends(P, f, kids[0]) for x in EQ_FIELDS):
                continue
            for c in kids[1].calls("_vnacal_error"):
                cat = c.args()[1].strip() if len(c.args()) > 1 else None
                if cat is None:
                    continue
                nref += 1
                name = cat.refname or cat.text()
                key = "R24|%s|%s|count-refusal-class#%d" % (file, fname, nref)
                if name == "VNAERR_MATH":
                    R.ok(key, set(PROPS) | {"C11"})
                else:
                    R.violated(Finding("R24", set(PROPS) | {"C11"}, file, fname, "count-refusal-class",
                                       "a solve refused because of the number of equations (`%s`) is reported as %s: too few standards "
                                       "is documented as a VNAERR_MATH failure (errno EDOM) that can be retried after adding standards" %
                                       (kids[0].text()[:60], name), c.line))
    if nref < 2:
        raise AnalysisBroken("R24: %d equation-count refusals found (2 confirmed by hand)" % nref)
    # (c) commit only on success
    f = P.need_func("_vnacal_new_solve_internal", "vnacal_new_solve.c")
    stores = []
    for n in f.walk():
        if n.k == "BinaryOperator" and n.op == "=":
            l = n.kids[0].strip()
            if l.k == "MemberExpr" and l.member == "vn_calibration":
                stores.append(n)
    if not stores:
        raise AnalysisBroken("_vnacal_new_solve_internal: no store to vn_calibration")
    tr = FailTracker(P, f, S)
    Engine(f, tr, 400000).run()
    for i, st in enumerate(stores):
        # every return reachable after the store must be a success return: use a mark through a fake condition?
        # structural: the store's block must not reach any failure edge (goto out with rc != 0):
        pos = f.cfg.pos_of(st)
        bad = None
        for n2 in f.walk():
            if n2.k == "GotoStmt" or (n2.k == "ReturnStmt" and n2.kids and n2.kids[0].strip().cv == -1):
                p2 = f.cfg.pos_of(n2)
                if p2 is None:
                    # goto is a terminator: find block whose term is this node
                    for b in f.cfg.blocks.values():
                        if b.term is n2:
                            p2 = (b.id, 10 ** 6)
                if p2 is None or pos is None:
                    continue
                after = (p2[0] == pos[0] and p2[1] > pos[1]) or (p2[0] != pos[0] and p2[0] in f.cfg.reachable_from(pos[0]))
                if after:
                    bad = n2
        if bad is None:
            R.ok("R24|vnacal_new_solve.c|_vnacal_new_solve_internal|commit#%d" % i, PROPS | {"C11"} if isinstance(PROPS, set) else set(PROPS) | {"C11"})
        else:
            R.violated(Finding("R24", set(PROPS) | {"C11"}, "vnacal_new_solve.c", f.name, "commit#%d" % i,
                               "vn_calibration is replaced at line %d but a failure exit (%s at line %d) is still reachable "
                               "afterwards" % (st.line, bad.text(), bad.line), st.line))
    R.check_floor()
    return R

"""R25 LOOP-BOUND (C02, C09): every cycle on the solve / load call graphs is structurally bounded.

Natural loops are found from CFG back edges.  A loop is accepted when one of
its exit tests is
  COUNTED   a relational test on a local that the loop only moves monotonically
            towards the bound (++/--/+= const) on *every* cycle, with a bound no
            statement of the loop assigns;
  LISTWALK  `p != NULL` where every cycle executes `p = <expr>->field`;
  ITERATOR  a call of the equation/term iterators or of a scanner function that
            consumes input on every call;
  LIMITED   `counter >= ->vn_iteration_limit` leaving the loop, the counter only
            incremented, increment and test on every cycle (a `continue` that
            skips the test is a violation);
  CHAIN     a `for(;;)` whose every cycle executes `p = p->field`.
Loops in none of the classes are *unclassified* (neither pass nor alarm) except
loops that mention vn_iteration_limit, which must be LIMITED.  The solvers
_vnacal_new_solve_simple and _vnacal_new_solve_auto must each contain a LIMITED
loop, and no recursion may occur on the call graph of vnacal_new_solve.
"""
from ..core import Finding, RuleResult
from ..facts import AnalysisBroken
from ..util import base_var

# recursion that follows the shape of a finite tree (one line of reason each)
STRUCTURAL_RECURSION = {
    "vnaproperty_free": "frees a property tree: recursion on child nodes, depth = tree depth",
}
ITERATORS = {"_vnacal_new_solve_next_equation", "_vnacal_new_solve_next_term"}


def natural_loops(cfg):
    loops = {}
    dom = cfg.dom
    for b in cfg.blocks.values():
        if b.id not in dom:
            continue
        for s in b.succs:
            if s is not None and s in dom[b.id]:
                # back edge b -> s
                body = loops.setdefault(s, {s})
                st = [b.id]
                while st:
                    x = st.pop()
                    if x in body:
                        continue
                    body.add(x)
                    for p in cfg.blocks[x].preds:
                        if p in dom:
                            st.append(p)
    return loops


def every_cycle_passes(cfg, header, body, cut):
    """no cycle header -> ... -> header inside `body` avoids all blocks of `cut`"""
    if header in cut:
        return True
    seen = set()
    st = [s for s in cfg.blocks[header].succs if s is not None and s in body and s not in cut]
    while st:
        x = st.pop()
        if x == header:
            return False
        if x in seen:
            continue
        seen.add(x)
        for s in cfg.blocks[x].succs:
            if s is not None and s in body and s not in cut:
                st.append(s)
    return True


def _defs_in(f, body, decl):
    """[(block, kind, node)] definitions of variable decl inside the loop"""
    out = []
    for bid in body:
        for el in f.cfg.blocks[bid].elems:
            if el.k == "UnaryOperator" and el.op in ("++", "--") and el.kids[0].strip().k == "DeclRefExpr" and \
                    el.kids[0].strip().refdecl == decl:
                out.append((bid, el.op, el))
            elif el.k == "CompoundAssignOperator" and el.kids[0].strip().k == "DeclRefExpr" and el.kids[0].strip().refdecl == decl:
                c = el.kids[1].strip().cv
                out.append((bid, el.op if c is not None and c > 0 else "?", el))
            elif el.k == "BinaryOperator" and el.op == "=" and el.kids[0].strip().k == "DeclRefExpr" and \
                    el.kids[0].strip().refdecl == decl:
                out.append((bid, "=", el))
            elif el.k == "VarDecl" and el.get("decl") == decl and el.kids:
                out.append((bid, "init", el))
    return out


def classify(f, header, body):
    cfg = f.cfg
    exits = []
    for bid in body:
        b = cfg.blocks[bid]
        if b.cond is not None and len(b.succs) == 2 and any(s is not None and s not in body for s in b.succs):
            exits.append(b)
    mentions_limit = any("vn_iteration_limit" in el.text() for bid in body for el in cfg.blocks[bid].elems
                         if el.k == "MemberExpr")
    assigned = set()
    for bid in body:
        for el in cfg.blocks[bid].elems:
            if el.k in ("BinaryOperator", "CompoundAssignOperator") and el.op and el.op.endswith("=") and \
                    el.op not in ("==", "!=", "<=", ">=") and el.kids[0].strip().k == "DeclRefExpr":
                assigned.add(el.kids[0].strip().refdecl)
            if el.k == "UnaryOperator" and el.op in ("++", "--") and el.kids[0].strip().k == "DeclRefExpr":
                assigned.add(el.kids[0].strip().refdecl)
    result = None
    for b in exits:
        c = b.cond.strip()
        neg = False
        while c.k == "UnaryOperator" and c.op == "!":
            neg = not neg
            c = c.kids[0].strip()
        stay_true = b.succs[0] in body      # loop continues on the true edge
        if neg:
            stay_true = not stay_true
        # ITERATOR
        if c.k == "CallExpr" and c.callee in ITERATORS and stay_true:
            return ("ITERATOR", c.callee, True)
        # LIMITED
        if c.k == "BinaryOperator" and c.op in (">=", ">") and "vn_iteration_limit" in c.kids[1].text():
            v = c.kids[0].strip()
            if v.k == "UnaryOperator" and v.op == "++":
                v = v.kids[0].strip()
            if v.k == "DeclRefExpr" and not stay_true:
                ds = _defs_in(f, body, v.refdecl)
                incs = [d for d in ds if d[1] in ("++", "+=")]
                bad = [d for d in ds if d[1] not in ("++", "+=", "init")]
                ok_inc = bool(incs) and every_cycle_passes(cfg, header, body, {d[0] for d in incs})
                ok_test = every_cycle_passes(cfg, header, body, {b.id})
                if not bad and ok_inc and ok_test:
                    return ("LIMITED", v.refname, True)
                why = []
                if bad:
                    why.append("counter '%s' is also modified by %s at line %d" % (v.refname, bad[0][2].text(), bad[0][2].line))
                if not ok_inc:
                    why.append("a cycle of the loop does not increment '%s'" % v.refname)
                if not ok_test:
                    why.append("a cycle of the loop bypasses the test against vn_iteration_limit")
                result = ("LIMITED", "; ".join(why), False)
                continue
        # COUNTED
        if c.k == "BinaryOperator" and c.op in ("<", "<=", ">", ">=", "!="):
            for vi, bi in ((0, 1), (1, 0)):
                v = c.kids[vi].strip()
                bound = c.kids[bi]
                if v.k != "DeclRefExpr" or v.refkind not in ("local", "param"):
                    continue
                op = c.op if vi == 0 else {"<": ">", ">": "<", "<=": ">=", ">=": "<=", "!=": "!="}[c.op]
                if not stay_true:
                    op = {"<": ">=", ">=": "<", ">": "<=", "<=": ">", "!=": "=="}[op]
                ds = _defs_in(f, body, v.refdecl)
                ups = [d for d in ds if d[1] in ("++", "+=")]
                downs = [d for d in ds if d[1] in ("--", "-=")]
                other = [d for d in ds if d[1] not in ("++", "+=", "--", "-=", "init")]
                bvars = {m.refdecl for m in bound.walk() if m.k == "DeclRefExpr" and m.refkind in ("local", "param")}
                if bvars & assigned:
                    continue
                if other:
                    continue
                if op in ("<", "<=", "!=") and ups and not downs and every_cycle_passes(cfg, header, body, {d[0] for d in ups}):
                    return ("COUNTED", v.refname, True)
                if op in (">", ">=") and downs and not ups and every_cycle_passes(cfg, header, body, {d[0] for d in downs}):
                    return ("COUNTED", v.refname, True)
        # LISTWALK: p != NULL / p
        subj = None
        if c.k == "BinaryOperator" and c.op in ("!=", "==") and c.kids[1].strip().cv == 0 or \
                (c.k == "BinaryOperator" and c.op in ("!=", "==") and c.kids[1].strip().k in ("ImplicitCastExpr", "ParenExpr", "CStyleCastExpr")):
            subj = c.kids[0].strip()
        elif c.k == "DeclRefExpr":
            subj = c
        if subj is not None and subj.k == "DeclRefExpr" and subj.ctype.endswith("*"):
            ds = _defs_in(f, body, subj.refdecl)
            adv = []
            for d in ds:
                if d[1] in ("=",):
                    r = d[2].kids[1].strip()
                    if r.k == "MemberExpr" or (r.k == "DeclRefExpr" and r.refkind == "local"):
                        adv.append(d)
            if adv and len(adv) == len([d for d in ds if d[1] != "init"]) and \
                    every_cycle_passes(cfg, header, body, {d[0] for d in adv}):
                return ("LISTWALK", subj.refname, True)
    if result is not None:
        return result
    # CHAIN: every cycle executes p = p->field
    chain_blocks = set()
    for bid in body:
        for el in cfg.blocks[bid].elems:
            if el.k == "BinaryOperator" and el.op == "=" and el.kids[0].strip().k == "DeclRefExpr":
                r = el.kids[1].strip()
                if r.k == "MemberExpr":
                    bv = base_var(r)
                    if bv is not None and bv.refdecl == el.kids[0].strip().refdecl and "->" in r.text():
                        chain_blocks.add(bid)
    if chain_blocks and every_cycle_passes(cfg, header, body, chain_blocks):
        return ("CHAIN", "", True)
    if mentions_limit:
        return ("LIMITED", "the loop mentions vn_iteration_limit but no exit test `counter >= vn_iteration_limit` was recognised", False)
    return (None, "", None)


def reachable_functions(P, roots):
    seen = {}
    st = [P.need_func(r) for r in roots]
    while st:
        f = st.pop()
        if f.key() in seen:
            continue
        seen[f.key()] = f
        for c in f.calls():
            g = P.resolve_call(c, f)
            if g is not None and g.cfg is not None and g.key() not in seen:
                st.append(g)
    return seen


def recursion(P, funcs):
    """functions that can (transitively) call themselves within funcs"""
    out = []
    for k, f in funcs.items():
        seen = set()
        st = [f]
        hit = False
        while st and not hit:
            x = st.pop()
            for c in x.calls():
                g = P.resolve_call(c, x)
                if g is None or g.key() not in funcs:
                    continue
                if g is f:
                    hit = True
                    break
                if g.key() not in seen:
                    seen.add(g.key())
                    st.append(g)
        if hit:
            out.append(f)
    return out


def run(P, tier="quick"):
    R = RuleResult("R25", "every natural loop on the call graph of vnacal_new_solve is counted, a list walk, an iterator loop, a "
                   "pointer-chain walk or bounded by vn_iteration_limit with increment and test on every cycle; no recursion",
                   floor=60)
    funcs = reachable_functions(P, ["vnacal_new_solve"])
    counts = {}
    limited = {}
    for k, f in sorted(funcs.items()):
        loops = natural_loops(f.cfg)
        for i, (header, body) in enumerate(sorted(loops.items(), key=lambda kv: -kv[0])):
            cls, info, ok = classify(f, header, body)
            # a stable anchor: ordinal of the loop in source order + its class
            hb = f.cfg.blocks[header]
            line = hb.cond.line if hb.cond is not None else (hb.elems[0].line if hb.elems else 0)
            key = "R25|%s|%s|loop%d" % (f.file, f.name, i)
            if cls is None:
                R.unclassified(key, "loop at line %d has none of the recognised bounded shapes" % line, {"C02"})
                continue
            counts[cls] = counts.get(cls, 0) + 1
            if ok:
                R.ok(key + ":" + cls, {"C02"})
                if cls == "LIMITED":
                    limited[f.name] = limited.get(f.name, 0) + 1
            else:
                R.violated(Finding("R25", {"C02"}, f.file, f.name, "loop%d:%s" % (i, cls),
                                   "loop at line %d is not bounded by the iteration limit: %s" % (line, info), line))
    for need in ("_vnacal_new_solve_simple", "_vnacal_new_solve_auto"):
        if need not in {f.name for f in funcs.values()}:
            raise AnalysisBroken("%s is not reachable from vnacal_new_solve" % need)
        if limited.get(need, 0) >= 1:
            R.ok("R25|%s|has-iteration-limit" % need, {"C02"})
        else:
            f = [x for x in funcs.values() if x.name == need][0]
            R.violated(Finding("R25", {"C02"}, f.file, need, "has-iteration-limit", "no loop bounded by vn_iteration_limit found: the "
                               "iteration can run forever when it does not converge", f.line))
    rec = [f for f in recursion(P, funcs) if f.name not in STRUCTURAL_RECURSION]
    for f in rec:
        R.violated(Finding("R25", {"C02"}, f.file, f.name, "recursion", "function can call itself on the solve call graph", f.line))
    if not rec:
        R.ok("R25|no-recursion-on-solve-call-graph", {"C02"})
    R.counts.update({"loops_" + k: v for k, v in counts.items()})
    R.counts["functions_reachable_from_vnacal_new_solve"] = len(funcs)
    R.check_floor()
    return R

"""R27 SAVE-LOAD-MIRROR (C07): vnacal_save's emitters and vnacal_load's parsers agree.

For each calibration type (switch case of calp->cal_type, conditions on the
type evaluated, current file version assumed) a small interpreter collects
the ordered emitter calls of add_error_parameters (add_vector / add_matrix:
key literal, data, extents, no_diagonal) and the parser calls of
parse_matrices (parse_vector / parse_matrix: matrices[ID], data, extents,
no_diagonal).  Data and extents are compared in canonical form (layout macro
expansions over the calibration and layout parameters, packing loops
included); the ID -> key mapping is taken from parse_data's own key switch.
Also: keys written by vnacal_save are keys the loader recognises; per type the
required-matrix mask equals the set of matrices parsed; matrix_names[] follows
matrix_id_t; the version line written is accepted by the loader's formats.
"""
import re

from ..core import Finding, RuleResult
from ..facts import AnalysisBroken
from ..canon import Canon
from ..util import eval_int, CannotEval

PROPS = ("C07",)
SAVE, LOAD = "vnacal_save.c", "vnacal_load.c"


class Interp:
    """collect calls of interest in execution order for one calibration type"""

    def __init__(self, f, type_val, env_members, want):
        self.f = f
        self.tv = type_val
        self.env_members = env_members      # member name -> constant (cal_type, vls_major_version)
        self.want = want
        self.calls = []
        self.assigns = []                   # assignments to array elements (packing loops)
        self.masks = {}
        self.stopped = False

    def const(self, e):
        """value of an expression if it only depends on known members"""
        e = e.strip()
        if e.k == "MemberExpr" and e.member in self.env_members:
            return self.env_members[e.member]
        if e.cv is not None:
            return e.cv
        if e.k == "BinaryOperator" and e.op in ("==", "!=", "&&", "||", "<", ">", "<=", ">=", "<<", "|", "&", "+", "-"):
            a, b = self.const(e.kids[0]), self.const(e.kids[1])
            if a is None or b is None:
                return None
            try:
                return {"==": a == b, "!=": a != b, "&&": bool(a) and bool(b), "||": bool(a) or bool(b), "<": a < b,
                        ">": a > b, "<=": a <= b, ">=": a >= b, "<<": a << b, "|": a | b, "&": a & b, "+": a + b,
                        "-": a - b}[e.op] + 0
            except Exception:
                return None
        if e.k == "UnaryOperator" and e.op == "!":
            a = self.const(e.kids[0])
            return None if a is None else int(not a)
        if e.k == "DeclRefExpr" and e.refname in self.masks:
            return self.masks[e.refname]
        return None

    def scan_expr(self, e):
        for n in e.walk():
            if n.k == "CallExpr" and n.callee in self.want:
                self.calls.append(n)

    def run(self, stmt):
        if stmt is None or self.stopped:
            return
        k = stmt.k
        if k == "CompoundStmt":
            for s in stmt.kids:
                self.run(s)
                if self.stopped:
                    return
        elif k == "IfStmt":
            kids = [x for x in stmt.kids if x is not None]
            cond = kids[0]
            c = self.const(cond)
            if c is None:
                self.scan_expr(cond)
                # `if (call(...) == -1) return -1;` : the failure branch is not the interesting path
                then = kids[1]
                only_fail = all(s.k in ("ReturnStmt", "GotoStmt") or s.k == "CompoundStmt" for s in [then]) and \
                    any(m.k == "ReturnStmt" for m in then.walk()) and not any(m.k == "CallExpr" and m.callee in self.want for m in then.walk())
                if not only_fail:
                    sub = Interp(self.f, self.tv, self.env_members, self.want)
                    sub.masks = dict(self.masks)
                    sub.run(then)
                    self.calls += sub.calls
                    self.assigns += sub.assigns
                if len(kids) > 2:
                    self.run(kids[2])
            elif c:
                self.run(kids[1])
            elif len(kids) > 2:
                self.run(kids[2])
        elif k == "SwitchStmt":
            cond = [x for x in stmt.kids[:-1] if x is not None][-1]
            v = self.const(cond)
            body = stmt.kids[-1]
            if v is None:
                return
            started = False
            for s in body.kids:
                t = s
                labels = []
                while t is not None and t.k in ("CaseStmt", "DefaultStmt"):
                    labels.append(t)
                    t = t.kids[-1]
                if not started:
                    if any(l.k == "CaseStmt" and l.get("val") == v for l in labels):
                        started = True
                    elif any(l.k == "DefaultStmt" for l in labels) and not any(
                            lab.get("val") == v for st2 in body.kids for lab in self._labels(st2)):
                        started = True
                    else:
                        continue
                if t is not None:
                    if t.k == "BreakStmt":
                        return
                    self.run(t)
                    if self.stopped:
                        return
                    if self._ends_with_break(t):
                        return
        elif k == "ForStmt":
            for x in stmt.kids[:-1]:
                if x is not None:
                    self.scan_expr(x)
            self.run(stmt.kids[-1])
        elif k in ("WhileStmt", "DoStmt"):
            for x in stmt.kids:
                if x is not None and x.k not in ("CompoundStmt",):
                    self.scan_expr(x)
            self.run(stmt.kids[-1] if k == "WhileStmt" else stmt.kids[0])
        elif k == "ReturnStmt":
            if stmt.kids and stmt.kids[0] is not None:
                self.scan_expr(stmt.kids[0])
            self.stopped = True
        elif k == "BreakStmt":
            self.stopped = "break"
        elif k == "DeclStmt":
            for vd in stmt.kids:
                if vd.kids:
                    self.scan_expr(vd.kids[0])
        elif k in ("CaseStmt", "DefaultStmt", "LabelStmt"):
            self.run(stmt.kids[-1])
        else:
            # expression statement
            e = stmt.strip()
            if e.k in ("BinaryOperator", "CompoundAssignOperator") and e.op in ("=", "|="):
                l = e.kids[0].strip()
                if l.k == "ArraySubscriptExpr":
                    self.assigns.append(e)
                elif l.k == "DeclRefExpr":
                    r = self.const(e.kids[1])
                    if r is not None:
                        cur = self.masks.get(l.refname, 0)
                        self.masks[l.refname] = (cur | r) if e.op == "|=" else r
            self.scan_expr(stmt)

    def _labels(self, s):
        out = []
        while s is not None and s.k in ("CaseStmt", "DefaultStmt"):
            out.append(s)
            s = s.kids[-1]
        return out

    def _ends_with_break(self, t):
        return False


def run(P, tier="quick"):
    R = RuleResult("R27", "per calibration type the ordered (key, data, extents, no_diagonal) emitter calls of vnacal_save equal "
                   "the parser calls of vnacal_load; keys written are keys read; required-matrix masks are complete; "
                   "matrix_names[] follows matrix_id_t; the version line written is one the loader accepts", floor=30)
    fs = P.need_func("add_error_parameters", SAVE)
    fl = P.need_func("parse_matrices", LOAD)
    fd = P.need_func("parse_data", LOAD)
    types = P.enums.get("vnacal_type")
    if not types:
        raise AnalysisBroken("enum vnacal_type missing")
    mid = P.enums.get("matrix_id")
    if not mid:
        raise AnalysisBroken("enum matrix_id missing")
    id_by_val = {v: k for k, v in mid.items()}

    # --- key -> id from parse_data's own prefix switch
    key_of_id = {}
    for n in fd.walk():
        if n.k == "CaseStmt" and n.get("val") is not None:
            v = n.get("val")
            chars = [(v >> s) & 0xFF for s in (0, 8, 16, 24)]
            key = "".join(chr(c) for c in chars if c)
            body = n.kids[-1]
            for m in body.walk():
                if m.k == "BinaryOperator" and m.op == "=":
                    l = m.kids[0].strip()
                    if l.k == "ArraySubscriptExpr" and l.kids[0].strip().k == "DeclRefExpr" and l.kids[0].strip().refkind == "local" and \
                            "yaml_node" in (l.kids[0].strip().ctype or "") and "[" in (l.kids[0].strip().ctype or ""):
                        # the presence table: the local array of yaml node pointers indexed by matrix id (by role, not by name)
                        iv = l.kids[1].strip().cv
                        if iv is not None:
                            key_of_id[iv] = key
    if len(key_of_id) < 10:
        raise AnalysisBroken("parse_data: key switch not understood (%d keys)" % len(key_of_id))

    def roles(f):
        r = {}
        for p in f.params:
            t = p["t"]
            if "vnacal_calibration_t" in t:
                r[p["decl"]] = "CAL"
            elif "vnacal_layout_t" in t:
                r[p["decl"]] = "VL"
        return r

    def collect(f, tv, want, keyarg, dataarg, extargs, flagarg, is_load):
        it = Interp(f, tv, {"cal_type": tv, "vls_major_version": 1}, want)
        it.run(f.body)
        cn_roles = roles(f)
        # name local pack arrays after the key they are emitted / parsed under
        seq = []
        for c in it.calls:
            a = c.args()
            if is_load:
                ka = a[keyarg].strip()
                kid = ka.kids[1].strip().cv if ka.k == "ArraySubscriptExpr" else None
                key = key_of_id.get(kid, "?id%s" % kid)
            else:
                key = a[keyarg].strip().val if a[keyarg].strip().k == "StringLiteral" else a[keyarg].text()
            d = a[dataarg].strip()
            if d.k == "UnaryOperator" and d.op == "&":
                b = d
                while b.k in ("UnaryOperator", "ArraySubscriptExpr"):
                    b = b.kids[0].strip()
                if b.k == "DeclRefExpr" and b.refkind == "local" and "[" in b.ctype:
                    cn_roles[b.refdecl] = "PACK<%s>" % key
        CN = Canon(f, cn_roles)
        for c in it.calls:
            a = c.args()
            if is_load:
                ka = a[keyarg].strip()
                kid = ka.kids[1].strip().cv if ka.k == "ArraySubscriptExpr" else None
                key = key_of_id.get(kid, "?id%s" % kid)
            else:
                key = a[keyarg].strip().val if a[keyarg].strip().k == "StringLiteral" else a[keyarg].text()
            kind = "vector" if "vector" in c.callee else "matrix"
            data = CN.path(a[dataarg])
            exts = [CN.path(a[i]) for i in extargs[kind]]
            flag = a[flagarg[kind]].strip().cv if flagarg.get(kind) is not None else None
            seq.append((kind, key, data, tuple(exts), flag, c.line))
        packs = sorted((CN.path(e.kids[0]), CN.path(e.kids[1])) for e in it.assigns
                       if "PACK<" in CN.path(e.kids[0]))
        return seq, packs

    ncmp = 0
    for tname, tv in sorted(types.items(), key=lambda kv: kv[1]):
        if tname.startswith("_") or tname in ("VNACAL_NOTYPE",) or tv < 0:
            continue
        s_seq, s_packs = collect(fs, tv, {"add_vector", "add_matrix"}, 1, 2,
                                 {"vector": [3], "matrix": [3, 4]}, {"matrix": 5}, False)
        # load side: parse_vector(vlsp, vector, length, node) ; parse_matrix(vlsp, matrix, rows, columns, node, no_diagonal)
        l_seq, l_packs = _collect_load(P, fl, tv, key_of_id, roles(fl))
        key = "R27|%s" % tname
        if not s_seq and not l_seq:
            R.unclassified(key, "no emitter/parser calls found for this type", PROPS)
            continue
        ncmp += 1
        a = [(k, ky, d, e, fl_) for (k, ky, d, e, fl_, ln) in s_seq]
        b = [(k, ky, d, e, fl_) for (k, ky, d, e, fl_, ln) in l_seq]
        if a == b and s_packs == l_packs:
            R.ok(key + "|emit-parse-sequence[%d calls]" % len(a), PROPS)
        else:
            # first difference
            msg = None
            for i in range(max(len(a), len(b))):
                x = a[i] if i < len(a) else None
                y = b[i] if i < len(b) else None
                if x != y:
                    msg = "call %d: save emits %s, load parses %s" % (i, x, y)
                    line = s_seq[i][5] if i < len(s_seq) else (l_seq[i][5] if i < len(l_seq) else 0)
                    break
            if msg is None:
                diff = [p for p in s_packs if p not in l_packs] + [p for p in l_packs if p not in s_packs]
                msg = "packing loops differ: %s" % (diff[:2],)
                line = fs.line
            R.violated(Finding("R27", PROPS, SAVE, "add_error_parameters", "mirror:" + tname,
                               "%s: vnacal_save and vnacal_load disagree: %s" % (tname, msg), line))
        # required matrices for this type == matrices parsed
        it2 = Interp(fd, tv, {"cal_type": tv, "vls_major_version": 1}, set())
        # execute only the required-matrix switch: find the statement that assigns required_matrices
        for n in fd.walk():
            if n.k == "IfStmt":
                kids = [x for x in n.kids if x is not None]
                if "vls_major_version" in kids[0].text() and any("required_matrices" in m.text() for m in n.walk() if m.k == "CompoundAssignOperator"):
                    it2.run(n)
                    break
        req = it2.masks.get("required_matrices")
        parsed = {k for (_, k, _, _, _, _) in l_seq}
        if req is None:
            R.unclassified(key + "|required-mask", "required_matrices not evaluated", PROPS)
        else:
            reqkeys = {key_of_id.get(i, "?%d" % i) for i in range(32) if req & (1 << i)}
            if reqkeys == parsed:
                R.ok(key + "|required-mask", PROPS | {"C09"} if isinstance(PROPS, set) else set(PROPS) | {"C09"})
            else:
                R.violated(Finding("R27", set(PROPS) | {"C09"}, LOAD, "parse_data", "required-mask:" + tname,
                                   "%s: required matrices %s but parse_matrices reads %s" % (tname, sorted(reqkeys), sorted(parsed)), fd.line))
    R.counts["types_compared"] = ncmp

    # --- matrix_names[] follows matrix_id_t (used in the 'missing required matrix' message)
    g = P.global_var("matrix_names", LOAD)
    if g is None or g["node"] is None:
        raise AnalysisBroken("matrix_names not found")
    names = [k.strip().val if k is not None else None for k in g["node"].kids]
    for i, nm in enumerate(names):
        want = key_of_id.get(i)
        if want is None:
            continue
        if nm == want:
            R.ok("R27|matrix_names[%s]" % id_by_val.get(i, i), PROPS)
        else:
            R.violated(Finding("R27", PROPS, LOAD, "matrix_names", "name:%s" % id_by_val.get(i, i),
                               "matrix_names[%s] is \"%s\" but the key parsed into that slot is \"%s\" (wrong name in the "
                               "'missing required matrix' message)" % (id_by_val.get(i, i), nm, want), g.get("l", 0)))

    # --- keys written are keys read
    fsave = P.need_func("vnacal_save", SAVE)
    written = set()
    # helpers of vnacal_save.c that forward one of their parameters as the key of add_mapping_entry
    key_arg = {"add_mapping_entry": 3}
    for g in P.by_file.get(SAVE, []):
        if g.body is None or g.name == "add_mapping_entry":
            continue
        for c in g.calls("add_mapping_entry"):
            a = c.args()[3].strip() if len(c.args()) > 3 else None
            if a is not None and a.k == "DeclRefExpr" and a.refkind == "param":
                k_ = g.param_index(a.refname)
                if k_ is not None:
                    key_arg[g.name] = k_
    for c in fsave.calls():
        if c.callee in key_arg and len(c.args()) > key_arg[c.callee]:
            a = c.args()[key_arg[c.callee]].strip()
            if a.k == "StringLiteral":
                written.add(a.val)
    read = set()
    for f in P.by_file.get(LOAD, []):
        for c in f.calls("strcmp"):
            for a in c.args():
                if a.strip().k == "StringLiteral":
                    read.add(a.strip().val)
    read |= set(key_of_id.values()) | {"f"}
    for k in sorted(written):
        if k in read:
            R.ok("R27|key:%s" % k, PROPS)
        else:
            R.violated(Finding("R27", PROPS, SAVE, "vnacal_save", "key:" + k, "key \"%s\" is written by vnacal_save but never "
                               "recognised by vnacal_load" % k, fsave.line))
    if len(written) < 8:
        raise AnalysisBroken("vnacal_save: only %d mapping keys found" % len(written))

    # --- version line
    wrote = None
    for c in fsave.calls("fprintf"):
        a = c.args()
        if len(a) >= 2 and a[1].strip().k == "StringLiteral" and a[1].strip().val.startswith("#"):
            wrote = a[1].strip().val
    fload = P.need_func("vnacal_load", LOAD)
    fmts = [c.args()[1].strip().val for c in fload.calls("sscanf") if c.args()[1].strip().k == "StringLiteral"]
    okv = False
    if wrote:
        m = re.match(r"^(#\S+) (\d+)\.(\d+)\n$", wrote)
        if m:
            for fm in fmts:
                if fm == "%s %%d.%%d" % m.group(1):
                    # version gate: major must not exceed what the loader accepts
                    gate = None
                    for n in fload.walk():
                        if n.k == "BinaryOperator" and n.op == ">" and "vls_major_version" in n.kids[0].text():
                            gate = n.kids[1].strip().cv
                    okv = gate is not None and int(m.group(2)) <= gate
    if okv:
        R.ok("R27|version-line", PROPS)
    else:
        R.violated(Finding("R27", PROPS, SAVE, "vnacal_save", "version-line", "version line %r written by vnacal_save is not "
                           "accepted by the loader's formats %s / version gate" % (wrote, fmts), fsave.line))
    # --- pre-release (major version 0) files only carry the legacy "e" matrix: whatever `type` the file names,
    #     parse_set must continue with VNACAL_E12 or reject the set (parse_matrices has no legacy path otherwise)
    from ..miniexec import MiniExec, Frame, UNKNOWN
    ps = P.need_func("parse_set", LOAD)
    vif = None
    for n in ps.walk():
        if n.k == "IfStmt":
            c0 = [x for x in n.kids if x is not None][0].strip()
            if c0.k == "BinaryOperator" and c0.op == "==" and c0.kids[0].strip().k == "MemberExpr" and \
                    c0.kids[0].strip().member == "vls_major_version" and c0.kids[1].strip().cv == 0:
                vif = n
    if vif is None:
        R.violated(Finding("R27", set(PROPS) | {"C09"}, LOAD, "parse_set", "legacy-type", "no handling of major version 0 found in "
                           "parse_set", ps.line))
    else:
        e12 = types.get("VNACAL_E12")
        for tname, tv in sorted(list(types.items()) + [("<type not given>", -1)], key=lambda kv: kv[1]):
            if tname.startswith("_") or tname == "VNACAL_NOTYPE":
                continue
            ex = MiniExec(on_call=lambda c, fr, ex_: 0)
            fr = Frame({"type": tv}, {"vls_major_version": 0})
            frames = ex.exec(vif, [fr])
            verdicts = set()
            for g in frames:
                if g.flow == "return":
                    verdicts.add("rejected")
                else:
                    t = g.env.get("type", UNKNOWN)
                    verdicts.add("E12" if t == e12 else "type=%s" % (t if t is not UNKNOWN else "?"))
            key = "R27|legacy-version|%s" % tname
            if verdicts <= {"rejected", "E12"}:
                R.ok(key, set(PROPS) | {"C09"})
            else:
                R.violated(Finding("R27", set(PROPS) | {"C09"}, LOAD, "parse_set", "legacy-type:" + tname,
                                   "a pre-release (#VNACAL 2.x) file naming type %s continues with %s: only the legacy \"e\" matrix "
                                   "is required for such files, so parse_matrices then reads matrices that were never found" %
                                   (tname, sorted(verdicts)), vif.line))
    R.check_floor()
    return R


def _collect_load(P, fl, tv, key_of_id, base_roles):
    it = Interp(fl, tv, {"cal_type": tv, "vls_major_version": 1}, {"parse_vector", "parse_matrix"})
    it.run(fl.body)
    cn_roles = dict(base_roles)

    def key_of(c):
        a = c.args()
        na = a[3] if c.callee == "parse_vector" else a[4]
        ka = na.strip()
        kid = ka.kids[1].strip().cv if ka.k == "ArraySubscriptExpr" else None
        return key_of_id.get(kid, "?id%s" % kid)
    for c in it.calls:
        d = c.args()[1].strip()
        if d.k == "UnaryOperator" and d.op == "&":
            b = d
            while b.k in ("UnaryOperator", "ArraySubscriptExpr"):
                b = b.kids[0].strip()
            if b.k == "DeclRefExpr" and b.refkind == "local" and "[" in b.ctype:
                cn_roles[b.refdecl] = "PACK<%s>" % key_of(c)
    CN = Canon(fl, cn_roles)
    seq = []
    for c in it.calls:
        a = c.args()
        if c.callee == "parse_vector":
            seq.append(("vector", key_of(c), CN.path(a[1]), (CN.path(a[2]),), None, c.line))
        else:
            seq.append(("matrix", key_of(c), CN.path(a[1]), (CN.path(a[2]), CN.path(a[3])), a[5].strip().cv, c.line))
    packs = sorted((CN.path(e.kids[0]), CN.path(e.kids[1])) for e in it.assigns if "PACK<" in CN.path(e.kids[0]))
    return seq, packs

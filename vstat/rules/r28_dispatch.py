"""R28 DISPATCH-TABLE (C05): vnadata_convert's table, function groups and dispatch arms.

Everything is derived from the current source:
  * the 11x11 conversion_table (semantic initialiser form, so designators and
    positions are resolved by clang),
  * the way vnadata_convert itself decodes a code into (group, index)
    (the initialisers/assignments of `group` and `index` are *evaluated* on
    every table cell, so changing GET_GROUP/GET_INDEX/MAKE_CODE is followed),
  * the switch arms of vnadata_convert and the function-pointer table each arm
    indexes,
  * the vnaconv_* prototypes of vnaconv.h.
Oracle: the naming scheme vnaconv_<x>to<y>[n] / vnaconv_<x>tozi[n] of vnaconv(3).
"""
import re
from ..core import Finding, RuleResult
from ..facts import AnalysisBroken
from ..util import eval_int, CannotEval, access_path
from ..canon import Canon

FILE = "vnadata_convert.c"
PROPS = ("C05",)


def _letter(vpt_name):
    s = vpt_name[len("VPT_"):]
    if s == "UNDEF":
        return "-"
    if s == "ZIN":
        return "zi"
    return s.lower()


def _switch_arms(sw):
    """[(case value or None for default, [stmts])] for a SwitchStmt."""
    body = sw.kids[-1]
    arms = []
    cur = None
    for st in body.kids:
        s = st
        # nested labels: case A: case B: stmt
        labels = []
        while s is not None and s.k in ("CaseStmt", "DefaultStmt"):
            labels.append(s)
            s = s.kids[-1]
        if labels:
            cur = ([l.get("val") if l.k == "CaseStmt" else None for l in labels], [s] if s is not None else [])
            arms.append(cur)
        elif cur is not None:
            cur[1].append(st)
    return arms


def _macro_value(P, name):
    """value of an object-like integer macro, read from any expression expanded from it"""
    for fn in P.all_functions():
        for n in fn.walk():
            if n.k == "IntegerLiteral" and n.macro == name:
                return n.val
    raise AnalysisBroken("macro %s is never expanded in the library" % name)


def run(P, tier="quick"):
    R = RuleResult("R28", "every conversion_table cell selects, through vnadata_convert's own group/index decoding and "
                   "dispatch arm, the vnaconv function its (row type, column type) position names, with the right "
                   "signature and arguments (in, out, per-frequency z0, n)", floor=121 + 6)
    f = P.need_func("vnadata_convert", FILE)
    if len(f.params) != 3:
        raise AnalysisBroken("vnadata_convert no longer has 3 parameters")
    CN = Canon(f)
    tab = P.global_var("conversion_table", FILE)
    if tab is None or tab["node"] is None:
        raise AnalysisBroken("conversion_table not found")
    vpt = P.enums.get("vnadata_parameter_type")
    if not vpt:
        raise AnalysisBroken("enum vnadata_parameter_type not found")
    types = sorted(((v, k) for k, v in vpt.items() if k != "VPT_NTYPES"))
    ntypes = vpt.get("VPT_NTYPES", len(types))
    rows = tab["node"].kids
    if len(rows) != ntypes or any(len(r.kids) != ntypes for r in rows if r is not None):
        raise AnalysisBroken("conversion_table is not %dx%d" % (ntypes, ntypes))
    PERF = _macro_value(P, "VF_PER_F_Z0")
    cg = P.enums.get("conversion_group", {})
    for need in ("CONV_xtoy", "CONV_xtoI", "CONV_NONE", "CONV_MASK", "DIM_ANY", "DIM_VEC", "DIM_2x2", "DIM_NxN",
                 "DIM_MASK", "Z0_YES", "Z0_MASK"):
        if need not in cg:
            raise AnalysisBroken("conversion_group.%s missing" % need)

    # --- how does vnadata_convert decode a code?  group = ..., index = ...
    # the variables are found by their role: GROUP is the local the dispatch switch (the one whose arms make indirect
    # calls) switches on; in the arms  FN = <function table>[INDEX]  names the other two
    GROUP = INDEX = FN = None
    for sw_ in f.walk():
        if sw_.k != "SwitchStmt":
            continue
        cond_ = None
        for kid in sw_.kids[:-1]:
            if kid is not None:
                cond_ = kid
        if cond_ is not None and cond_.strip().k == "DeclRefExpr" and cond_.strip().refkind == "local" and \
                any(m.k == "CallExpr" and m.get("callee_indirect") for m in sw_.walk()):
            GROUP = cond_.strip().refname
            for m in sw_.walk():
                if m.k == "BinaryOperator" and m.op == "=" and m.kids[0].strip().k == "DeclRefExpr":
                    rhs_ = m.kids[1].strip()
                    if rhs_.k == "ArraySubscriptExpr" and rhs_.kids[0].strip().k == "DeclRefExpr" and \
                            rhs_.kids[0].strip().refkind == "global" and rhs_.kids[1].strip().k == "DeclRefExpr":
                        FN = FN or m.kids[0].strip().refname
                        INDEX = INDEX or rhs_.kids[1].strip().refname
    if GROUP is None or INDEX is None or FN is None:
        raise AnalysisBroken("vnadata_convert: dispatch switch / function-table look-up not found")
    decode = {}
    for n in f.walk():
        if n.k == "BinaryOperator" and n.op == "=" and n.kids[0].strip().k == "DeclRefExpr":
            nm = n.kids[0].strip().refname
            if nm in (GROUP, INDEX) and nm not in decode:
                decode["group" if nm == GROUP else "index"] = n.kids[1]
        if n.k == "VarDecl" and n.get("name") in (GROUP, INDEX) and n.kids:
            decode.setdefault("group" if n.get("name") == GROUP else "index", n.kids[0])
    if set(decode) != {"group", "index"}:
        raise AnalysisBroken("vnadata_convert: cannot find group/index decoding")
    # name of the variable holding the table cell
    cellvar = None
    for n in f.walk():
        if n.k == "BinaryOperator" and n.op == "=":
            rhs = n.kids[1].strip()
            if rhs.k == "ArraySubscriptExpr" and "conversion_table" in rhs.text():
                cellvar = n.kids[0].strip().refname
                # subscripts must be [vdp_in->vd_type][newtype]
                sub = CN.path(rhs)
                if sub != "conversion_table[$0->vd_type][$2]":
                    R.violated(Finding("R28", PROPS, FILE, f.name, "lookup", "table lookup is %s, expected "
                                       "conversion_table[vdp_in->vd_type][newtype]" % sub, n.line))
                else:
                    R.ok("R28|lookup-subscripts")
    if cellvar is None:
        raise AnalysisBroken("vnadata_convert: table lookup not found")

    # --- switch arms on `group`
    sws = [n for n in f.walk() if n.k == "SwitchStmt"]
    disp = None
    dimsw = None
    for sw in sws:
        c = sw.kids[-2] if len(sw.kids) >= 2 else None
        # children of SwitchStmt: [init?, condvar?, cond, body] -> find cond as the last Expr before body
        cond = None
        for kid in sw.kids[:-1]:
            if kid is not None:
                cond = kid
        t = access_path(cond) if cond is not None else ""
        if cond is not None and cond.strip().k == "DeclRefExpr" and cond.strip().refname == GROUP:
            disp = sw
        elif "DIM_MASK" in (cond.text() if cond else "") or t.startswith("(%s&" % GROUP):
            dimsw = sw
    if disp is None:
        raise AnalysisBroken("vnadata_convert: dispatch switch(group) not found")
    arms = {}
    for vals, stmts in _switch_arms(disp):
        for v in vals:
            arms[v] = stmts
    # per arm: table name, call
    arminfo = {}
    for v, stmts in arms.items():
        if v is None:
            continue
        tname = None
        call = None
        loop = None
        for st in stmts:
            for n in st.walk():
                if n.k == "BinaryOperator" and n.op == "=" and n.kids[0].strip().refname == FN:
                    rhs = n.kids[1].strip()
                    if rhs.k == "ArraySubscriptExpr":
                        tname = rhs.kids[0].strip().refname
                        if rhs.kids[1].strip().refname != INDEX:
                            R.violated(Finding("R28", PROPS, FILE, f.name, "arm%#x-index" % v,
                                               "dispatch arm indexes %s with %s, not index" % (tname, rhs.kids[1].text()),
                                               n.line))
                if n.k == "CallExpr" and n.get("callee_indirect"):
                    call = n
                if n.k == "ForStmt":
                    loop = n
        arminfo[v] = (tname, call, loop)

    def expected(xname, yname, grp):
        x, y = _letter(xname), _letter(yname)
        conv = grp & cg["CONV_MASK"]
        dim = grp & cg["DIM_MASK"]
        nm = "vnaconv_%sto%s" % (x, y)
        if dim == cg["DIM_NxN"]:
            nm += "n"
        return nm

    # --- every cell
    cells_ok = 0
    for ri, (rv, rname) in enumerate(types):
        for ci, (cvv, cname) in enumerate(types):
            cell = rows[rv].kids[cvv]
            key = "R28|cell[%s][%s]" % (rname, cname)
            code = cell.cv
            cellname = cell.strip().refname or str(code)
            if code is None:
                R.unclassified(key, "non-constant cell")
                continue
            try:
                grp = eval_int(decode["group"], {cellvar: code})
                idx = eval_int(decode["index"], {cellvar: code, "group": grp})
            except CannotEval as e:
                raise AnalysisBroken("cannot evaluate group/index decoding: %s" % e)
            x, y = _letter(rname), _letter(cname)
            two = "vnaconv_%sto%s" % (x, y)
            nport = two + "n"
            have2 = two in P.prototypes
            haven = nport in P.prototypes
            line = cell.line
            invalid = (code == P.enum_consts.get("INVAL", (None, 0))[1])
            if rv == cvv:
                # diagonal: must be a no-conversion code
                if (grp & cg["CONV_MASK"]) != cg["CONV_NONE"] or invalid:
                    R.violated(Finding("R28", PROPS, FILE, "conversion_table", "cell[%s][%s]" % (rname, cname),
                                       "diagonal cell is %s, not a *SAME code" % cellname, line))
                else:
                    R.ok(key)
                continue
            if x == "-" or y == "-" or x == "zi":
                if not invalid:
                    R.violated(Finding("R28", PROPS, FILE, "conversion_table", "cell[%s][%s]" % (rname, cname),
                                       "conversion from/to undefined type or from Zin must be INVAL, is %s" % cellname, line))
                else:
                    R.ok(key)
                continue
            if invalid:
                if have2 or haven:
                    R.violated(Finding("R28", PROPS, FILE, "conversion_table", "cell[%s][%s]" % (rname, cname),
                                       "cell is INVAL although %s exists" % (nport if haven else two), line))
                else:
                    R.ok(key)
                continue
            if (grp & cg["CONV_MASK"]) == cg["CONV_NONE"]:
                R.violated(Finding("R28", PROPS, FILE, "conversion_table", "cell[%s][%s]" % (rname, cname),
                                   "off-diagonal cell is the no-conversion code %s" % cellname, line))
                continue
            want = nport if haven else two
            if want not in P.prototypes:
                R.violated(Finding("R28", PROPS, FILE, "conversion_table", "cell[%s][%s]" % (rname, cname),
                                   "cell %s names a conversion for which no %s exists" % (cellname, want), line))
                continue
            # conversion class must be xtoI exactly for column ZIN
            isI = (grp & cg["CONV_MASK"]) == cg["CONV_xtoI"]
            if isI != (y == "zi"):
                R.violated(Finding("R28", PROPS, FILE, "conversion_table", "cell[%s][%s]" % (rname, cname),
                                   "code %s has %s class but column is %s" % (cellname, "xtoI" if isI else "xtoy", cname), line))
                continue
            if grp not in arminfo:
                R.violated(Finding("R28", PROPS, FILE, "conversion_table", "cell[%s][%s]" % (rname, cname),
                                   "code %s decodes to group %#x which has no dispatch arm" % (cellname, grp), line))
                continue
            tname, call, loop = arminfo[grp]
            g = P.global_var(tname, FILE) if tname else None
            if g is None or g["node"] is None:
                raise AnalysisBroken("dispatch arm %#x: function table not found" % grp)
            slots = g["node"].kids
            got = None
            if 0 <= idx < len(slots) and slots[idx] is not None:
                got = slots[idx].strip().refname
            if got != want:
                R.violated(Finding("R28", PROPS, FILE, "conversion_table", "cell[%s][%s]" % (rname, cname),
                                   "%s -> %s: code %s dispatches to %s[%d] = %s, expected %s" %
                                   (rname, cname, cellname, tname, idx, got, want), line))
                continue
            # signature of the bound function vs group bits
            pr = P.prototypes[want]
            ptypes = [p["t"] for p in pr["params"]]
            has_z0 = any(p["name"] == "z0" for p in pr["params"])
            is2 = ptypes and "(*)[2]" in ptypes[0]
            hasn = ptypes and ptypes[-1] == "int"
            sig_ok = (has_z0 == bool(grp & cg["Z0_MASK"])) and \
                     (is2 == ((grp & cg["DIM_MASK"]) == cg["DIM_2x2"])) and \
                     (hasn == ((grp & cg["DIM_MASK"]) == cg["DIM_NxN"]))
            if not sig_ok:
                R.violated(Finding("R28", PROPS, FILE, "conversion_table", "cell[%s][%s]" % (rname, cname),
                                   "group bits of %s (%#x) disagree with prototype of %s(%s)" %
                                   (cellname, grp, want, ", ".join(ptypes)), line))
                continue
            R.ok(key)
            cells_ok += 1
    R.counts["cells"] = ntypes * ntypes
    R.counts["cells_bound_to_function"] = cells_ok

    # --- table element type == prototype of every bound function; no NULL holes
    bindings = 0
    for v, (tname, call, loop) in sorted(arminfo.items()):
        g = P.global_var(tname, FILE) if tname else None
        if g is None:
            raise AnalysisBroken("arm %#x: no table" % v)
        for i, s in enumerate(g["node"].kids):
            key = "R28|%s[%d]" % (tname, i)
            nm = s.strip().refname if s is not None else None
            if nm is None or s.k == "ImplicitValueInitExpr":
                R.violated(Finding("R28", PROPS, FILE, tname, "slot%d" % i, "%s[%d] is a NULL hole (a designated index "
                                   "was duplicated or skipped)" % (tname, i), g.get("l", 0)))
                continue
            pr = P.prototypes.get(nm)
            if pr is None:
                R.violated(Finding("R28", PROPS, FILE, tname, "slot%d" % i, "%s is not declared" % nm, g.get("l", 0)))
                continue
            want_t = "void (*[%d])(%s)" % (len(g["node"].kids), ", ".join(p["t"] for p in pr["params"]))
            if g["t"] != want_t:
                R.violated(Finding("R28", PROPS, FILE, tname, "slot%d" % i,
                                   "%s has type (%s) but table elements are %s" % (nm, ", ".join(p["t"] for p in pr["params"]), g["t"]),
                                   g.get("l", 0)))
                continue
            bindings += 1
            R.ok(key)
    R.counts["function_bindings"] = bindings

    Z0_HELPERS = set()
    # --- each dispatch arm's call: in/out/z0/n arguments and loop
    for v, (tname, call, loop) in sorted(arminfo.items()):
        key = "R28|arm%#x-call" % v
        if call is None or loop is None:
            R.violated(Finding("R28", PROPS, FILE, f.name, "arm%#x-call" % v, "dispatch arm has no per-frequency call", 0))
            continue
        args = [CN.path(a) for a in call.args()]
        want = ["$0->vd_data[$i]", "$1->vd_data[$i]"]
        if v & cg["Z0_MASK"]:
            want.append("get_fz0_vector(INT($0),$i)")
        if (v & cg["DIM_MASK"]) == cg["DIM_NxN"]:
            want.append("$0->vd_rows")
        lt = CN.path(loop.kids[2]) if loop.kids[2] is not None else ""
        init = loop.kids[0]
        initv = None
        if init is not None and init.k == "DeclStmt" and init.kids and init.kids[0].kids:
            initv = init.kids[0].kids[0].cv
        elif init is not None and init.strip().k == "BinaryOperator":
            initv = init.strip().kids[1].cv
        inc = loop.kids[3].strip() if loop.kids[3] is not None else None
        bad = None
        # the z0 argument may be the helper call or the same selection written in line
        inline_z0 = "((INT($0)->vdi_flags&%d)?INT($0)->vdi_z0.vdi_z0_vector_vector[$i]:INT($0)->vdi_z0.vdi_z0_vector)" % PERF
        if (v & cg["Z0_MASK"]) and len(args) == len(want) and args[2].replace(" ", "") == inline_z0:
            args[2] = want[2]
        elif (v & cg["Z0_MASK"]) and len(args) == len(want):
            # a static helper of this file called as H(internal(input), findex): its name is free, its shape is checked below
            m_ = re.match(r"^([A-Za-z_]\w*)\(INT\(\$0\),\$i\)$", args[2].replace(" ", ""))
            hf = P.func(m_.group(1), FILE) if m_ else None
            if hf is not None and hf.static:
                Z0_HELPERS.add(m_.group(1))
                args[2] = want[2]
        if args != want:
            bad = "arguments are (%s), expected (%s) [$0=input object, $1=output object, $i=frequency index]" % (", ".join(args), ", ".join(want))
        elif lt != "($i<$0->vd_frequencies)" or initv != 0 or inc is None or inc.op != "++":
            bad = "frequency loop is '%s; %s', expected $i = 0; $i < $0->vd_frequencies; ++$i" % (init.text() if init else "", lt)
        elif not loop.is_ancestor_of(call):
            bad = "call is not inside the frequency loop"
        if bad:
            R.violated(Finding("R28", PROPS, FILE, f.name, "arm%#x-call" % v, "dispatch arm %#x: %s" % (v, bad), call.line))
        else:
            R.ok(key)

    # --- get_fz0_vector: per-frequency vector under the flag, ordinary otherwise
    if len(Z0_HELPERS) > 1:
        R.violated(Finding("R28", PROPS, FILE, f.name, "z0-helpers", "the dispatch arms select the reference impedances through "
                           "different helpers: %s" % ", ".join(sorted(Z0_HELPERS)), f.line))
    gz = P.func(sorted(Z0_HELPERS)[0], FILE) if Z0_HELPERS else None
    ok = False
    if gz is None:
        # the selection is written in line at every call (accepted above in canonical form): nothing more to check
        ok = True
        rets = []
    else:
        GZ = Canon(gz)
        rets = gz.returns()
    if gz is not None and len(rets) == 2 and gz.cfg is not None:
        ifs = [n for n in gz.walk() if n.k == "IfStmt"]
        if len(ifs) == 1:
            cond = ifs[0].kids[-3] if ifs[0].get("haselse") else ifs[0].kids[-2]
            conds = [k for k in ifs[0].kids if k is not None]
            cond = conds[0]
            then = conds[1]
            inthen = [r for r in rets if then.is_ancestor_of(r)]
            other = [r for r in rets if not then.is_ancestor_of(r)]
            if GZ.path(cond) == "($0->vdi_flags&%d)" % PERF and len(inthen) == 1 and len(other) == 1:
                if GZ.path(inthen[0].kids[0]) == "$0->vdi_z0.vdi_z0_vector_vector[$1]" and \
                        GZ.path(other[0].kids[0]) == "$0->vdi_z0.vdi_z0_vector":
                    ok = True
    if ok:
        R.ok("R28|get_fz0_vector")
    else:
        R.violated(Finding("R28", PROPS, FILE, "get_fz0_vector", "shape", "get_fz0_vector must return "
                           "vdi_z0_vector_vector[findex] when VF_PER_F_Z0 is set and vdi_z0_vector otherwise", gz.line if gz is not None else 0))

    # --- destination set-up (vdp_out != vdp_in): the must-call set with its arguments
    setup_if = None
    for n in f.walk():
        if n.k == "IfStmt":
            conds = [k for k in n.kids if k is not None]
            if CN.path(conds[0]) in ("($1!=$0)", "($0!=$1)") and any(c.callee == "vnadata_init" for c in conds[1].calls()):
                setup_if = n
    if setup_if is None:
        R.violated(Finding("R28", PROPS, FILE, f.name, "setup", "destination set-up block (vdp_out != vdp_in) with "
                           "vnadata_init not found", f.line))
    else:
        then = [k for k in setup_if.kids if k is not None][1]
        want_calls = {
            "vnadata_init": None,
            "vnadata_set_frequency_vector": ["$1", "$0->vd_frequency_vector"],
            "vnadata_set_z0_vector": ["$1", "INT($0)->vdi_z0.vdi_z0_vector"],
            "vnadata_set_fz0_vector": ["$1", "$i", "INT($0)->vdi_z0.vdi_z0_vector_vector[$i]"],
            "vnadata_set_filetype": ["$1", "INT($0)->vdi_filetype"],
            "vnadata_set_format": ["$1", "INT($0)->vdi_format_string"],
            "vnadata_set_fprecision": ["$1", "INT($0)->vdi_fprecision"],
            "vnadata_set_dprecision": ["$1", "INT($0)->vdi_dprecision"],
        }
        for cname, wargs in want_calls.items():
            cs = [c for c in then.calls(cname)]
            key = "R28|setup-%s" % cname
            if len(cs) != 1:
                R.violated(Finding("R28", PROPS, FILE, f.name, "setup-" + cname, "destination set-up must call %s exactly "
                                   "once (found %d)" % (cname, len(cs)), setup_if.line))
                continue
            c = cs[0]
            a = [CN.path(x) for x in c.args()]
            if cname == "vnadata_init":
                # (vdp_out, VPT_UNDEF, rows, cols, vdp_in->vd_frequencies)
                okk = len(a) == 5 and a[0] == "$1" and c.args()[1].cv == vpt.get("VPT_UNDEF") and \
                    a[4] == "$0->vd_frequencies"
                if not okk:
                    R.violated(Finding("R28", PROPS, FILE, f.name, "setup-" + cname, "vnadata_init arguments are (%s)" % ", ".join(a), c.line))
                    continue
            elif a != wargs:
                R.violated(Finding("R28", PROPS + ("C06",), FILE, f.name, "setup-" + cname, "%s arguments are (%s), expected (%s)" %
                                   (cname, ", ".join(a), ", ".join(wargs)), c.line))
                continue
            # the failure of the call must be tested (== -1 -> return -1), except set_frequency_vector (cannot fail here)
            R.ok(key)
        # z0 branch selection: set_z0_vector under !(flags & PER_F), set_fz0_vector under else, inside a loop to vd_frequencies
        zs = then.calls("vnadata_set_z0_vector")
        fs = then.calls("vnadata_set_fz0_vector")
        if len(zs) == 1 and len(fs) == 1:
            zi = [a for a in zs[0].ancestors() if a.k == "IfStmt" and then.is_ancestor_of(a)]
            okz = False
            for a in zi:
                conds = [k for k in a.kids if k is not None]
                c0 = conds[0].strip()
                neg = c0.k == "UnaryOperator" and c0.op == "!"
                inner = CN.path(c0.kids[0]) if neg else CN.path(c0)
                if inner == "(INT($0)->vdi_flags&%d)" % PERF and len(conds) == 3:
                    th, el = conds[1], conds[2]
                    z_in_then = th.is_ancestor_of(zs[0])
                    f_in_else = el.is_ancestor_of(fs[0])
                    if neg and z_in_then and f_in_else:
                        okz = True
                    if (not neg) and el.is_ancestor_of(zs[0]) and th.is_ancestor_of(fs[0]):
                        okz = True
            loops = [a for a in fs[0].ancestors() if a.k == "ForStmt" and then.is_ancestor_of(a)]
            okl = False
            for lp in loops:
                cond = lp.kids[2]
                if cond is not None and CN.path(cond) == "($i<$0->vd_frequencies)":
                    okl = True
            # the copy is unconditional apart from the mode flag: any other enclosing condition (a conversion group, the
            # parameter type) makes some conversions drop the source's impedances
            extra = None
            for call_ in (zs[0], fs[0]):
                for a in call_.ancestors():
                    if a.k != "IfStmt" or not then.is_ancestor_of(a):
                        continue
                    chain = [a]
                    # an `else if` hangs below the else-branch of another IfStmt: that condition guards it as well
                    par = a.parent
                    while par is not None and par.k == "IfStmt" and then.is_ancestor_of(par):
                        chain.append(par)
                        par = par.parent
                    for q in chain:
                        c0 = [k for k in q.kids if k is not None][0].strip()
                        neg_ = c0.k == "UnaryOperator" and c0.op == "!"
                        inner_ = CN.path(c0.kids[0]) if neg_ else CN.path(c0)
                        if inner_ == "(INT($0)->vdi_flags&%d)" % PERF:
                            continue
                        if c0.is_ancestor_of(call_) or c0.id == call_.id:
                            continue
                        extra = (q, c0)
            if extra is not None:
                R.violated(Finding("R28", PROPS, FILE, f.name, "setup-z0-mode",
                                   "the copy of the reference impedances to the destination is conditional on `%s`: conversions for "
                                   "which it is false leave the destination at 50 ohm" % extra[1].text()[:50], extra[0].line))
            elif okz and okl:
                R.ok("R28|setup-z0-mode")
            else:
                R.violated(Finding("R28", PROPS, FILE, f.name, "setup-z0-mode", "z0 copy must use set_z0_vector when "
                                   "VF_PER_F_Z0 is clear and set_fz0_vector for every findex < vd_frequencies when set",
                                   zs[0].line))
    # --- in-place safety: the output may be the input object, so its dimension/type fields may only be
    #     changed after the last conversion call (the dispatch arms read vd_rows/vd_frequencies of the input)
    dim_fields = ("vd_rows", "vd_columns", "vd_frequencies", "vd_type")
    disp_calls = [c for (t, c, l) in arminfo.values() if c is not None]
    for n in f.walk():
        if n.k == "BinaryOperator" and n.op == "=":
            l = n.kids[0].strip()
            if l.k == "MemberExpr" and l.member in dim_fields and CN.path(l.kids[0]) == "$1":
                pos = f.cfg.pos_of(n)
                late = True
                for c in disp_calls:
                    cp = f.cfg.pos_of(c)
                    if pos is None or cp is None:
                        continue
                    if cp[0] in f.cfg.reachable_from(pos[0]) or (cp[0] == pos[0] and cp[1] > pos[1]):
                        late = False
                key = "R28|store-after-dispatch:%s" % l.member
                # the memcpy branch for equal types also sets vd_type: only stores that can be followed by a dispatch matter
                if late:
                    R.ok(key + "@%s" % ("same-type" if "newtype" in n.kids[1].text() and False else l.member))
                else:
                    R.violated(Finding("R28", PROPS, FILE, f.name, "store-before-dispatch:" + l.member,
                                       "%s is assigned at line %d before the conversion loops run: for an in-place conversion "
                                       "(vdp_out == vdp_in) the dispatch arms then read the new value" % (l.text(), n.line), n.line))
    R.check_floor()
    return R

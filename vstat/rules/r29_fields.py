"""R22 CHECK-SPLIT and R29 FIELD-COUNT (C06).

R22  Every failure that vnadata_save/fsave can still report after the point where
     vnadata_cksave returns success must be a system failure (allocation, I/O):
     a callee whose failing paths can report VNAERR_USAGE there means cksave accepts
     an object that save then refuses.
R29  For every (parameter type, format) pair of the NPD format the number of numeric
     fields the saver prints per data line equals the number of fields the loader
     expects.  Both numbers are derived *symbolically* as polynomials in `ports`
     from the loop nests around the print calls and from the loader's own `fields`
     arithmetic (switch arms selected per pair, the `row == column` skip of the IL
     arm recognised as removing the diagonal).
"""
import re

from ..core import Finding, RuleResult
from ..facts import AnalysisBroken
from ..failflow import compute_fail_summaries
from ..poly import Poly

SAVE, LOAD = "vnadata_save.c", "vnadata_load_npd.c"
PROPS = ("C06",)
FLOATCONV = re.compile(r"%[-+ #0]*(?:\*|\d+)?(?:\.(?:\*|\d+))?[lL]?[aAeEfFgG]")


class Counter:
    """symbolic count of printed numeric fields in a statement, for one (parameter, format)"""

    def __init__(self, members, sym):
        self.members = members      # member name -> int
        self.vars = {}              # local const flags (done)
        self.sym = sym              # variable name -> Poly (rows, ports ...)
        self.ambiguous = []
        self.flow = None

    def const(self, e):
        e = e.strip()
        if e.k == "MemberExpr" and e.member in self.members:
            return self.members[e.member]
        if e.k == "DeclRefExpr" and e.refname in self.vars:
            return self.vars[e.refname]
        if e.cv is not None:
            return e.cv
        if e.k == "BinaryOperator" and e.op in ("==", "!=", "&&", "||"):
            a, b = self.const(e.kids[0]), self.const(e.kids[1])
            if e.op == "&&":
                if a == 0 or b == 0:
                    return 0
            if e.op == "||":
                if (a is not None and a) or (b is not None and b):
                    return 1
            if a is None or b is None:
                return None
            return {"==": int(a == b), "!=": int(a != b), "&&": int(bool(a) and bool(b)), "||": int(bool(a) or bool(b))}[e.op]
        if e.k == "UnaryOperator" and e.op == "!":
            a = self.const(e.kids[0])
            return None if a is None else int(not a)
        return None

    def prints_in_expr(self, e):
        n = 0
        for m in e.walk():
            if m.k == "CallExpr":
                if m.callee == "print_value":
                    n += 1
                elif m.callee == "fprintf" and len(m.args()) >= 2 and m.args()[1].strip().k == "StringLiteral":
                    n += len(FLOATCONV.findall(m.args()[1].strip().val))
                elif m.callee in Counter.HELPERS:
                    n += Counter.helper_fields(m.callee)
        return n

    # static helpers of the saver that print fields themselves (e.g. an extracted print_angle()): the number of fields
    # one call prints is the count of its own body, which must be the same constant on every path
    HELPERS = {}
    _HELPER_MEMO = {}

    @staticmethod
    def helper_fields(name):
        if name in Counter._HELPER_MEMO:
            return Counter._HELPER_MEMO[name]
        Counter._HELPER_MEMO[name] = 0      # recursion guard
        g = Counter.HELPERS[name]
        c = Counter({}, {})
        p = c.count(g.body)
        v = p.const_value() if p.is_const() and not c.ambiguous else 0
        Counter._HELPER_MEMO[name] = int(v)
        return int(v)

    def poly_of(self, e):
        e = e.strip()
        if e.cv is not None:
            return Poly.const(e.cv)
        if e.k == "DeclRefExpr" and e.refname in self.sym:
            return self.sym[e.refname]
        if e.k == "DeclRefExpr":
            return Poly.sym(e.refname)
        if e.k == "BinaryOperator" and e.op in ("+", "-", "*"):
            a, b = self.poly_of(e.kids[0]), self.poly_of(e.kids[1])
            return a + b if e.op == "+" else (a - b if e.op == "-" else a * b)
        return Poly.sym(e.text())

    def count(self, s, loops=()):
        """-> Poly of fields printed by s; sets self.flow on break"""
        if s is None or self.flow:
            return Poly.const(0)
        k = s.k
        if k == "CompoundStmt":
            tot = Poly.const(0)
            for c in s.kids:
                tot = tot + self.count(c, loops)
                if self.flow:
                    break
            return tot
        if k == "DeclStmt":
            n = 0
            for vd in s.kids:
                if vd.kids:
                    n += self.prints_in_expr(vd.kids[0])
                    c = self.const(vd.kids[0])
                    if c is not None:
                        self.vars[vd.get("name")] = c
            return Poly.const(n)
        if k == "IfStmt":
            kids = [x for x in s.kids if x is not None]
            c = self.const(kids[0])
            if c is None:
                # `if (row == column) continue;` inside a double loop: diagonal skip
                cc = kids[0].strip()
                then = kids[1]
                only_continue = all(m.k in ("CompoundStmt", "ContinueStmt") for m in then.walk())
                if only_continue and cc.k == "BinaryOperator" and cc.op == "==" and len(loops) >= 2:
                    a, b = cc.kids[0].strip(), cc.kids[1].strip()
                    names = {a.refname, b.refname}
                    if names == {loops[-1][0], loops[-2][0]}:
                        self.diag_skip = True
                        return Poly.const(0)
                a_ = Counter(self.members, self.sym)
                a_.vars = dict(self.vars)
                pa = a_.count(kids[1], loops)
                b_ = Counter(self.members, self.sym)
                b_.vars = dict(self.vars)
                pb = b_.count(kids[2], loops) if len(kids) > 2 else Poly.const(0)
                pc = Poly.const(self.prints_in_expr(kids[0]))
                if pa == pb and a_.flow == b_.flow:
                    self.vars.update({k2: v for k2, v in a_.vars.items() if b_.vars.get(k2) == v})
                    return pc + pa
                self.ambiguous.append(kids[0].line)
                return pc + pa
            if c:
                return self.count(kids[1], loops)
            return self.count(kids[2], loops) if len(kids) > 2 else Poly.const(0)
        if k == "ForStmt":
            init, cond, body = s.kids[0], s.kids[2], s.kids[4]
            var = None
            lo = None
            if init is not None and init.k == "DeclStmt" and init.kids and init.kids[0].kids:
                var = init.kids[0].get("name")
                lo = self.poly_of(init.kids[0].kids[0])
            elif init is not None and init.strip().k == "BinaryOperator" and init.strip().op == "=":
                var = init.strip().kids[0].strip().refname
                lo = self.poly_of(init.strip().kids[1])
            c = cond.strip() if cond is not None else None
            if var is None or c is None or c.k != "BinaryOperator" or c.op not in ("<", "<=") or c.kids[0].strip().refname != var:
                self.ambiguous.append(s.line)
                return Poly.const(0)
            hi = self.poly_of(c.kids[1]) + (Poly.const(1) if c.op == "<=" else Poly.const(0))
            trip = hi - lo
            self.diag_skip = False
            inner = self.count(body, loops + ((var, trip),))
            if self.flow == "continue":
                self.flow = None
            if getattr(self, "diag_skip", False) and len(loops) >= 1:
                # this is the inner loop of the pair; the outer loop multiplies by its trip; remove one per outer iteration
                self.diag_skip = False
                return (trip - Poly.const(1)) * inner if not inner.is_zero() else inner
            return trip * inner
        if k == "SwitchStmt":
            cond = [x for x in s.kids[:-1] if x is not None][-1]
            v = self.const(cond)
            if v is None:
                self.ambiguous.append(s.line)
                return Poly.const(0)
            body = s.kids[-1]
            stmts = body.kids
            entry = default = None
            for i, st in enumerate(stmts):
                t = st
                while t is not None and t.k in ("CaseStmt", "DefaultStmt"):
                    if t.k == "CaseStmt" and t.get("val") == v and entry is None:
                        entry = i
                    if t.k == "DefaultStmt":
                        default = i
                    t = t.kids[-1]
            if entry is None:
                entry = default
            tot = Poly.const(0)
            if entry is None:
                return tot
            for st in stmts[entry:]:
                t = st
                while t is not None and t.k in ("CaseStmt", "DefaultStmt"):
                    t = t.kids[-1]
                tot = tot + self.count(t, loops)
                if self.flow == "break":
                    self.flow = None
                    break
                if self.flow:
                    break
            return tot
        if k == "BreakStmt":
            self.flow = "break"
            return Poly.const(0)
        if k == "ContinueStmt":
            self.flow = "continue"
            return Poly.const(0)
        if k in ("ReturnStmt", "GotoStmt"):
            self.flow = "return"
            return Poly.const(0)
        if k in ("CaseStmt", "DefaultStmt", "LabelStmt"):
            return self.count(s.kids[-1], loops)
        if k in ("WhileStmt", "DoStmt"):
            self.ambiguous.append(s.line)
            return Poly.const(0)
        # expression statement
        e = s.strip()
        if e.k == "BinaryOperator" and e.op == "=" and e.kids[0].strip().k == "DeclRefExpr":
            c = self.const(e.kids[1])
            if c is not None:
                self.vars[e.kids[0].strip().refname] = c
            else:
                self.vars.pop(e.kids[0].strip().refname, None)
        return Poly.const(self.prints_in_expr(s))


def loader_fields(P, f, pv, fv, ports):
    """evaluate the loader's `fields` for one (parameter, format) symbolically"""
    # the for loop over the format vector: find the body that declares `fields`
    body = None
    for n in f.walk():
        if n.k == "VarDecl" and n.get("name") == "fields":
            # enclosing compound statement
            for a in n.ancestors():
                if a.k == "CompoundStmt":
                    body = a
                    break
            break
    if body is None:
        raise AnalysisBroken("NPD loader: declaration of 'fields' not found")
    sym = {"ports": ports}
    env = {}

    class LC(Counter):
        pass
    # symbolic execution of integer assignments only
    members = {"vfd_parameter": pv, "vfd_format": fv}
    vals = {}

    def run(s, st):
        if s is None or st.get("_flow"):
            return
        k = s.k
        if k == "CompoundStmt":
            for c in s.kids:
                run(c, st)
                if st.get("_flow"):
                    return
        elif k == "DeclStmt":
            for vd in s.kids:
                if vd.kids:
                    st[vd.get("name")] = ev(vd.kids[0], st)
        elif k == "SwitchStmt":
            cond = [x for x in s.kids[:-1] if x is not None][-1].strip()
            v = members.get(cond.member) if cond.k == "MemberExpr" else None
            if v is None:
                return
            stmts = s.kids[-1].kids
            entry = default = None
            for i, x in enumerate(stmts):
                t = x
                while t is not None and t.k in ("CaseStmt", "DefaultStmt"):
                    if t.k == "CaseStmt" and t.get("val") == v and entry is None:
                        entry = i
                    if t.k == "DefaultStmt":
                        default = i
                    t = t.kids[-1]
            if entry is None:
                entry = default
            if entry is None:
                return
            for x in stmts[entry:]:
                t = x
                while t is not None and t.k in ("CaseStmt", "DefaultStmt"):
                    t = t.kids[-1]
                run(t, st)
                if st.get("_flow") == "break":
                    st["_flow"] = None
                    return
                if st.get("_flow"):
                    return
        elif k == "BreakStmt":
            st["_flow"] = "break"
        elif k in ("GotoStmt", "ReturnStmt"):
            st["_flow"] = "reject"
        elif k == "IfStmt":
            kids = [x for x in s.kids if x is not None]
            c = kids[0].strip()
            # `if (ports != 2) reject` : record the constraint instead of rejecting
            st.setdefault("_conds", []).append(c.text())
            if any(m.k in ("GotoStmt",) for m in kids[1].walk()):
                return
            run(kids[1], st)
        else:
            e = s.strip()
            if e.k == "BinaryOperator" and e.op == "=" and e.kids[0].strip().k == "DeclRefExpr":
                st[e.kids[0].strip().refname] = ev(e.kids[1], st)

    def ev(e, st):
        e = e.strip()
        if e.cv is not None:
            return Poly.const(e.cv)
        if e.k == "DeclRefExpr":
            if e.refname in st and isinstance(st[e.refname], Poly):
                return st[e.refname]
            if e.refname in sym:
                return sym[e.refname]
            return Poly.sym(e.refname)
        if e.k == "BinaryOperator" and e.op in ("+", "-", "*"):
            a, b = ev(e.kids[0], st), ev(e.kids[1], st)
            return a + b if e.op == "+" else (a - b if e.op == "-" else a * b)
        return Poly.sym(e.text())
    st = {}
    # execute statements of the body up to the `n_fields += fields` accumulation
    for c in body.kids:
        if c.k == "CompoundAssignOperator" or (c.strip().k == "CompoundAssignOperator"):
            break
        run(c, st)
        if st.get("_flow") == "reject":
            return None
    return st.get("fields")


def _reachable_without(cfg, src, dst, avoid):
    """is dst reachable from src without passing through block `avoid`?"""
    seen = set()
    st = [src]
    while st:
        b = st.pop()
        if b == dst:
            return True
        if b in seen or b == avoid:
            continue
        seen.add(b)
        for s in cfg.blocks[b].succs:
            if s is not None:
                st.append(s)
    return False


def _register_helpers(P):
    Counter.HELPERS = {}
    Counter._HELPER_MEMO = {}
    for g in P.by_file.get(SAVE, []):
        if g.body is not None and g.static and g.name not in ("print_value", "vnadata_save_common") and g.ret == "void":
            if any(c.callee in ("print_value", "fprintf") for c in g.calls()):
                Counter.HELPERS[g.name] = g


def run(P, tier="quick"):
    _register_helpers(P)
    S = compute_fail_summaries(P)
    R22 = RuleResult("R22", "after the point where vnadata_cksave returns success, vnadata_save_common takes no failure edge "
                     "of a callee that can report VNAERR_USAGE: what cksave accepts, save does not refuse for its arguments", floor=5)
    R29 = RuleResult("R29", "for every (parameter type, format) the number of numeric fields the saver prints per data line equals "
                     "the loader's `fields` (polynomials in ports, derived symbolically from both sources)", floor=20)
    f = P.need_func("vnadata_save_common", SAVE)
    # ---- R22 -----------------------------------------------------------------
    usage = {}

    def usage_fail(g, depth=0):
        k = g.key()
        if k in usage:
            return usage[k]
        usage[k] = None
        s = S.get(k)
        r = None
        if s is not None:
            for (val, nrep, cats, failed, flags, node, trace) in s.returns:
                if val[0] != "fail":
                    continue
                if any(c.endswith(":VNAERR_USAGE") for c in cats):
                    r = "reports VNAERR_USAGE at line %d" % (node.line if node else 0)
                    break
                for c in cats:
                    if ":callee:" in c:
                        h = P.functions.get(c.split(":")[-1])
                        if h is not None and depth < 6:
                            u = usage_fail(h, depth + 1)
                            if u:
                                r = "%s -> %s" % (h.name, u)
                                break
                if r:
                    break
        usage[k] = r
        return r
    ck = None
    for b in f.cfg.blocks.values():
        if b.cond is not None and "vnadata_check_name" in b.cond.text() and len(b.succs) == 2:
            ck = b
    if ck is None:
        raise AnalysisBroken("vnadata_save_common: check-only return point (function == vnadata_check_name) not found")
    after = f.cfg.reachable_from(ck.succs[1]) | {ck.succs[1]}
    before = set()
    seen_calls = {}
    for c in f.calls():
        g = P.resolve_call(c, f)
        if g is None:
            continue
        pos = f.cfg.pos_of(c)
        if pos is None or pos[0] not in after:
            continue
        # calls that are also reachable before the check point (loop headers etc.) are still after it here
        gs = S.get(g.key())
        if gs is None or not gs.can_fail:
            continue
        # only failures the saver itself reacts to: the result is compared in a branch condition
        # (accessors called with loop indices in range are used for their value and cannot fail)
        pp = c.parent
        tested = False
        while pp is not None and pp.k in ("ParenExpr", "ImplicitCastExpr", "CStyleCastExpr", "BinaryOperator", "UnaryOperator"):
            if pp.k == "BinaryOperator" and pp.op in ("==", "!=") and pp.parent is not None and \
                    pp.parent.strip_parens().k in ("IfStmt",) or (pp.k == "BinaryOperator" and pp.op in ("==", "!=") and
                                                                 pp.parent is not None and pp.parent.k == "IfStmt"):
                tested = True
                break
            if pp.k == "BinaryOperator" and pp.op not in ("==", "!=", "="):
                break
            pp = pp.parent
        if not tested:
            continue
        seen_calls[c.callee] = seen_calls.get(c.callee, 0) + 1
        anchor = "after-cksave:%s#%d" % (c.callee, seen_calls[c.callee])
        u = usage_fail(g)
        if u:
            R22.violated(Finding("R22", PROPS, SAVE, f.name, anchor, "%s() is called after the cksave return point and can fail "
                                 "for argument reasons (%s): vnadata_cksave accepts what vnadata_save then refuses" % (c.callee, u), c.line))
        else:
            R22.ok("R22|%s|%s|%s" % (SAVE, f.name, anchor), set(PROPS))
    # direct argument refusals after the check-only return point
    from ..failflow import REPORTERS
    k = 0
    for c in f.calls():
        if c.callee in REPORTERS and len(c.args()) > REPORTERS[c.callee] and \
                c.args()[REPORTERS[c.callee]].strip().refname == "VNAERR_USAGE":
            pos = f.cfg.pos_of(c)
            if pos is not None and pos[0] in after and pos[0] not in (f.cfg.reachable_from(f.cfg.entry) - after - {ck.id}) and \
                    not _reachable_without(f.cfg, f.cfg.entry, pos[0], ck.succs[1]):
                k += 1
                R22.violated(Finding("R22", PROPS, SAVE, f.name, "after-cksave:usage-report#%d" % k,
                                     "a VNAERR_USAGE refusal at line %d can only be reached after the point where vnadata_cksave has "
                                     "already returned success: vnadata_cksave accepts what vnadata_save then refuses" % c.line, c.line))
    if k == 0:
        R22.ok("R22|%s|%s|no-usage-report-after-cksave" % (SAVE, f.name), set(PROPS))
    # ---- R29 -----------------------------------------------------------------
    fl = P.need_func("_vnadata_load_npd", LOAD)
    vpt = P.enums.get("vnadata_parameter_type", {})
    fmt = P.enums.get("vnadata_format", {})
    if not vpt or not fmt:
        raise AnalysisBroken("parameter/format enums missing")
    # the data-printing switch: the SwitchStmt on vfd_parameter that contains print_value calls
    psw = None
    for n in f.walk():
        if n.k == "SwitchStmt":
            cond = [x for x in n.kids[:-1] if x is not None][-1].strip()
            if cond.k == "MemberExpr" and cond.member == "vfd_parameter" and any(c.callee == "print_value" for c in n.calls()):
                psw = n
    if psw is None:
        raise AnalysisBroken("vnadata_save_common: data printing switch not found")
    # which (parameter, format) pairs does the saver accept?  -> those whose arm does not abort()
    ports = Poly.sym("ports")
    sym = {"ports": ports, "rows": ports, "columns": ports}
    # constant initialisers of flags declared in the blocks enclosing the switch (e.g. bool done = false)
    pre_vars = {}
    child = psw
    for a in psw.ancestors():
        if a.k == "CompoundStmt":
            for kid in a.kids:
                if kid is child or kid.is_ancestor_of(psw):
                    break
                if kid.k == "DeclStmt":
                    for vd in kid.kids:
                        if vd.kids and vd.kids[0].strip().cv is not None:
                            pre_vars[vd.get("name")] = vd.kids[0].strip().cv
        child = a
    npairs = 0
    for pname, pv in sorted(vpt.items(), key=lambda kv: kv[1]):
        if pname in ("VPT_UNDEF", "VPT_NTYPES"):
            continue
        for fname_, fv in sorted(fmt.items(), key=lambda kv: kv[1]):
            cnt = Counter({"vfd_parameter": pv, "vfd_format": fv}, sym)
            cnt.vars.update(pre_vars)
            sp = cnt.count(psw)
            if sp.is_zero() and not cnt.ambiguous:
                continue        # the saver prints nothing for this pair (arm aborts): not a combination it writes
            lf = loader_fields(P, fl, pv, fv, ports)
            key = "R29|%s/%s" % (pname, fname_)
            if cnt.ambiguous:
                R29.unclassified(key, "saver count depends on a condition at line %s" % cnt.ambiguous[:2], set(PROPS))
                continue
            if lf is None:
                # the loader rejects the pair although the saver can write it
                R29.violated(Finding("R29", PROPS, LOAD, "_vnadata_load_npd", "fields:%s/%s" % (pname, fname_),
                                     "the saver writes %s %s but the loader rejects this combination" % (pname, fname_), fl.line))
                continue
            npairs += 1
            # T/U/H/G/A/B are 2x2 only: evaluate at ports = 2 ; others as polynomials
            if pname in ("VPT_T", "VPT_U", "VPT_H", "VPT_G", "VPT_A", "VPT_B"):
                same = sp.subs({"ports": 2}) == lf.subs({"ports": 2})
            else:
                same = sp == lf
            if same:
                R29.ok(key, set(PROPS))
            else:
                R29.violated(Finding("R29", PROPS, SAVE, f.name, "fields:%s/%s" % (pname, fname_),
                                     "%s %s: the saver prints %s numeric fields per line, the NPD loader expects %s" %
                                     (pname, fname_, sp, lf), psw.line))
    R29.counts["pairs_compared"] = npairs
    R22.check_floor()
    R29.check_floor()
    return [R22, R29]



"""R30 TERM-FAMILIES and R26 (builder side) (C01): the equation terms generated for one cell of a standard are
exactly the expansion of the documented matrix equation, placed at the columns `_vnacal_layout` assigns.

What is compared
    reference  the expansion of   -Ts S V - Ti V + M Tx S V + M Tm V = 0     (T types, eq (r,c) of an R x P grid)
                                   V Um M + V Ui - V S Ux M - V S Us = 0     (U types)
               written directly from the matrix product definitions, with complete sub-matrices for T16/U16,
               diagonal ones for T8/TE10/U8/UE10 and the per-column system of UE14.  The position of each error
               term in the unknown vector is taken from the repository itself: the offsets stored by
               `_vnacal_layout` and the unity term given by `_vl_unity_offset` (the unity term moves to the
               right-hand side with the opposite sign, later terms shift down by one).
    code       the integer arguments (xindex, v_columns, negative, m, s, v) of every add_term call of the builder
               the dispatcher `_vnacal_new_build_equation_terms` selects for the type.

How   Only integer index expressions are evaluated (miniexec: loop counters, cell indices, base_coefficient
      bookkeeping); no floating point value exists in this analysis and no library code runs.  The S, M and
      connectivity look-ups are opaque predicates: "S cell z is the constant zero parameter", "ports i and j are
      not connected".  They are enumerated one at a time, and a term must be dropped exactly when its own S cell
      is the zero parameter or its own V cell joins unconnected ports.
      Index maps are polynomials of degree <= 2 in (R, C); agreement on every admissible shape with R, C <= 4
      (10 shapes per family, a unisolvent set for degree 3) therefore extends to all shapes.
Also  the union of the columns used by all equations is exactly [0, unknowns): no unknown is left without a
      coefficient and none lies outside x_vector;  e_vector assembly in `_vnacal_new_solve_internal` is the inverse
      of the unity removal (R26 X-TO-E).
"""
from ..core import Finding, RuleResult
from ..facts import AnalysisBroken
from ..miniexec import MiniExec, Frame, UNKNOWN, Stop

PROPS = ("C01",)
FILE = "vnacal_new_build_equation_terms.c"
SB, MB, NOZERO = 1000, 5000, 999

# type -> (family, complete sub-matrices?, per-column systems?)
FAMILY = {
    "VNACAL_T8": ("T", False, False), "VNACAL_TE10": ("T", False, False), "VNACAL_T16": ("T", True, False),
    "VNACAL_U8": ("U", False, False), "VNACAL_UE10": ("U", False, False), "VNACAL_U16": ("U", True, False),
    "VNACAL_UE14": ("U", False, True), "_VNACAL_E12_UE14": ("U", False, True),
}


def shapes(fam, limit):
    out = []
    for R in range(1, limit + 1):
        for C in range(1, limit + 1):
            if (fam == "T" and R <= C) or (fam == "U" and R >= C):
                out.append((R, C))
    return out


def reference(fam, full, percol, R, C, r, c, L, unity):
    """list of (eindex, negative, m, s, v) with eindex in the layout's error-term numbering of one system"""
    P = max(R, C)
    ti, tx, tm = L["vl_ti_offset"], L["vl_tx_offset"], L["vl_tm_offset"]
    T = []
    if fam == "T":
        def Ts(a, k): return (a * P + k) if full else (a if a == k else None)
        def Ti(a, k): return ti + ((a * P + k) if full else a) if (full or a == k) else None
        def Tx(a, k): return tx + ((a * P + k) if full else a) if (full or a == k) else None
        def Tm(a, k): return tm + ((a * P + k) if full else a) if (full or a == k) else None
        for k in range(P):
            for j in range(P):
                if Ts(r, k) is not None:
                    T.append((Ts(r, k), True, -1, k * P + j, j * P + c))
        for k in range(P):
            if Ti(r, k) is not None:
                T.append((Ti(r, k), True, -1, -1, k * P + c))
        for a in range(C):
            for k in range(P):
                for j in range(P):
                    if Tx(a, k) is not None:
                        T.append((Tx(a, k), False, r * C + a, k * P + j, j * P + c))
        for a in range(C):
            for k in range(P):
                if Tm(a, k) is not None:
                    T.append((Tm(a, k), False, r * C + a, -1, k * P + c))
    else:
        ui, ux, us = ti, tx, tm
        if percol:
            def Um(d, e): return d if d == e else None
            def Ui(d, cc): return ui if d == cc else None
            def Ux(d, e): return ux + d if d == e else None
            def Us(d, cc): return us if d == cc else None
        else:
            def Um(d, e): return (d * R + e) if full else (d if d == e else None)
            def Ui(d, cc): return ui + ((d * C + cc) if full else cc) if (full or d == cc) else None
            def Ux(d, e): return ux + ((d * R + e) if full else d) if (full or d == e) else None
            def Us(d, cc): return us + ((d * C + cc) if full else cc) if (full or d == cc) else None
        for d in range(P):
            for e in range(R):
                if Um(d, e) is not None:
                    T.append((Um(d, e), False, e * C + c, -1, r * P + d))
        for d in range(P):
            if Ui(d, c) is not None:
                T.append((Ui(d, c), False, -1, -1, r * P + d))
        for j in range(P):
            for d in range(P):
                for e in range(R):
                    if Ux(d, e) is not None:
                        T.append((Ux(d, e), True, e * C + c, j * P + d, r * P + j))
        for j in range(P):
            for d in range(P):
                if Us(d, c) is not None:
                    T.append((Us(d, c), True, -1, j * P + d, r * P + j))
    out = []
    for (e, neg, m, s, v) in T:
        if e == unity:
            out.append((-1, not neg, m, s, v))
        else:
            out.append((e - (1 if e > unity else 0), neg, m, s, v))
    return out


class Runner:
    def __init__(self, P):
        self.P = P
        self.nruns = 0

    def layout(self, tname, R, C):
        f = self.P.need_func("_vnacal_layout", "vnacal_layout.c")
        L = {}

        def on_store(l, v, fr, ex):
            if l.k == "MemberExpr":
                L[l.member] = v
        prog = self.P

        def on_call(call, fr, ex):
            # member stores made by a static helper of vnacal_layout.c (e.g. an extracted set_offsets())
            g = prog.resolve_call(call, f)
            if g is not None and g.body is not None and g.file == f.file and g.key() != f.key():
                return ex.call_function(g, [ex.val(a, fr) for a in call.args()], fr)
            return None
        ex = MiniExec(on_store=on_store, on_call=on_call)
        if len(f.params) != 4:
            raise AnalysisBroken("_vnacal_layout: expected (layout, type, rows, columns) parameters")
        fr = Frame({f.params[1]["name"]: self.P.enum_consts[tname][1], f.params[2]["name"]: R, f.params[3]["name"]: C}, {})
        try:
            frames = ex.exec(f.body, [fr])
        except Stop as e:
            raise AnalysisBroken("_vnacal_layout: " + str(e))
        if len(frames) != 1 or frames[0].ambiguous:
            raise AnalysisBroken("_vnacal_layout(%s,%d,%d) does not evaluate to one integer layout" % (tname, R, C))
        for k in ("vl_ti_offset", "vl_tx_offset", "vl_tm_offset", "vl_t_terms", "vl_el_offset", "vl_el_terms", "vl_error_terms"):
            if L.get(k, UNKNOWN) is UNKNOWN:
                raise AnalysisBroken("_vnacal_layout(%s,%d,%d): member %s not an integer" % (tname, R, C, k))
        return L

    def unity(self, tname, system):
        f = self.P.need_func("_vl_unity_offset")
        ex = MiniExec()
        fr = Frame({f.params[1]["name"]: system}, dict(self._members))
        frames = ex.exec(f.body, [fr])
        rets = {x.retval for x in frames}
        if len(rets) != 1 or UNKNOWN in rets:
            raise AnalysisBroken("_vl_unity_offset(%s) not an integer" % tname)
        return rets.pop()

    def build(self, tname, R, C, r, c, L, zero_cell=None, disconnected=None):
        """run the dispatcher for one equation; returns (terms, problems)"""
        P_ = max(R, C)
        members = dict(L)
        members.update({"vl_type": self.P.enum_consts[tname][1], "vl_m_rows": R, "vl_m_columns": C, "vne_row": r, "vne_column": c,
                        "vn_zero": SB + zero_cell if zero_cell is not None else NOZERO})
        self._members = members
        terms, problems = [], []
        prog = self.P

        def on_load(e, fr, ex):
            if e.k != "ArraySubscriptExpr":
                return None
            b = e.kids[0].strip()
            if b.k != "MemberExpr":
                return None
            i = ex.val(e.kids[1], fr)
            if i is UNKNOWN:
                problems.append("index of %s not an integer at line %d" % (b.member, e.line))
                return None
            if b.member == "vnm_s_matrix":
                if not (0 <= i < P_ * P_):
                    problems.append("vnm_s_matrix[%d] outside the %dx%d S matrix (line %d)" % (i, P_, P_, e.line))
                return SB + i
            if b.member == "vnm_m_matrix":
                if not (0 <= i < R * C):
                    problems.append("vnm_m_matrix[%d] outside the %dx%d M matrix (line %d)" % (i, R, C, e.line))
                return MB + i
            if b.member == "vnm_connectivity_matrix":
                if not (0 <= i < P_ * P_):
                    problems.append("vnm_connectivity_matrix[%d] outside %dx%d (line %d)" % (i, P_, P_, e.line))
                    return 1
                if disconnected is not None and (i // P_, i % P_) in disconnected:
                    return 0
                return 1
            return None

        def on_call(call, fr, ex):
            nm = call.callee
            if nm == "add_term":
                a = call.args()
                vals = [ex.val(x, fr) for x in a[2:8]]
                if any(v is UNKNOWN for v in vals):
                    problems.append("add_term argument not an integer at line %d" % call.line)
                else:
                    fr.events.append(("term", tuple(int(v) for v in vals), call.line))
                return 0
            if nm in ("__assert_fail", "abort"):
                fr.events.append(("abort", nm, call.line))
                return 0
            g = prog.resolve_call(call, self._cur)
            if g is not None and g.body is not None and g.file == FILE:
                vals = [ex.val(x, fr) for x in call.args()]
                old = self._cur
                self._cur = g
                try:
                    return ex.call_function(g, vals, fr)
                finally:
                    self._cur = old
            return None
        disp = self.P.need_func("_vnacal_new_build_equation_terms", FILE)
        self._cur = disp
        ex = MiniExec(on_call=on_call, on_load=on_load)
        fr = Frame({}, members)
        try:
            frames = ex.exec(disp.body, [fr])
        except Stop as e:
            raise AnalysisBroken("builder for %s: %s" % (tname, e))
        self.nruns += 1
        if len(frames) != 1 or frames[0].ambiguous:
            lines = sorted({l for f_ in frames for l in f_.ambiguous})
            raise AnalysisBroken("builder for %s %dx%d eq(%d,%d): control depends on something that is not an index, a zero test or "
                                 "a connectivity test (lines %s)" % (tname, R, C, r, c, lines))
        evs = frames[0].events
        for ev in evs:
            if ev[0] == "abort":
                problems.append("reaches %s at line %d" % (ev[1], ev[2]))
        return [ev for ev in evs if ev[0] == "term"], problems


def fmt(t):
    x, neg, m, s, v = t
    return "%s[x=%s m=%s s=%s v=%s]" % ("-" if neg else "+", "rhs" if x == -1 else x, m if m >= 0 else ".", s if s >= 0 else ".",
                                        v if v >= 0 else ".")


def run(P, tier="quick"):
    R_ = RuleResult("R30", "add_term arguments of every builder = expansion of the documented M/S matrix equation at the columns "
                    "given by _vnacal_layout/_vl_unity_offset, for every shape with rows, columns <= 4; terms dropped exactly for "
                    "their own zero S cell / unconnected V cell; every unknown used; e_vector assembly inverts the unity removal",
                    floor=16)
    run_ = Runner(P)
    big = 4 if tier == "quick" else 5
    small = 3 if tier == "quick" else 4
    sites_seen = set()
    for tname, (fam, full, percol) in FAMILY.items():
        if tname not in P.enum_consts:
            raise AnalysisBroken("enumerator %s not found" % tname)
        key = "R30|%s|%s|terms" % (FILE, tname)
        bad = None
        for (R, C) in shapes(fam, big):
            Pn = max(R, C)
            L = run_.layout(tname, R, C)
            eqs = [(r, c) for r in range(R if fam == "T" else Pn) for c in range(Pn if fam == "T" else C)]
            used = {}
            for (r, c) in eqs:
                # members are needed by unity()
                terms, problems = run_.build(tname, R, C, r, c, L)
                system = c if percol else 0
                unity = run_.unity(tname, system)
                ref = reference(fam, full, percol, R, C, r, c, L, unity)
                got = [(t[1][0], bool(t[1][2]), t[1][3], t[1][4], t[1][5]) for t in terms]
                for t in terms:
                    sites_seen.add(t[2])
                    if t[1][1] != Pn and bad is None:
                        bad = ("%s %dx%d eq(%d,%d): add_term at line %d passes v_columns=%d, the V matrix has %d columns "
                               "(the no-V thread selects v %% (v_columns+1) == 0)" % (tname, R, C, r, c, t[2], t[1][1], Pn), t[2])
                if problems and bad is None:
                    bad = ("%s %dx%d eq(%d,%d): %s" % (tname, R, C, r, c, problems[0]), 0)
                if sorted(got) != sorted(ref) and bad is None:
                    extra = sorted(set(got) - set(ref))
                    missing = sorted(set(ref) - set(got))
                    line = 0
                    for t in terms:
                        tt = (t[1][0], bool(t[1][2]), t[1][3], t[1][4], t[1][5])
                        if tt in extra:
                            line = t[2]
                            break
                    bad = ("%s %dx%d equation (%d,%d): generated terms differ from the expansion of the matrix equation: "
                           "generated but not in the equation %s; in the equation but not generated %s%s" %
                           (tname, R, C, r, c, " ".join(fmt(t) for t in extra[:4]) or "-", " ".join(fmt(t) for t in missing[:4]) or "-",
                            "" if (extra or missing) else " (multiplicity differs)"), line)
                for t in got:
                    if t[0] >= 0:
                        used.setdefault(system, set()).add(t[0])
                # guard variants on the smaller shapes
                if bad is None and Pn <= small:
                    variants = [("zero", z) for z in range(Pn * Pn)]
                    if not full:
                        variants += [("disc", (i, j)) for i in range(Pn) for j in range(i + 1, Pn) if (r, c) not in ((i, j), (j, i))]
                    for kind, arg in variants:
                        if kind == "zero":
                            terms2, problems2 = run_.build(tname, R, C, r, c, L, zero_cell=arg)
                            want = [t for t in ref if t[3] != arg]
                            what = "S cell %d is the zero parameter" % arg
                        else:
                            disc = {arg, (arg[1], arg[0])}
                            terms2, problems2 = run_.build(tname, R, C, r, c, L, disconnected=disc)
                            want = [t for t in ref if (t[4] // Pn, t[4] % Pn) not in disc]
                            what = "ports %d and %d are not connected through the standard" % (arg[0] + 1, arg[1] + 1)
                        got2 = [(t[1][0], bool(t[1][2]), t[1][3], t[1][4], t[1][5]) for t in terms2]
                        if problems2:
                            bad = ("%s %dx%d eq(%d,%d) when %s: %s" % (tname, R, C, r, c, what, problems2[0]), 0)
                            break
                        if sorted(got2) != sorted(want):
                            extra = sorted(set(got2) - set(want))
                            missing = sorted(set(want) - set(got2))
                            line = 0
                            for t in terms2:
                                if (t[1][0], bool(t[1][2]), t[1][3], t[1][4], t[1][5]) in extra:
                                    line = t[2]
                            bad = ("%s %dx%d equation (%d,%d) when %s: a term must be dropped exactly when its own S cell is zero "
                                   "or its own V cell is unconnected; wrongly kept %s; wrongly dropped %s" %
                                   (tname, R, C, r, c, what, " ".join(fmt(t) for t in extra[:4]) or "-",
                                    " ".join(fmt(t) for t in missing[:4]) or "-"), line)
                            break
                if bad is not None:
                    break
            if bad is None:
                unknowns = L["vl_t_terms"] - 1
                for system, xs in used.items():
                    if xs != set(range(unknowns)):
                        bad = ("%s %dx%d: the equations of system %d use columns %s of the coefficient matrix, the layout has "
                               "%d unknowns per system" % (tname, R, C, system, sorted(xs ^ set(range(unknowns)))[:6], unknowns), 0)
                        break
            if bad is not None:
                break
        if bad is None:
            R_.ok(key, PROPS)
        else:
            R_.violated(Finding("R30", PROPS, FILE, "_vnacal_new_build_equation_terms", "terms:" + tname, bad[0], bad[1]))
    R_.counts["builder_runs"] = run_.nruns
    R_.counts["add_term_sites_reached"] = len(sites_seen)
    nsites = len([c for f in P.lib_functions() if f.file == FILE and f.body is not None for c in f.calls("add_term")])
    R_.counts["add_term_sites"] = nsites
    # 25 call sites today; merging the unity / non-unity pair of a family into one call is a legitimate refactoring
    # (20 families remain).  The real guard is below: every site must be reached and every equation must match.
    if nsites < 18:
        raise AnalysisBroken("R30: only %d add_term call sites in %s (25 today, at least 18 expected)" % (nsites, FILE))
    if len(sites_seen) < nsites and not R_.findings:
        R_.violated(Finding("R30", PROPS, FILE, "_vnacal_new_build_equation_terms", "unreached-sites",
                            "%d of %d add_term call sites are never reached for any type and shape <= 4" % (nsites - len(sites_seen), nsites), 0))
    x_to_e(P, R_, run_)
    R_.check_floor()
    return R_


def x_to_e(P, R_, run_):
    """the loop that copies x_vector to e_vector, inserting the unity term, is the inverse of the builders' numbering"""
    SF = "vnacal_new_solve.c"
    f = P.need_func("_vnacal_new_solve_internal", SF)
    loop = None
    for n in f.walk():
        if n.k == "ForStmt" and any(c.callee == "_vl_unity_offset" for c in n.calls()):
            loop = n
    if loop is None:
        raise AnalysisBroken("_vnacal_new_solve_internal: loop inserting the unity term not found")
    XB = 100000
    # the arrays and the running index are found by their role, not by name: destination = the array the loop stores
    # into, index = the variable post-incremented in those subscripts, source = the array read on the right-hand sides
    dest = src = idxvar = None
    for n in loop.walk():
        if n.k == "BinaryOperator" and n.op == "=" and n.kids[0].strip().k == "ArraySubscriptExpr":
            l = n.kids[0].strip()
            i_ = l.kids[1].strip()
            if i_.k == "UnaryOperator" and i_.op == "++" and l.kids[0].strip().k == "DeclRefExpr":
                dest = l.kids[0].strip().refdecl
                idxvar = i_.kids[0].strip()
                r_ = n.kids[1].strip()
                if r_.k == "ArraySubscriptExpr" and r_.kids[0].strip().k == "DeclRefExpr":
                    src = r_.kids[0].strip().refdecl
    if dest is None or src is None or idxvar is None:
        raise AnalysisBroken("_vnacal_new_solve_internal: stores `e[index++] = x[...]` not found in the unity-insertion loop")
    idx0 = None
    for v in f.vardecls():
        if v.get("decl") == idxvar.refdecl and v.kids:
            idx0 = v.kids[0].strip().cv
    if idx0 is None:
        # assigned (not initialised) before the loop: take the last constant assignment in front of it
        for m in f.walk():
            if m.k == "BinaryOperator" and m.op == "=" and m.kids[0].strip().k == "DeclRefExpr" and \
                    m.kids[0].strip().refdecl == idxvar.refdecl and m.line <= loop.line and not loop.is_ancestor_of(m):
                idx0 = m.kids[1].strip().cv
    if idx0 is None:
        raise AnalysisBroken("_vnacal_new_solve_internal: initial value of the error-term index not found")
    # E-EXTENT: the destination array holds the error terms of the *input* layout while it is filled (all systems plus
    # the outside leakage terms) and those of the *output* layout after the E12 conversion: its declared extent must
    # cover both for every type and shape
    dvd = [v for v in f.vardecls() if v.get("decl") == dest]
    dim = (dvd[0].d.get("_dims") or [None])[0] if dvd else None
    if dim is None or not hasattr(dim, "k") or dim.k == "ConstSize":
        raise AnalysisBroken("_vnacal_new_solve_internal: declaration of the error-term array not found")
    in_locals, out_locals = set(), set()
    from ..canon import Canon as _Canon
    cnf = _Canon(f)
    for v in f.vardecls():
        if v.kids and (v.ctype or "").replace("const ", "") == "int":
            pth = cnf.path(v.kids[0])
            if "vl_error_terms" in pth or any(x.k == "DeclRefExpr" and x.refdecl in in_locals for x in v.kids[0].walk()):
                (in_locals if cnf.single_def(v.get("decl")) is not None else out_locals).add(v.get("decl"))

    def _evdim(e, E_in, E_out):
        e = e.strip()
        if e.k == "IntegerLiteral":
            return e.val
        if e.k == "DeclRefExpr":
            if e.refdecl in in_locals:
                return E_in
            if e.refdecl in out_locals:
                return E_out
            raise AnalysisBroken("extent of the error-term array depends on '%s'" % e.refname)
        if e.k == "BinaryOperator":
            a, b = _evdim(e.kids[0], E_in, E_out), _evdim(e.kids[1], E_in, E_out)
            return {"+": a + b, "-": a - b, "*": a * b, ">=": int(a >= b), ">": int(a > b), "<": int(a < b), "<=": int(a <= b)}[e.op]
        if e.k == "ConditionalOperator":
            return _evdim(e.kids[1], E_in, E_out) if _evdim(e.kids[0], E_in, E_out) else _evdim(e.kids[2], E_in, E_out)
        raise AnalysisBroken("extent of the error-term array is not an integer expression of the error-term counts")
    bad_ext = None
    for tname, (fam, full, percol) in FAMILY.items():
        for (R, C) in shapes(fam, 3):
            E_in = run_.layout(tname, R, C)["vl_error_terms"]
            E_out = run_.layout("VNACAL_E12", R, C)["vl_error_terms"] if tname == "_VNACAL_E12_UE14" else E_in
            ext = _evdim(dim, E_in, E_out)
            if ext < max(E_in, E_out) and bad_ext is None:
                bad_ext = "%s %dx%d: the array is declared with %d elements (%s) but is filled with the %d terms of the solved " \
                          "layout%s" % (tname, R, C, ext, dim.text()[:50], E_in,
                                        " and holds %d terms after the E12 conversion" % E_out if E_out != E_in else "")
    kx = "R30|%s|_vnacal_new_solve_internal|e-extent" % SF
    if bad_ext is None:
        R_.ok(kx, set(PROPS) | {"C03"})
    else:
        R_.violated(Finding("R30", set(PROPS) | {"C03"}, SF, "_vnacal_new_solve_internal", "e-extent", bad_ext, dvd[0].line))
    for tname, (fam, full, percol) in FAMILY.items():
        key = "R30|%s|_vnacal_new_solve_internal|x-to-e:%s" % (SF, tname)
        bad = None
        for (R, C) in shapes(fam, 3):
            L = run_.layout(tname, R, C)
            systems = C if percol else 1
            members = dict(L)
            members.update({"vl_type": P.enum_consts[tname][1], "vl_m_rows": R, "vl_m_columns": C, "vn_systems": systems})
            stores = {}
            problems = []
            unity_fn = P.need_func("_vl_unity_offset")

            def on_load(e, fr, ex):
                if e.k == "ArraySubscriptExpr" and e.kids[0].strip().k == "DeclRefExpr" and e.kids[0].strip().refdecl == src:
                    i = ex.val(e.kids[1], fr)
                    return XB + i if i is not UNKNOWN else None
                return None

            def on_call(call, fr, ex):
                if call.callee == "_vl_unity_offset":
                    vals = [ex.val(x, fr) for x in call.args()]
                    return ex.call_function(unity_fn, vals, fr)
                return None

            def on_store(l, v, fr, ex):
                if l.k == "ArraySubscriptExpr" and l.kids[0].strip().k == "DeclRefExpr" and l.kids[0].strip().refdecl == dest:
                    i = ex.val(l.kids[1], fr)
                    if i is UNKNOWN:
                        problems.append("e_vector index not an integer at line %d" % l.line)
                        return
                    if v is UNKNOWN:
                        rhs = fr.rhs.strip() if fr.rhs is not None else None
                        v = "one" if rhs is not None and rhs.k == "FloatingLiteral" and rhs.val == 1.0 else "?"
                    stores[i] = v
            ex = MiniExec(on_call=on_call, on_load=on_load, on_store=on_store)
            fr = Frame({idxvar.refname: idx0}, members)
            frames = ex.exec(loop, [fr])
            if len(frames) != 1 or frames[0].ambiguous or problems:
                raise AnalysisBroken("x-to-e loop does not evaluate for %s %dx%d: %s" % (tname, R, C, problems or frames[0].ambiguous))
            per = L["vl_t_terms"]
            for s in range(systems):
                members["vl_type"] = P.enum_consts[tname][1]
                run_._members = members
                unity = run_.unity(tname, s)
                for e in range(per):
                    want = "one" if e == unity else XB + s * (per - 1) + e - (1 if e > unity else 0)
                    got = stores.get(s * per + e)
                    if got != want and bad is None:
                        def nm(v):
                            return "1.0" if v == "one" else ("nothing" if v is None else ("x_vector[%d]" % (v - XB) if isinstance(v, int) else str(v)))
                        bad = "%s %dx%d: e_vector[%d] (system %d, term %d) receives %s; the builders number that term as %s" % (
                            tname, R, C, s * per + e, s, e, nm(got), nm(want))
            if len(stores) != systems * per and bad is None:
                bad = "%s %dx%d: %d error terms stored, %d systems x %d terms expected" % (tname, R, C, len(stores), systems, per)
            if bad:
                break
        if bad is None:
            R_.ok(key, PROPS)
        else:
            R_.violated(Finding("R30", PROPS, SF, "_vnacal_new_solve_internal", "x-to-e:" + tname, bad, loop.line))

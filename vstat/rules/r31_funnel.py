"""R31 FUNNEL and ROWCOL-SAME-MAP (C17): equivalent ways of entering a standard reach the common routine alike.

FUNNEL   every vnacal_new_add_* entry point fills a vnacal_new_add_arguments_t and passes it
         to _vnacal_new_add_common.  The a/b form and the m form of the same standard must
         fill every field identically except the measurement fields (a-matrix fields and
         m_type; the b-matrix fields take the m arguments).  vnacal_new_add_through[_m]
         must be vnacal_new_add_line[_m] with the literal S matrix {{ZERO, ONE},{ONE, ZERO}}:
         same flags, same dimensions, port map {port1, port2}.
ROWCOL   inside _vnacal_new_add_common, wherever the row and the column of a cell are mapped
         through a port map by two sibling look-ups of the same shape, both look-ups must
         use the same map (the sorted map for M cells, the caller's map for S cells).
"""
from ..core import Finding, RuleResult
from ..facts import AnalysisBroken
from ..canon import Canon

FILE = "vnacal_new_add_common.c"
PROPS = {"C17", "C01"}
PAIRS = [("vnacal_new_add_single_reflect", "vnacal_new_add_single_reflect_m"),
         ("vnacal_new_add_double_reflect", "vnacal_new_add_double_reflect_m"),
         ("vnacal_new_add_line", "vnacal_new_add_line_m"),
         ("vnacal_new_add_through", "vnacal_new_add_through_m"),
         ("vnacal_new_add_mapped_matrix", "vnacal_new_add_mapped_matrix_m")]
MEAS_FIELDS = ("vnaa_function", "vnaa_a_matrix", "vnaa_a_rows", "vnaa_a_columns", "vnaa_b_matrix", "vnaa_b_rows",
               "vnaa_b_columns", "vnaa_m_type")


def fields_of(f):
    """field -> textual value (parameter and local names kept: the two forms use the same names for the S side)"""
    out = {}
    for n in f.walk():
        if n.k == "BinaryOperator" and n.op == "=":
            l = n.kids[0].strip()
            if l.k == "MemberExpr" and not l.get("arrow") and l.kids[0].strip().k == "DeclRefExpr" and \
                    l.kids[0].strip().ctype.startswith("vnacal_new_add_arguments_t") or \
                    (l.k == "MemberExpr" and (l.member or "").startswith("vnaa_")):
                r = n.kids[1].strip()
                out[l.member] = (r.text(), r)
    return out


def local_inits(f):
    out = {}
    for v in f.vardecls():
        if v.kids:
            out[v.get("name")] = v.kids[0]
    return out


def run(P, tier="quick"):
    R = RuleResult("R31", "a/b and m forms of each vnacal_new_add_* fill the common argument structure identically apart from "
                   "the measurement fields; through = line with the literal through matrix; paired row/column look-ups "
                   "use the same port map", floor=12)
    flds = {}
    for a, m in PAIRS:
        fa, fm = P.need_func(a, FILE), P.need_func(m, FILE)
        A, M = fields_of(fa), fields_of(fm)
        flds[a], flds[m] = A, M
        for nm, F, fn in ((a, A, fa), (m, M, fm)):
            # funnel: returns the common routine's result
            rets = [r for r in fn.returns() if r.kids and r.kids[0].strip().k == "CallExpr"]
            if len(rets) == 1 and rets[0].kids[0].strip().callee == "_vnacal_new_add_common":
                R.ok("R31|%s|%s|funnels" % (FILE, nm), PROPS)
            else:
                R.violated(Finding("R31", PROPS, FILE, nm, "funnels", "%s does not end in `return _vnacal_new_add_common(...)`" % nm, fn.line))
        # m_type
        ta = A.get("vnaa_m_type", ("?", None))[1]
        tm = M.get("vnaa_m_type", ("?", None))[1]
        if ta is not None and tm is not None and ta.cv == ord("a") and tm.cv == ord("m"):
            R.ok("R31|%s|%s|m_type" % (FILE, a), PROPS)
        else:
            R.violated(Finding("R31", PROPS, FILE, a, "m_type", "m_type must be 'a' in %s and 'm' in %s" % (a, m), fa.line))
        # the m form has no a matrix
        if "vnaa_a_matrix" in M and not (M["vnaa_a_matrix"][1].cv == 0 or "0" in M["vnaa_a_matrix"][0]):
            R.violated(Finding("R31", PROPS, FILE, m, "a_matrix", "%s passes an a matrix (%s)" % (m, M["vnaa_a_matrix"][0]), fm.line))
        shared = sorted((set(A) | set(M)) - set(MEAS_FIELDS))
        li_a, li_m = local_inits(fa), local_inits(fm)
        for fld in shared:
            va, vm = A.get(fld), M.get(fld)
            key = "R31|%s|%s|%s" % (FILE, a, fld)
            ta_, tm_ = (va[0] if va else "<unset: 0>"), (vm[0] if vm else "<unset: 0>")
            same = ta_ == tm_
            if same and va is not None and va[1].k == "DeclRefExpr" and va[1].refkind == "local":
                # local tables (port_map, s_2x2) must be initialised identically in both forms
                ia, im = li_a.get(va[1].refname), li_m.get(vm[1].refname)
                same = (ia.text() if ia is not None else None) == (im.text() if im is not None else None)
                if not same:
                    ta_, tm_ = (ia.text() if ia is not None else "?"), (im.text() if im is not None else "?")
            if same:
                R.ok(key, PROPS)
            else:
                R.violated(Finding("R31", PROPS, FILE, a, "field:" + fld, "%s sets %s = %s but %s sets it to %s: the a/b and m forms "
                                   "describe the same standard differently" % (a, fld, ta_, m, tm_), fa.line))
    # through == line with the literal through matrix
    for th, ln in (("vnacal_new_add_through", "vnacal_new_add_line"), ("vnacal_new_add_through_m", "vnacal_new_add_line_m")):
        T, L = flds[th], flds[ln]
        ft = P.need_func(th, FILE)
        fl = P.need_func(ln, FILE)
        li_t, li_l = local_inits(ft), local_inits(fl)
        bad = []
        for fld in ("vnaa_s_rows", "vnaa_s_columns", "vnaa_m_is_diagonal", "vnaa_s_is_diagonal", "vnaa_m_type"):
            if (T.get(fld) or ("",))[0] != (L.get(fld) or ("",))[0]:
                bad.append("%s: through %s, line %s" % (fld, (T.get(fld) or ("unset",))[0], (L.get(fld) or ("unset",))[0]))
        # port map {port1, port2}
        pm = T.get("vnaa_s_port_map")
        pml = L.get("vnaa_s_port_map")
        it = li_t.get(pm[1].refname) if pm and pm[1].k == "DeclRefExpr" else None
        il = li_l.get(pml[1].refname) if pml and pml[1].k == "DeclRefExpr" else None
        if it is None or il is None or it.text() != il.text():
            bad.append("port map: through %s, line %s" % (it.text() if it is not None else "?", il.text() if il is not None else "?"))
        # S matrix literal
        sm = T.get("vnaa_s_matrix")
        lit = None
        if sm is not None:
            for m_ in sm[1].walk():
                if m_.k == "DeclRefExpr" and m_.refkind == "local" and m_.refname in li_t:
                    lit = li_t[m_.refname]
        vals = [x.strip().refname or str(x.strip().cv) for row in (lit.kids if lit is not None else []) for x in (row.kids if row.k == "InitListExpr" else [row])]
        if vals != ["VNACAL_ZERO", "VNACAL_ONE", "VNACAL_ONE", "VNACAL_ZERO"]:
            zero = P.enum_consts.get("VNACAL_ZERO")
            cvs = [x.strip().cv for row in (lit.kids if lit is not None else []) for x in (row.kids if row.k == "InitListExpr" else [row])]
            # constants may be macros rather than enumerators: compare by macro names
            names = [" ".join(x.macros) for row in (lit.kids if lit is not None else []) for x in (row.kids if row.k == "InitListExpr" else [row])]
            if [n for n in names] != ["VNACAL_ZERO", "VNACAL_ONE", "VNACAL_ONE", "VNACAL_ZERO"]:
                bad.append("S matrix is %s, expected {{VNACAL_ZERO, VNACAL_ONE}, {VNACAL_ONE, VNACAL_ZERO}}" % (names or vals))
        if bad:
            R.violated(Finding("R31", PROPS, FILE, th, "through-is-line", "%s differs from %s with the through matrix: %s" %
                               (th, ln, "; ".join(bad)), ft.line))
        else:
            R.ok("R31|%s|%s|through-is-line" % (FILE, th), PROPS)
    # ROWCOL-SAME-MAP
    fc = P.need_func("_vnacal_new_add_common", FILE)
    # port maps by role, not by name: the caller's map is a local whose single definition is the vnaa_s_port_map member of
    # the argument structure; its copies are local arrays filled from it by memcpy (the sorted copy is one of them)
    _cn0 = Canon(fc)
    port_maps = set()
    for v_ in fc.vardecls():
        if v_.kids and "vnaa_s_port_map" in _cn0.path(v_.kids[0]):
            port_maps.add(v_.get("decl"))
    for c_ in fc.calls("memcpy"):
        a_ = c_.args()
        if len(a_) >= 2:
            srcs = [m for m in a_[1].walk() if m.k == "DeclRefExpr" and m.refdecl in port_maps]
            dsts = [m for m in a_[0].walk() if m.k == "DeclRefExpr" and m.refkind == "local"]
            if srcs and dsts:
                port_maps.add(dsts[0].refdecl)
    if not port_maps:
        raise AnalysisBroken("_vnacal_new_add_common: the caller's port map (vnaa_s_port_map) is not read into a local")

    def is_map(node):
        node = node.strip()
        return node.k == "DeclRefExpr" and node.refdecl in port_maps
    groups = {}
    for v in fc.vardecls():
        if not v.kids:
            continue
        e = v.kids[0].strip()
        if e.k == "BinaryOperator" and e.op == "-" and e.kids[0].strip().k == "ArraySubscriptExpr" and \
                is_map(e.kids[0].strip().kids[0]):
            sub = e.kids[0].strip()
            outer = None
            for a_ in v.ancestors():
                if a_.k == "ForStmt":
                    outer = a_
            groups.setdefault(id(outer), []).append((v, sub.kids[0].strip().refname, sub.kids[1].strip().refname, e))
        if e.k == "ConditionalOperator":
            th = e.kids[1].strip()
            # MAP[idx] - 1
            if th.k == "BinaryOperator" and th.op == "-" and th.kids[0].strip().k == "ArraySubscriptExpr":
                sub = th.kids[0].strip()
                mp = sub.kids[0].strip().refname
                idx = sub.kids[1].strip().refname
                outer = None
                for a_ in v.ancestors():
                    if a_.k == "ForStmt":
                        outer = a_
                groups.setdefault(id(outer), []).append((v, mp, idx, e))
    nrc = 0
    for gid, items in groups.items():
        if len(items) < 2:
            continue
        # siblings in the same block: row and column (or several) must use one map
        maps = {mp for (_, mp, _, _) in items}
        names = ", ".join(v.get("name") for (v, _, _, _) in items)
        nrc += 1
        key = "R31|%s|_vnacal_new_add_common|rowcol-map:%s" % (FILE, names)
        # the condition of each ternary must test the same map it indexes
        cond_maps = set()
        for (v, mp, idx, e) in items:
            for m_ in e.kids[0].walk():
                if m_.k == "DeclRefExpr" and m_.refname and m_.refdecl in port_maps:
                    cond_maps.add(m_.refname)
        if len(maps) == 1:
            R.ok(key, PROPS)
        else:
            v0 = items[0][0]
            R.violated(Finding("R31", PROPS, FILE, "_vnacal_new_add_common", "rowcol-map:" + names,
                               "the sibling index look-ups %s use different port maps (%s): rows and columns of the same cell are "
                               "mapped inconsistently when the port map is not in ascending order" %
                               (names, ", ".join(sorted(maps))), v0.line))
    # SORTED-MAP: the rows/columns of an abbreviated *measurement* matrix are in VNA port order whatever the order of the
    # caller's port map (vnacal_new(3)); their look-ups (condition compares a vnaa_b_* dimension) must therefore go
    # through a local array that the function sorts (qsort, or element swaps inside a loop), never through the caller's map
    cn = Canon(fc)
    sorted_arrays = set()
    for c_ in fc.calls("qsort"):
        a0 = c_.args()[0] if c_.args() else None
        if a0 is not None:
            for m_ in a0.walk():
                if m_.k == "DeclRefExpr" and m_.refkind == "local":
                    sorted_arrays.add(m_.refdecl)
    local_arrays = {v.get("decl") for v in fc.vardecls() if v.d.get("_dims")}
    nsm = 0
    for gid, items in groups.items():
        for (v, mp, idx, e) in items:
            if e.k != "ConditionalOperator" or "vnaa_b_" not in cn.path(e.kids[0]):
                continue
            nsm += 1
            refs = [m_ for m_ in e.walk() if m_.k == "DeclRefExpr" and m_.refname == mp]
            decl = refs[0].refdecl if refs else None
            key = "R31|%s|_vnacal_new_add_common|sorted-map:%s" % (FILE, v.get("name"))
            if decl in local_arrays and decl in sorted_arrays:
                R.ok(key, PROPS)
            else:
                R.violated(Finding("R31", PROPS, FILE, "_vnacal_new_add_common", "sorted-map:" + v.get("name"),
                                   "%s = %s maps a row/column of the abbreviated measurement matrix through `%s`, which is not a "
                                   "sorted local copy of the port map: the M matrix is in VNA port order even when the port map is "
                                   "not ascending" % (v.get("name"), e.text()[:70], mp), v.line))
    if nsm < 2:
        raise AnalysisBroken("_vnacal_new_add_common: measurement-matrix port-map look-ups not found (4 confirmed by hand)")
    R.counts["sorted_map_lookups"] = nsm
    # PORTMAP-RANGE: in the loop that validates the caller's port map (the one that marks port_connected[port - 1]), the
    # upper-bound refusals are written `if (index < G && port > extent) refuse`; together their guards must cover every
    # index of the loop, otherwise a map entry beyond the guards indexes port_connected[] (and later the cell maps)
    # unchecked.  G and the loop bound are integer expressions of the S dimensions; coverage is decided by evaluating
    # them for every combination of their free quantities in 1..3 (single-definition locals expanded).
    import itertools
    from .r38_precision import atoms as _atoms, NotInt as _NotInt

    def _ev(e, env, depth=0):
        e = e.strip()
        if e.k == "IntegerLiteral":
            return e.val
        if e.k == "DeclRefExpr":
            if e.refkind == "enum":
                return e.ref["val"]
            sd = cn.single_def(e.refdecl) if (e.refkind == "local" and depth < 6) else None
            if sd is not None:
                return _ev(sd, env, depth + 1)
            return env[("var", e.refdecl)]
        if e.k == "MemberExpr":
            return env[("mem", e.member)]
        if e.k == "BinaryOperator":
            a, b = _ev(e.kids[0], env, depth), _ev(e.kids[1], env, depth)
            return {"+": a + b, "-": a - b, "*": a * b, "<": int(a < b), "<=": int(a <= b), ">": int(a > b), ">=": int(a >= b),
                    "==": int(a == b), "!=": int(a != b)}[e.op]
        if e.k == "ConditionalOperator":
            return _ev(e.kids[1], env, depth) if _ev(e.kids[0], env, depth) else _ev(e.kids[2], env, depth)
        raise _NotInt(e.text())
    vloop = None
    for n in fc.walk():
        if n.k == "ForStmt" and n.kids[4] is not None and any(
                m.k == "BinaryOperator" and m.op == "=" and m.kids[0].strip().k == "ArraySubscriptExpr" and
                m.kids[0].strip().kids[0].strip().k == "DeclRefExpr" and m.kids[0].strip().kids[0].strip().refkind == "local" and
                m.kids[0].strip().kids[1].strip().k == "BinaryOperator" and m.kids[0].strip().kids[1].strip().op == "-" and
                m.kids[1].strip().cv not in (None, 0) for m in n.kids[4].walk()) and any(
                m.k == "ArraySubscriptExpr" and is_map(m.kids[0]) for m in n.kids[4].walk()):
            vloop = n
    if vloop is None:
        raise AnalysisBroken("_vnacal_new_add_common: port-map validation loop (port_connected[port - 1] = true) not found")
    cond = vloop.kids[2].strip()
    ivar = cond.kids[0].strip()
    bound = cond.kids[1]
    guards, unguarded = [], 0
    for n in vloop.kids[4].walk():
        if n.k != "IfStmt":
            continue
        kids = [x for x in n.kids if x is not None]
        if not any(m.k == "GotoStmt" for m in kids[1].walk()):
            continue
        c = kids[0].strip()
        if c.k == "BinaryOperator" and c.op == "&&":
            l, r = c.kids[0].strip(), c.kids[1].strip()
            if l.k == "BinaryOperator" and l.op == "<" and l.kids[0].strip().refdecl == ivar.refdecl and \
                    r.k == "BinaryOperator" and r.op == ">":
                guards.append(l.kids[1])
        elif c.k == "BinaryOperator" and c.op == ">" and c.kids[0].strip().k == "DeclRefExpr" and \
                c.kids[0].strip().refkind == "local" and (c.kids[0].strip().ctype or "") == "int":
            unguarded += 1
    key = "R31|%s|_vnacal_new_add_common|portmap-range" % FILE
    if unguarded:
        R.ok(key, PROPS | {"C03"})
    elif not guards:
        R.violated(Finding("R31", PROPS | {"C03"}, FILE, "_vnacal_new_add_common", "portmap-range",
                           "no upper-bound refusal found in the port-map validation loop", vloop.line))
    else:
        at = {}
        for e in [bound] + guards:
            _atoms(e, cn, at)
        names = sorted(at, key=str)
        hole = None
        try:
            for vals in itertools.product((1, 2, 3), repeat=len(names)):
                env = dict(zip(names, vals))
                B = _ev(bound, env)
                Gs = [_ev(g, env) for g in guards]
                for i in range(B):
                    if not any(i < g for g in Gs):
                        hole = (dict((at[k].text(), v) for k, v in env.items()), i, B)
                        break
                if hole:
                    break
        except (_NotInt, KeyError) as e:
            raise AnalysisBroken("_vnacal_new_add_common: port-map guard not an integer expression: %s" % e)
        if hole is None:
            R.ok(key, PROPS | {"C03"})
        else:
            R.violated(Finding("R31", PROPS | {"C03"}, FILE, "_vnacal_new_add_common", "portmap-range",
                               "the upper-bound refusals of the port-map loop are guarded by %s, which leaves map entry %d of %d "
                               "unchecked when %s: an out-of-range port there indexes port_connected[] and the cell maps" %
                               (" / ".join("%s < %s" % (ivar.refname, g.text()) for g in guards), hole[1], hole[2],
                                ", ".join("%s = %d" % kv for kv in sorted(hole[0].items()))), vloop.line))
    # DIM-KIND: a local array whose extent is a pure row count (or a pure column count) of the calibration is filled, in a
    # counted loop that uses the loop counter as the subscript, up to a bound of the same kind.  "rows" / "columns" are
    # read from the canonical form of both expressions (they end in the vl_m_rows / vl_m_columns / vnaa_*_rows /
    # vnaa_*_columns members); mixed expressions (MIN/MAX of both, products) take no part.
    import re as _re

    def _kind(e_):
        t_ = _cn0.path(e_)
        r_, c_ = bool(_re.search(r"rows", t_)), bool(_re.search(r"columns", t_))
        return "R" if (r_ and not c_) else ("C" if (c_ and not r_) else None)
    vla = {}
    for v_ in fc.vardecls():
        dims_ = v_.d.get("_dims") or []
        if dims_ and hasattr(dims_[0], "k") and dims_[0].k != "ConstSize":
            vla[v_.get("decl")] = (v_.get("name"), dims_[0])
    ndk = 0
    for n in fc.walk():
        if n.k != "ForStmt" or n.kids[2] is None or n.kids[4] is None:
            continue
        c_ = n.kids[2].strip()
        if c_.k != "BinaryOperator" or c_.op != "<" or c_.kids[0].strip().k != "DeclRefExpr":
            continue
        iv_ = c_.kids[0].strip().refdecl
        for m in n.kids[4].walk():
            if m.k == "BinaryOperator" and m.op == "=" and m.kids[0].strip().k == "ArraySubscriptExpr":
                l_ = m.kids[0].strip()
                b_, i_ = l_.kids[0].strip(), l_.kids[1].strip()
                if b_.k == "DeclRefExpr" and b_.refdecl in vla and i_.k == "DeclRefExpr" and i_.refdecl == iv_:
                    ke, kb = _kind(vla[b_.refdecl][1]), _kind(c_.kids[1])
                    if ke is None or kb is None:
                        continue
                    ndk += 1
                    key = "R31|%s|_vnacal_new_add_common|dim-kind:%s#%d" % (FILE, "rows" if ke == "R" else "columns", ndk)
                    if ke == kb:
                        R.ok(key, PROPS | {"C03"})
                    else:
                        R.violated(Finding("R31", PROPS | {"C03"}, FILE, "_vnacal_new_add_common", "dim-kind:" + vla[b_.refdecl][0],
                                           "%s[] has one element per %s (%s) but the loop that fills it runs to a %s count (%s): with a "
                                           "rectangular calibration it writes past the array or leaves flags unset" %
                                           (vla[b_.refdecl][0], "row" if ke == "R" else "column", vla[b_.refdecl][1].text()[:40],
                                            "row" if kb == "R" else "column", c_.kids[1].text()[:40]), m.line))
    if ndk < 2:
        raise AnalysisBroken("_vnacal_new_add_common: row/column flag-filling loops not found")
    # MAPPED-INDEX: inside a loop whose counter i has a mapped companion (full = cond ? map[i] - 1 : i), the arrays of
    # the full port grid (those subscripted by some mapped companion) are subscripted by the companion, never by raw i
    mapped = {}          # raw index decl -> [(mapped VarDecl, loop)]
    mapped_decls = set()
    for gid, items in groups.items():
        for (v, mp, idx, e) in items:
            refs = [m for m in e.walk() if m.k == "DeclRefExpr" and m.refname == idx]
            if not refs:
                continue
            loop = None
            for a_ in v.ancestors():
                if a_.k == "ForStmt" and loop is None:
                    init = a_.kids[0]
                    if init is not None and any(m.k == "VarDecl" and m.get("decl") == refs[0].refdecl for m in init.walk()):
                        loop = a_
            if loop is not None:
                mapped.setdefault(refs[0].refdecl, []).append((v, loop))
                mapped_decls.add(v.get("decl"))
    full_arrays = set()
    subs = []
    for n in fc.walk():
        if n.k == "ArraySubscriptExpr":
            b, i = n.kids[0].strip(), n.kids[1].strip()
            if b.k == "DeclRefExpr" and b.refkind == "local" and i.k == "DeclRefExpr":
                subs.append((n, b, i))
                if i.refdecl in mapped_decls:
                    full_arrays.add(b.refdecl)
    nmi = 0
    for (n, b, i) in subs:
        if b.refdecl not in full_arrays:
            continue
        if i.refdecl in mapped_decls:
            nmi += 1
            continue
        for (v, loop) in mapped.get(i.refdecl, []):
            if loop.is_ancestor_of(n):
                nmi += 1
                R.violated(Finding("R31", PROPS | {"C20"}, FILE, "_vnacal_new_add_common", "mapped-index:%s[%s]" % (b.refname, i.refname),
                                   "%s[] is indexed in the full port grid (elsewhere by %s) but here by the raw counter %s of the "
                                   "caller's matrix although %s = %s is in scope: with an abbreviated matrix or a permuted port map "
                                   "the wrong row/column is marked" % (b.refname, v.get("name"), i.refname, v.get("name"),
                                                                      v.kids[0].text()[:60]), n.line))
                break
    if nmi >= 4 and not any(f_.anchor.startswith("mapped-index") for f_ in R.findings):
        R.ok("R31|%s|_vnacal_new_add_common|mapped-index" % FILE, PROPS | {"C20"})
    R.counts["mapped_index_subscripts"] = nmi
    if nrc < 1:
        raise AnalysisBroken("_vnacal_new_add_common: no paired row/column port-map look-ups found")
    R.counts["rowcol_lookup_groups"] = nrc
    R.check_floor()
    return R

"""R32 INDEX-SPACE, SPLINE-PAIR, VECTOR-DEREF (C18, C10).

INDEX-SPACE   a vector allocated with one slot per equation of *all* linear systems
              (extent depends on vn_equations) and filled or read inside a loop over
              the systems (bound vn_systems) must be indexed by a counter that runs across
              the systems: a counter declared (reset) inside the system loop addresses
              every system's entries at the same offsets, so systems overwrite / read each
              other's weights.
SPLINE-PAIR   _vnacommon_spline_eval(n, x, y, c, f) must be given the coefficient
              buffer c that was last computed by _vnacommon_spline_calc for the *same*
              y vector on every path (typestate of the coefficient buffer).
VECTOR-DEREF  per-frequency vectors of structures (vn_m_error_vector) are subscripted,
              never dereferenced as a single object (which silently reads element 0).
"""
from ..core import Finding, RuleResult
from ..flow import Engine, Tracker
from ..canon import Canon
from ..util import base_var
from .r24_count import depends

PROPS = {"C18"}
STRUCT_VECTORS = {"vn_m_error_vector"}


def _system_loops(f, P):
    out = []
    for n in f.walk():
        if n.k == "ForStmt" and n.kids[2] is not None:
            if "vn_systems" in depends(P, f, n.kids[2]):
                out.append(n)
    return out


class SplineTracker(Tracker):
    def __init__(self, fn):
        self.fn = fn
        self.bad = []
        self.nev = 0

    def initial(self, fn):
        return frozenset()

    def step(self, st, n, ctx):
        if n.k == "CallExpr" and n.callee == "_vnacommon_spline_calc" and len(n.args()) >= 4:
            y, c = n.args()[2].text(), n.args()[3].text()
            st = frozenset(x for x in st if x[0] != c) | {(c, y)}
            return [st]
        if n.k == "CallExpr" and n.callee == "_vnacommon_spline_eval" and len(n.args()) >= 5:
            y, c = n.args()[2].text(), n.args()[3].text()
            self.nev += 1
            cur = dict(st).get(c)
            if cur is not None and cur != y:
                self.bad.append((n, y, cur))
        return [st]


def run(P, tier="quick"):
    R = RuleResult("R32", "per-equation vectors spanning all systems are indexed by counters that run across the systems; "
                   "spline evaluations use coefficients computed for the same value vector; per-frequency structure "
                   "vectors are subscripted", floor=6)
    # ---- INDEX-SPACE ----------------------------------------------------------------------------
    # vectors with one slot per equation: locals assigned from calloc(... vn_equations ...) or from a library
    # function that returns such a vector
    producers = {}
    for f in P.lib_functions():
        if f.body is None:
            continue
        for n in f.walk():
            if n.k == "BinaryOperator" and n.op == "=" and n.kids[0].strip().k == "DeclRefExpr":
                r = n.kids[1].strip()
                if r.k == "CallExpr" and r.callee in ("calloc", "malloc") and "vn_equations" in depends(P, f, r):
                    if any(rt.kids and rt.kids[0].strip().k == "DeclRefExpr" and rt.kids[0].strip().refdecl == n.kids[0].strip().refdecl
                           for rt in f.returns()):
                        producers[f.name] = n.kids[0].strip().refdecl
    nidx = 0
    for f in P.lib_functions():
        if f.body is None:
            continue
        vecs = {}
        if f.name in producers:
            vecs[producers[f.name]] = "own"
        for n in f.walk():
            if n.k == "BinaryOperator" and n.op == "=" and n.kids[0].strip().k == "DeclRefExpr":
                r = n.kids[1].strip()
                if r.k == "CallExpr" and r.callee in producers:
                    vecs[n.kids[0].strip().refdecl] = r.callee
        if not vecs:
            continue
        sloops = _system_loops(f, P)
        for n in f.walk():
            if n.k != "ArraySubscriptExpr":
                continue
            b = n.kids[0].strip()
            if b.k != "DeclRefExpr" or b.refdecl not in vecs:
                continue
            idx = n.kids[1].strip()
            enclosing = [lp for lp in sloops if lp.kids[4] is not None and lp.kids[4].is_ancestor_of(n)]
            if not enclosing:
                continue
            lp = enclosing[0]
            body = lp.kids[4]
            ivars = [m for m in idx.walk() if m.k == "DeclRefExpr" and m.refkind in ("local", "param")]
            if not ivars:
                continue
            nidx += 1

            def per_system(v):
                inside = any(d.get("decl") == v.refdecl and body.is_ancestor_of(d) for d in f.vardecls())
                # an assignment inside the loop (body or increment) whose right-hand side does not mention the counter
                # itself restarts it (v = 0) or makes it the size of one system (v = equations): it does not accumulate
                init = lp.kids[0]
                reset = any(m.k == "BinaryOperator" and m.op == "=" and m.kids[0].strip().k == "DeclRefExpr" and
                            m.kids[0].strip().refdecl == v.refdecl and lp.is_ancestor_of(m) and
                            not (init is not None and init.is_ancestor_of(m)) and
                            not any(x.k == "DeclRefExpr" and x.refdecl == v.refdecl for x in m.kids[1].walk())
                            for m in f.walk())
                return inside or reset
            key = "R32|%s|%s|index:%s[%s]" % (f.file, f.name, b.refname, idx.text()[:30])
            if all(per_system(v) for v in ivars):
                R.violated(Finding("R32", PROPS, f.file, f.name, "index:%s[%s]" % (b.refname, idx.text()[:30]),
                                   "%s has one entry per equation of all %s systems, but inside the loop over the systems it is "
                                   "indexed by '%s', which restarts at 0 for every system: all systems use the same entries "
                                   "(the last system's values) and the rest of the vector is never written" %
                                   (b.refname, "vn_systems", idx.text()[:30]), n.line))
            else:
                R.ok(key, PROPS)
    R.counts["per_equation_vector_subscripts_in_system_loops"] = nidx
    # ---- SPLINE-PAIR ----------------------------------------------------------------------------
    nsp = 0
    for f in P.lib_functions():
        if f.cfg is None or not f.calls("_vnacommon_spline_eval"):
            continue
        tr = SplineTracker(f)
        Engine(f, tr, 100000).run()
        nsp += tr.nev
        key = "R32|%s|%s|spline-pair" % (f.file, f.name)
        if tr.bad:
            n, y, cur = tr.bad[0]
            R.violated(Finding("R32", {"C18", "C10"}, f.file, f.name, "spline-pair",
                               "_vnacommon_spline_eval interpolates '%s' with a coefficient buffer that was last computed for "
                               "'%s' (line %d)" % (y, cur, n.line), n.line))
        elif tr.nev:
            R.ok(key, {"C18", "C10"})
    R.counts["spline_evaluations"] = nsp
    # ---- VECTOR-DEREF ---------------------------------------------------------------------------
    nv = 0
    for f in P.lib_functions():
        if f.body is None:
            continue
        CN = Canon(f)
        for n in f.walk():
            if n.k == "MemberExpr" and n.get("arrow"):
                b = n.kids[0].strip()
                src = b
                if b.k == "DeclRefExpr" and b.refkind == "local":
                    d = CN.single_def(b.refdecl)
                    if d is not None:
                        src = d.strip()
                if src.k == "MemberExpr" and src.member in STRUCT_VECTORS:
                    nv += 1
                    R.violated(Finding("R32", PROPS, f.file, f.name, "vector-deref:%s" % src.member,
                                       "%s is a per-frequency vector but is dereferenced as a single object (%s): this always "
                                       "reads the entry of frequency index 0" % (src.member, n.text()[:50]), n.line))
        for n in f.walk():
            if n.k == "ArraySubscriptExpr":
                b = n.kids[0].strip()
                src = b
                if b.k == "DeclRefExpr" and b.refkind == "local":
                    d = CN.single_def(b.refdecl)
                    if d is not None:
                        src = d.strip()
                if src.k == "MemberExpr" and src.member in STRUCT_VECTORS:
                    nv += 1
                    R.ok("R32|%s|%s|subscript:%s#%d" % (f.file, f.name, src.member, nv), PROPS)
    # ---- SYSTEM-SCOPE ---------------------------------------------------------------------------
    # vs_have_v() and the other vs_* accessors describe the linear system selected by the last vs_start_system()
    # (vnss_include_v is recomputed per system): a use that no vs_start_system() of the same function dominates reads
    # whatever the last iteration of some other function left behind (with one system per column: the last column)
    ACC = ("vs_have_v", "vs_get_v", "vs_have_m", "vs_get_m", "vs_have_s", "vs_get_s", "vs_get_xindex", "vs_get_negative",
           "vs_get_m_cell", "vs_get_s_cell")
    nsc = 0
    for f in P.lib_functions():
        if f.cfg is None:
            continue
        uses = [c for c in f.calls() if c.callee in ACC]
        if not uses:
            continue
        starts = [c for c in f.calls() if c.callee == "vs_start_system"]
        for i, u in enumerate(uses):
            nsc += 1
            if any(_dominates(f.cfg, s_, u) for s_ in starts):
                continue
            R.violated(Finding("R32", PROPS, f.file, f.name, "system-scope:%s" % u.callee,
                               "%s() is used where no vs_start_system() of this function has selected a linear system: it reports "
                               "the state left by the last system some other function iterated over, not a property of the "
                               "calibration" % u.callee, u.line))
            break
        else:
            R.ok("R32|%s|%s|system-scope" % (f.file, f.name), PROPS)
    R.counts["iterator_accessor_uses"] = nsc
    R.check_floor()
    return R


def _dominates(cfg, a, b):
    pa, pb = cfg.pos_of(a), cfg.pos_of(b)
    if pa is None or pb is None:
        return False
    if pa[0] == pb[0]:
        return pa[1] <= pb[1]
    return cfg.block_dominates(pa[0], pb[0])

"""R33 RANGE-BOTH (C10): frequency-range checks test the right end with the slack applied outward.

Every value derived from VNACAL_F_EXTRAPOLATION has the form (1 +/- eps) * X.
X is classified MIN (first element of a frequency vector, or something that
data-depends only on such) or MAX (last element), interprocedurally: through
locals, parameters (all call sites must agree), out-parameters filled by a
callee and functions returning a bound.  For each comparison that uses such a
slack bound to decide an error:
  (i)  the slack loosens the test: `a > bound` needs (1+eps), `a < bound` needs (1-eps);
  (ii) both sides belong to the same end of the range (MIN with MIN, MAX with MAX),
       an unclassified side (a query frequency) is accepted;
  (iii) a function that checks a range checks both ends (one MIN and one MAX comparison).
"""
from ..core import Finding, RuleResult
from ..facts import AnalysisBroken
from ..canon import Canon

PROPS = ("C10",)
MACRO = "VNACAL_F_EXTRAPOLATION"


def _is_eps(n):
    return n.k == "FloatingLiteral" and MACRO in n.macros


def slack_of(e):
    """if e is (1 +/- eps) * X (either order): (sign, X)"""
    e = e.strip()
    if e.k != "BinaryOperator" or e.op != "*":
        return None
    for a, b in ((e.kids[0], e.kids[1]), (e.kids[1], e.kids[0])):
        a = a.strip()
        if a.k == "BinaryOperator" and a.op in ("+", "-"):
            l, r = a.kids[0].strip(), a.kids[1].strip()
            if l.k == "FloatingLiteral" and l.val == 1.0 and _is_eps(r):
                return (a.op, b)
    return None


class EndClass:
    """MIN / MAX classification of expressions, interprocedural with memo"""

    def __init__(self, P):
        self.P = P
        self.memo = {}
        self.canons = {}
        self.callers = P.callers()

    def canon(self, f):
        c = self.canons.get(f.key())
        if c is None:
            c = self.canons[f.key()] = Canon(f)
        return c

    def join(self, cs):
        cs = [c for c in cs if c is not None]
        if not cs:
            return None
        return cs[0] if all(c == cs[0] for c in cs) else "MIXED"

    def expr(self, f, e, depth=0):
        if depth > 8:
            return None
        e = e.strip()
        k = e.k
        if k == "ArraySubscriptExpr":
            idx = e.kids[1].strip()
            if idx.cv == 0:
                return "MIN"
            if idx.k == "BinaryOperator" and idx.op == "-" and idx.kids[1].strip().cv == 1:
                return "MAX"
            return None
        if k == "BinaryOperator":
            if e.op == "*":
                s = slack_of(e)
                if s:
                    return self.expr(f, s[1], depth + 1)
                return self.join([self.expr(f, e.kids[0], depth + 1), self.expr(f, e.kids[1], depth + 1)])
            if e.op == "=":
                return self.expr(f, e.kids[1], depth + 1)
            return None
        if k == "ConditionalOperator":
            return self.join([self.expr(f, e.kids[1], depth + 1), self.expr(f, e.kids[2], depth + 1)])
        if k == "DeclRefExpr":
            if e.refkind == "param":
                return self.param(f, e.refdecl, depth + 1)
            if e.refkind == "local":
                return self.local(f, e.refdecl, depth + 1)
            return None
        if k == "UnaryOperator" and e.op == "*":
            # *outparam : what this function stores there is not what it reads
            return None
        if k == "CallExpr":
            g = self.P.resolve_call(e, f)
            if g is not None and g.cfg is not None:
                key = ("ret", g.key())
                if key in self.memo:
                    return self.memo[key]
                self.memo[key] = None
                r = self.join([self.expr(g, rt.kids[0], depth + 1) for rt in g.returns() if rt.kids])
                self.memo[key] = r
                return r
            if e.callee in ("fmin",):
                return None
            return None
        if k == "MemberExpr":
            return None
        return None

    def local(self, f, decl, depth):
        key = ("local", f.key(), decl)
        if key in self.memo:
            return self.memo[key]
        self.memo[key] = None
        cn = self.canon(f)
        cs = []
        for kind, rhs in cn.defs.get(decl, []):
            if rhs is not None and kind in ("init", "assign"):
                cs.append(self.expr(f, rhs, depth + 1))
        # out-parameter: &local passed to a callee which stores into *param
        for c in f.calls():
            for i, a in enumerate(c.args()):
                a_s = a.strip()
                if a_s.k == "UnaryOperator" and a_s.op == "&" and a_s.kids[0].strip().k == "DeclRefExpr" and \
                        a_s.kids[0].strip().refdecl == decl:
                    g = self.P.resolve_call(c, f)
                    if g is not None and g.cfg is not None and i < len(g.params):
                        cs.append(self.outparam(g, g.params[i]["decl"], depth + 1))
        r = self.join(cs)
        self.memo[key] = r
        return r

    def outparam(self, g, pdecl, depth):
        key = ("out", g.key(), pdecl)
        if key in self.memo:
            return self.memo[key]
        self.memo[key] = None
        cs = []
        for n in g.walk():
            if n.k == "BinaryOperator" and n.op == "=":
                l = n.kids[0].strip()
                if l.k == "UnaryOperator" and l.op == "*" and l.kids[0].strip().k == "DeclRefExpr" and \
                        l.kids[0].strip().refdecl == pdecl:
                    r = n.kids[1].strip()
                    c = self.expr(g, r, depth + 1)
                    if c is None and r.k == "DeclRefExpr" and r.refkind == "local":
                        c = self.local(g, r.refdecl, depth + 1)
                    # constants 0.0 / INFINITY used for "unbounded" are neutral
                    cs.append(c)
        r = self.join(cs)
        self.memo[key] = r
        return r

    def param(self, f, pdecl, depth):
        key = ("param", f.key(), pdecl)
        if key in self.memo:
            return self.memo[key]
        self.memo[key] = None
        idx = [i for i, p in enumerate(f.params) if p["decl"] == pdecl]
        cs = []
        if idx:
            for (g, call) in self.callers.get(f.key(), []):
                if idx[0] < len(call.args()):
                    cs.append(self.expr(g, call.args()[idx[0]], depth + 1))
        r = self.join(cs)
        self.memo[key] = r
        return r


def run(P, tier="quick"):
    R = RuleResult("R33", "each comparison against a (1 +/- VNACAL_F_EXTRAPOLATION) * X bound loosens the test (a > bound uses "
                   "1+eps, a < bound uses 1-eps), compares like ends (first element with first, last with last) and every "
                   "range check tests both ends", floor=8)
    EC = EndClass(P)
    # 1. slack definitions: local variables and returning functions
    slack_vars = {}     # (fkey, decl) -> [(sign, X node, f)]
    slack_funcs = {}    # fkey -> (sign, X node, f)
    nsl = 0
    for f in P.lib_functions():
        if f.body is None:
            continue
        for n in f.walk():
            s = None
            if n.k in ("VarDecl",) and n.kids:
                s = slack_of(n.kids[0])
                if s:
                    slack_vars.setdefault((f.key(), n.get("decl")), []).append((s[0], s[1], f))
                    nsl += 1
            elif n.k == "BinaryOperator" and n.op == "=" and n.kids[0].strip().k == "DeclRefExpr":
                s = slack_of(n.kids[1])
                if s:
                    slack_vars.setdefault((f.key(), n.kids[0].strip().refdecl), []).append((s[0], s[1], f))
                    nsl += 1
            elif n.k == "ReturnStmt" and n.kids:
                s = slack_of(n.kids[0])
                if s:
                    slack_funcs[f.key()] = (s[0], s[1], f)
                    nsl += 1
    if nsl < 8:
        raise AnalysisBroken("R33: only %d uses of VNACAL_F_EXTRAPOLATION found (expected 8)" % nsl)
    # variables assigned from slack functions
    for f in P.lib_functions():
        if f.body is None:
            continue
        for n in f.walk():
            if n.k == "BinaryOperator" and n.op == "=" and n.kids[0].strip().k == "DeclRefExpr":
                r = n.kids[1].strip()
                if r.k == "CallExpr":
                    g = P.resolve_call(r, f)
                    if g is not None and g.key() in slack_funcs:
                        slack_vars.setdefault((f.key(), n.kids[0].strip().refdecl), []).append(slack_funcs[g.key()])

    def bound_info(f, e):
        e = e.strip()
        if e.k == "DeclRefExpr":
            return slack_vars.get((f.key(), e.refdecl))
        if e.k == "CallExpr":
            g = P.resolve_call(e, f)
            if g is not None and g.key() in slack_funcs:
                return [slack_funcs[g.key()]]
        s = slack_of(e)
        if s:
            return [(s[0], s[1], f)]
        return None

    ncmp = 0
    per_func = {}
    for f in P.lib_functions():
        if f.body is None:
            continue
        for n in f.walk():
            if n.k != "BinaryOperator" or n.op not in ("<", ">", "<=", ">="):
                continue
            for side in (0, 1):
                info = bound_info(f, n.kids[side])
                if not info:
                    continue
                other = n.kids[1 - side]
                # normalise to  other OP bound
                op = n.op if side == 1 else {"<": ">", ">": "<", "<=": ">=", ">=": "<="}[n.op]
                ncmp += 1
                idx = per_func.get(f.key(), 0)
                per_func[f.key()] = idx + 1
                anchor = "cmp%d:%s" % (idx, "above" if op in (">", ">=") else "below")
                key = "R33|%s|%s|%s" % (f.file, f.name, anchor)
                signs = {s for (s, X, fx) in info}
                bclass = EC.join([EC.expr(fx, X) for (s, X, fx) in info])
                oclass = EC.expr(f, other)
                problems = []
                want = "+" if op in (">", ">=") else "-"
                if signs != {want}:
                    problems.append("slack factor is (1 %s eps) but the test 'value %s bound' is loosened by (1 %s eps)" %
                                    ("/".join(sorted(signs)), op, want))
                if bclass in (None, "MIXED"):
                    problems.append("cannot tell which end of the range the bound comes from (%s)" % bclass)
                elif oclass not in (None, bclass):
                    problems.append("compares the %s end of one range with a bound derived from the %s end of the other" %
                                    (oclass, bclass))
                per_func.setdefault(("ends", f.key()), set()).add(bclass)
                # the checked quantity must be the caller's argument: a parameter whose elements are range-checked
                # may not be reassigned (e.g. set to NULL to take a short cut) anywhere in the function
                from ..util import base_var
                bv = base_var(other)
                if bv is not None and bv.refkind == "param":
                    defs = EC.canon(f).defs.get(bv.refdecl, [])
                    if defs:
                        problems.append("parameter '%s' that is range-checked here is reassigned at line %d: the check can be "
                                        "bypassed for the caller's vector" % (bv.refname, defs[0][1].line if defs[0][1] is not None else 0))
                if problems:
                    R.violated(Finding("R33", PROPS, f.file, f.name, anchor, "%s: %s" % (n.text(), "; ".join(problems)), n.line))
                else:
                    R.ok(key, PROPS)
    for k, ends in list(per_func.items()):
        if isinstance(k, tuple) and k[0] == "ends":
            fk = k[1]
            file, name = fk.split(":")
            if ends >= {"MIN", "MAX"}:
                R.ok("R33|%s|%s|both-ends" % (file, name), PROPS)
            else:
                R.violated(Finding("R33", PROPS, file, name, "both-ends", "range check tests only the %s end(s) of the range" %
                                   "/".join(sorted(str(e) for e in ends)), 0))
    # (iv) RANGE-INTERSECT: where a range end is combined with the same end of another range, the usable range is the
    # intersection: lower ends combine by maximum, upper ends by minimum
    def combo(e):
        """('max'|'min', a, b) for a conditional expression selecting the larger / smaller operand"""
        e = e.strip()
        if e.k != "ConditionalOperator":
            return None
        c, t, f_ = e.kids[0].strip(), e.kids[1].strip(), e.kids[2].strip()
        if c.k != "BinaryOperator" or c.op not in ("<", "<=", ">", ">="):
            return None
        a, b = c.kids[0].strip(), c.kids[1].strip()
        if t.text() == a.text() and f_.text() == b.text():
            return ("max" if c.op in (">", ">=") else "min", a, b)
        if t.text() == b.text() and f_.text() == a.text():
            return ("min" if c.op in (">", ">=") else "max", a, b)
        return None
    nint = 0
    for f in P.lib_functions():
        if f.body is None:
            continue
        cands = []
        for n in f.walk():
            if n.k == "IfStmt":
                kids = [x for x in n.kids if x is not None]
                c = kids[0].strip()
                if len(kids) == 2 and c.k == "BinaryOperator" and c.op in ("<", "<=", ">", ">="):
                    body = kids[1].kids if kids[1].k == "CompoundStmt" else [kids[1]]
                    body = [x for x in body if x is not None]
                    if len(body) == 1 and body[0].strip().k == "BinaryOperator" and body[0].strip().op == "=":
                        asg = body[0].strip()
                        a, b = c.kids[0].strip(), c.kids[1].strip()
                        l, r = asg.kids[0].strip(), asg.kids[1].strip()
                        # if (a OP b) b = a   /   if (a OP b) a = b
                        if l.text() == b.text() and r.text() == a.text():
                            kind = "max" if c.op in (">", ">=") else "min"
                            cands.append((n, kind, a, b, l))
                        elif l.text() == a.text() and r.text() == b.text():
                            kind = "min" if c.op in (">", ">=") else "max"
                            cands.append((n, kind, a, b, l))
            elif n.k == "BinaryOperator" and n.op == "=":
                cb = combo(n.kids[1])
                if cb is not None:
                    cands.append((n, cb[0], cb[1], cb[2], n.kids[0].strip()))
        for (n, kind, a, b, tgt) in cands:
            cls = [x for x in (EC.expr(f, a), EC.expr(f, b)) if x in ("MIN", "MAX")]
            if not cls or len(set(cls)) > 1:
                continue
            if "double" not in (a.ctype or "") and "double" not in (b.ctype or ""):
                continue
            nint += 1
            i = per_func[("int", f.key())] = per_func.get(("int", f.key()), 0) + 1
            anchor = "intersect%d:%s" % (i, "lower" if cls[0] == "MIN" else "upper")
            key = "R33|%s|%s|%s" % (f.file, f.name, anchor)
            want = "max" if cls[0] == "MIN" else "min"
            if kind == want:
                R.ok(key, PROPS)
            else:
                R.violated(Finding("R33", PROPS, f.file, f.name, anchor,
                                   "`%s` combines the %s ends of two frequency ranges by taking the %s: the usable range is the "
                                   "intersection, so %s ends combine by %s (otherwise frequencies outside one of the ranges are accepted)" %
                                   (n.text()[:90], "lower" if cls[0] == "MIN" else "upper", "smaller" if kind == "min" else "larger",
                                    "lower" if cls[0] == "MIN" else "upper", "maximum" if want == "max" else "minimum"), n.line))
    R.counts["range_intersections"] = nint
    if nint < 2:
        raise AnalysisBroken("R33: %d range-intersection sites found (_vnacal_get_parameter_frange has 2)" % nint)
    R.counts["slack_bounds"] = nsl
    R.counts["comparisons"] = ncmp
    R.check_floor()
    return R

"""R34a UNIT (C08): the frequency multiplier is applied wherever a file frequency meets a stored one.

Values in the Touchstone loader are qualified
   raw : a number as written in the file (tps_double, tps_value_vector[..])
   hz  : multiplier * raw, or a frequency read back from the vnadata_t
         (vnadata_get_frequency / get_fmin / get_fmax, vd_frequency_vector[..])
Rules: (1) the frequency argument of vnadata_add_frequency / vnadata_set_frequency
is hz; (2) no relational comparison has one hz and one raw operand; (3) every
option keyword that selects a unit assigns tps_frequency_multiplier.
"""
from ..core import Finding, RuleResult
from ..facts import AnalysisBroken
from ..canon import Canon

FILE = "vnadata_load_touchstone.c"
PROPS = ("C08",)
HZ_CALLS = {"vnadata_get_frequency", "vnadata_get_fmin", "vnadata_get_fmax"}
FREQ_SINKS = {"vnadata_add_frequency": 1, "vnadata_set_frequency": 2}


class Qual:
    def __init__(self, f):
        self.f = f
        self.cn = Canon(f)
        self.memo = {}

    def q(self, e, depth=0):
        e = e.strip()
        k = e.k
        if depth > 6:
            return None
        if k == "MemberExpr":
            if e.member == "tps_double":
                return "raw"
            if e.member == "tps_frequency_multiplier":
                return "mult"
            return None
        if k == "ArraySubscriptExpr":
            b = e.kids[0].strip()
            if b.k == "MemberExpr" and b.member == "tps_value_vector":
                return "raw"
            if b.k == "MemberExpr" and b.member == "vd_frequency_vector":
                return "hz"
            return None
        if k == "CallExpr":
            return "hz" if e.callee in HZ_CALLS else None
        if k == "BinaryOperator":
            a, b = self.q(e.kids[0], depth + 1), self.q(e.kids[1], depth + 1)
            if e.op == "*":
                if {a, b} == {"mult", "raw"}:
                    return "hz"
                if "mult" in (a, b):
                    return "hz" if (a == "hz" or b == "hz") else None
                return a or b if (a is None or b is None) else (a if a == b else None)
            if e.op in ("+", "-"):
                return a if a == b else (a or b)
            if e.op == "/":
                return a
            if e.op == "=":
                return b
            return None
        if k == "DeclRefExpr" and e.refkind == "local":
            d = e.refdecl
            if d in self.memo:
                return self.memo[d]
            self.memo[d] = None
            qs = {self.q(r, depth + 1) for kd, r in self.cn.defs.get(d, []) if r is not None}
            qs.discard(None)
            r = qs.pop() if len(qs) == 1 else None
            self.memo[d] = r
            return r
        if k == "UnaryOperator" and e.op in ("-", "+"):
            return self.q(e.kids[0], depth + 1)
        if k == "ConditionalOperator":
            a, b = self.q(e.kids[1], depth + 1), self.q(e.kids[2], depth + 1)
            return a if a == b else None
        return None


def run(P, tier="quick"):
    R = RuleResult("R34a", "in the Touchstone loader every frequency stored into the vnadata_t and every ordering comparison "
                   "between a file value and a stored frequency uses the Hz-scaled value (multiplier applied)", floor=6)
    nsink = ncmp = 0
    for f in P.by_file.get(FILE, []):
        if f.body is None:
            continue
        Q = Qual(f)
        per = {}
        for c in f.calls():
            if c.callee in FREQ_SINKS:
                nsink += 1
                a = c.args()[FREQ_SINKS[c.callee]]
                q = Q.q(a)
                per[c.callee] = per.get(c.callee, 0) + 1
                anchor = "%s#%d" % (c.callee, per[c.callee])
                if q == "hz":
                    R.ok("R34a|%s|%s|%s" % (FILE, f.name, anchor), set(PROPS))
                else:
                    R.violated(Finding("R34a", PROPS, FILE, f.name, anchor, "frequency stored by %s is '%s' (%s): the unit "
                                       "multiplier is not applied" % (c.callee, a.text()[:60], q or "unqualified"), c.line))
        i = 0
        for n in f.walk():
            if n.k == "BinaryOperator" and n.op in ("<", "<=", ">", ">=", "==", "!="):
                a, b = Q.q(n.kids[0]), Q.q(n.kids[1])
                if "hz" in (a, b):
                    ncmp += 1
                    i += 1
                    anchor = "cmp%d" % i
                    if {a, b} == {"hz", "raw"}:
                        R.violated(Finding("R34a", PROPS, FILE, f.name, anchor, "'%s' compares a raw file value with a frequency in "
                                           "Hz: with any unit other than Hz the ordering test is wrong" % n.text()[:90], n.line))
                    else:
                        R.ok("R34a|%s|%s|%s" % (FILE, f.name, anchor), set(PROPS))
    if nsink < 2:       # V1 (one or two add_frequency sites, depending on whether the 2-port and n-port loops share a helper) and V2
        raise AnalysisBroken("R34a: only %d frequency stores found in the Touchstone loader" % nsink)
    # (3) unit keywords assign the multiplier: every case arm of the option switch that mentions a unit token
    f = P.need_func("_vnadata_load_touchstone", FILE)
    units = [k for k in P.enums.get("ts_token", {}) if k.startswith("T_OP_") and k.endswith("HZ")]
    arms = {}
    for n in f.walk():
        if n.k == "CaseStmt" and n.kids[0].strip().refname in units:
            arms[n.kids[0].strip().refname] = n
    for u in units:
        n = arms.get(u)
        okk = False
        if n is not None:
            # statements following the label until break: look in the parent compound
            par = n.parent
            sts = par.kids
            idx = sts.index(n)
            seg = [n.kids[-1]] + sts[idx + 1: idx + 6]
            for s in seg:
                if s is None:
                    continue
                if s.k == "BreakStmt":
                    break
                for m in s.walk():
                    if m.k == "BinaryOperator" and m.op == "=" and m.kids[0].strip().k == "MemberExpr" and \
                            m.kids[0].strip().member == "tps_frequency_multiplier":
                        okk = True
        if okk:
            R.ok("R34a|%s|unit-keyword:%s" % (FILE, u), set(PROPS))
        else:
            R.violated(Finding("R34a", PROPS, FILE, f.name, "unit-keyword:" + u, "option keyword %s does not set "
                               "tps_frequency_multiplier" % u, n.line if n is not None else f.line))
    # (4) every option token is produced by the scanner and consumed by the option switch
    toks = [k for k in P.enums.get("ts_token", {}) if k.startswith("T_OP_")]
    if len(toks) < 10:
        raise AnalysisBroken("R34a: ts_token has only %d T_OP_ enumerators" % len(toks))
    nt = P.need_func("next_token", FILE)
    produced = set()
    for n in nt.walk():
        if n.k == "BinaryOperator" and n.op == "=" and n.kids[0].strip().k == "MemberExpr" and \
                n.kids[0].strip().member == "tps_token" and n.kids[1].strip().refname:
            produced.add(n.kids[1].strip().refname)
    handled = set()
    for n in f.walk():
        if n.k == "CaseStmt" and n.kids[0].strip().refname:
            handled.add(n.kids[0].strip().refname)
    for t in sorted(toks):
        if t in produced and t in handled:
            R.ok("R34a|%s|option-token:%s" % (FILE, t), set(PROPS))
        else:
            R.violated(Finding("R34a", PROPS, FILE, "next_token" if t not in produced else f.name, "option-token:" + t,
                               "option token %s is %s" % (t, "never produced by the scanner" if t not in produced else
                                                          "not handled in the option-line switch"), nt.line))
    # (5) keywords compared against the upper-cased token text are upper case themselves
    nk = 0
    for g in P.by_file.get(FILE, []):
        for c in g.calls():
            if c.callee in ("strcmp", "strncmp") and len(c.args()) >= 2:
                a0, a1 = c.args()[0].strip(), c.args()[1].strip()
                lit = a1 if a1.k == "StringLiteral" else (a0 if a0.k == "StringLiteral" else None)
                other = a0 if lit is a1 else a1
                if lit is None or "tps_text" not in other.text():
                    continue
                nk += 1
                if lit.val == lit.val.upper():
                    R.ok("R34a|%s|%s|keyword:%s" % (FILE, g.name, lit.val), set(PROPS))
                else:
                    R.violated(Finding("R34a", PROPS, FILE, g.name, "keyword:" + lit.val, "keyword literal \"%s\" can never match: "
                                       "the scanner converts input to upper case" % lit.val, c.line))
    # (6) [Matrix Format] arms: Upper/Lower store both (r,c) and (c,r) over the right triangle,
    #     Full stores (c,r) exactly when the 21_12 order was selected
    msw = None
    for n in f.walk():
        if n.k == "SwitchStmt":
            cond = [x for x in n.kids[:-1] if x is not None][-1].strip()
            # the switch on the [Matrix Format] letter: a local switched on with case labels 'F', 'U' and 'L'
            labels_ = set()
            for st_ in n.kids[-1].kids:
                t_ = st_
                while t_ is not None and t_.k in ("CaseStmt", "DefaultStmt"):
                    if t_.k == "CaseStmt" and t_.get("val") is not None:
                        labels_.add(t_.get("val"))
                    t_ = t_.kids[-1]
            if cond.k == "DeclRefExpr" and {ord("F"), ord("U"), ord("L")} <= labels_:
                msw = n
    if msw is None:
        raise AnalysisBroken("R34a: switch (matrix_format) not found")
    body = msw.kids[-1]
    arm = None
    arms2 = {}
    for st in body.kids:
        t = st
        while t is not None and t.k in ("CaseStmt", "DefaultStmt"):
            if t.k == "CaseStmt":
                arm = chr(t.get("val")) if t.get("val") is not None and 32 < t.get("val") < 127 else None
            else:
                arm = None
            t = t.kids[-1]
        if arm is not None and t is not None:
            arms2.setdefault(arm, []).append(t)
    for letter in ("F", "U", "L"):
        sts = arms2.get(letter)
        key = "R34a|%s|matrix-format:%s" % (FILE, letter)
        if not sts:
            R.violated(Finding("R34a", PROPS, FILE, f.name, "matrix-format:" + letter, "no arm for matrix format '%s'" % letter, msw.line))
            continue
        loops = [m for s0 in sts for m in s0.walk() if m.k == "ForStmt"]
        calls = [m for s0 in sts for m in s0.walk() if m.k == "CallExpr" and m.callee == "vnadata_set_cell"]
        if len(loops) != 2 or not calls:
            R.unclassified(key, "arm shape not understood")
            continue
        outer, inner = loops[0], loops[1]

        def ivar(lp):
            i0 = lp.kids[0]
            return i0.kids[0].get("decl") if i0 is not None and i0.k == "DeclStmt" else None

        def init_of(lp):
            return lp.kids[0].kids[0].kids[0].strip() if lp.kids[0] is not None and lp.kids[0].kids and lp.kids[0].kids[0].kids else None
        ro, ci = ivar(outer), ivar(inner)

        def role(a):
            a = a.strip()
            return "R" if a.refdecl == ro else ("C" if a.refdecl == ci else "?")
        pairs = []
        for c in calls:
            a = c.args()
            # is the call under a condition on the 21_12 order?
            cond = None
            for anc in c.ancestors():
                if anc is inner:
                    break
                if anc.k == "IfStmt":
                    kids = [x for x in anc.kids if x is not None]
                    inthen = kids[1].is_ancestor_of(c)
                    ctext = kids[0].text() + " " + " ".join(mm for q in kids[0].walk() for mm in q.macros)
                    cond = (ctext, inthen)
            pairs.append((role(a[2]), role(a[3]), cond))
        bad = None
        ii = init_of(inner)
        icond = inner.kids[2].strip() if inner.kids[2] is not None else None
        if letter in ("U", "L"):
            got = {(r, c0) for (r, c0, cd) in pairs if cd is None}
            if got != {("R", "C"), ("C", "R")}:
                bad = "stores cells %s, expected both (row,column) and (column,row)" % sorted(got)
            elif letter == "U" and not (ii is not None and ii.k == "DeclRefExpr" and ii.refdecl == ro and icond is not None and icond.op == "<"):
                bad = "inner loop must run column = row .. ports-1"
            elif letter == "L" and not (ii is not None and ii.cv == 0 and icond is not None and icond.op == "<=" and
                                        icond.kids[1].strip().k == "DeclRefExpr" and icond.kids[1].strip().refdecl == ro):
                bad = "inner loop must run column = 0 .. row"
        else:
            sw = [(r, c0) for (r, c0, cd) in pairs if cd is not None and "T21_12" in cd[0] and cd[1]]
            st_ = [(r, c0) for (r, c0, cd) in pairs if cd is not None and "T21_12" in cd[0] and not cd[1]]
            if sw != [("C", "R")] or st_ != [("R", "C")]:
                bad = "Full arm must store (column,row) when the order is 21_12 and (row,column) otherwise; found %s" % pairs
        if bad:
            R.violated(Finding("R34a", PROPS, FILE, f.name, "matrix-format:" + letter, "[Matrix Format] %s: %s" % (letter, bad), sts[0].line))
        else:
            R.ok(key, set(PROPS))
    R.counts["keyword_literals"] = nk
    R.counts["option_tokens"] = len(toks)
    R.counts["frequency_stores"] = nsink
    R.counts["hz_comparisons"] = ncmp
    R.check_floor()
    return R

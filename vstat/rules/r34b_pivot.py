"""R34b HOMOG (C19): the LU pivot choice is invariant under row scaling.

Quantities in _vnacommon_lu get a homogeneity degree with respect to a
scaling of their row: matrix elements and sums of products accumulated into
them -> 1, cabs/fabs preserve the degree, a maximum over a row -> 1, 1/x ->
-deg(x), a product -> sum of degrees.  The value compared to select
best_index must have degree 0 (|s| / rowmax); degree 2 (|s| * rowmax) prefers
the rows with the *largest* scale, the opposite of scaled partial pivoting.
"""
from ..core import Finding, RuleResult
from ..facts import AnalysisBroken

PROPS = ("C19",)
FILE = "vnacommon_lu.c"


class Deg:
    def __init__(self, f, P=None, depth=0):
        self.f = f
        self.P = P
        self.depth = depth
        self.memo = {}
        self.matrix_params = {p["decl"] for p in f.params if "_Complex double *" in p.get("ct", p["t"])}
        self.assigns = {}       # decl -> [rhs]
        self.elem_assigns = {}  # array decl -> [rhs]
        for n in f.walk():
            if n.k == "VarDecl" and n.kids:
                self.assigns.setdefault(n.get("decl"), []).append(n.kids[0])
            if n.k == "BinaryOperator" and n.op == "=":
                l = n.kids[0].strip()
                if l.k == "DeclRefExpr":
                    self.assigns.setdefault(l.refdecl, []).append(n.kids[1])
                elif l.k == "ArraySubscriptExpr" and l.kids[0].strip().k == "DeclRefExpr":
                    self.elem_assigns.setdefault(l.kids[0].strip().refdecl, []).append(n.kids[1])

    def join(self, ds):
        ds = [d for d in ds if d is not None]
        if not ds:
            return None
        return ds[0] if all(d == ds[0] for d in ds) else "T"

    def var(self, decl, stack):
        if decl in self.memo:
            return self.memo[decl]
        if decl in stack:
            return None
        ds = [self.deg(r, stack | {decl}) for r in self.assigns.get(decl, [])]
        d = self.join(ds)
        self.memo[decl] = d
        return d

    def deg(self, e, stack=frozenset()):
        """None = constant (compatible with anything), int = degree, 'T' = inconsistent"""
        e = e.strip()
        k = e.k
        if k in ("IntegerLiteral", "FloatingLiteral"):
            return None
        if k == "DeclRefExpr":
            if e.refkind in ("local", "param"):
                if e.refdecl in self.matrix_params:
                    return 1
                return self.var(e.refdecl, stack)
            return None
        if k == "ArraySubscriptExpr":
            b = e.kids[0].strip()
            if b.k == "DeclRefExpr":
                if b.refdecl in self.matrix_params:
                    return 1
                if b.refdecl in stack:
                    return None
                ds = [self.deg(r, stack | {b.refdecl}) for r in self.elem_assigns.get(b.refdecl, [])]
                # elements filled by a helper the array is handed to (e.g. an extracted lu_init_rows(a, row_scale, ...))
                if self.P is not None:
                    for c in self.f.calls():
                        g = self.P.resolve_call(c, self.f)
                        if g is None or g.body is None or g.key() == self.f.key():
                            continue
                        for i, a_ in enumerate(c.args()):
                            a_s = a_.strip()
                            if a_s.k == "DeclRefExpr" and a_s.refdecl == b.refdecl and i < len(g.params):
                                sub = Deg(g, self.P, self.depth + 1) if self.depth < 3 else None
                                if sub is not None:
                                    ds += [sub.deg(r) for r in sub.elem_assigns.get(g.params[i]["decl"], [])]
                return self.join(ds)
            return None
        if k == "CallExpr":
            if e.callee in ("cabs", "fabs", "creal", "cimag", "conj"):
                return self.deg(e.args()[0], stack)
            if e.callee in ("sqrt",):
                return "T"
            return "T"
        if k == "BinaryOperator":
            a, b = self.deg(e.kids[0], stack), self.deg(e.kids[1], stack)
            if e.op == "=":
                return b
            if e.op == "*":
                if a == "T" or b == "T":
                    return "T"
                return (a or 0) + (b or 0) if (a is not None or b is not None) else None
            if e.op == "/":
                if a == "T" or b == "T":
                    return "T"
                return (a or 0) - (b or 0) if (a is not None or b is not None) else None
            if e.op in ("+", "-"):
                return self.join([a, b])
            return "T"
        if k == "UnaryOperator" and e.op in ("-", "+"):
            return self.deg(e.kids[0], stack)
        if k == "ConditionalOperator":
            return self.join([self.deg(e.kids[1], stack), self.deg(e.kids[2], stack)])
        return "T"


def run(P, tier="quick"):
    R = RuleResult("R34b", "in _vnacommon_lu the quantity compared to choose the pivot row has homogeneity degree 0 under "
                   "row scaling (|candidate| divided by the largest magnitude of its row)", floor=1)
    f = P.need_func("_vnacommon_lu", FILE)
    D = Deg(f, P)
    # the comparison that guards `best_index = i`
    target = None
    BEST = None
    for n in f.walk():
        if n.k == "IfStmt":
            kids = [k for k in n.kids if k is not None]
            cond, then = kids[0], kids[1]
            # the pivot choice: inside a counted loop, `if (metric > best) { BEST_INDEX = <loop counter>; ... }`
            loops_ = [a_ for a_ in n.ancestors() if a_.k == "ForStmt"]
            lvars = set()
            for lp_ in loops_:
                init_ = lp_.kids[0]
                if init_ is not None:
                    for m in init_.walk():
                        if m.k == "VarDecl":
                            lvars.add(m.get("decl"))
            sets_best = None
            for m in then.walk():
                if m.k == "BinaryOperator" and m.op == "=" and m.kids[0].strip().k == "DeclRefExpr" and \
                        m.kids[1].strip().k == "DeclRefExpr" and m.kids[1].strip().refdecl in lvars and \
                        m.kids[0].strip().refkind == "local" and (m.kids[0].strip().ctype or "") == "int":
                    sets_best = m.kids[0].strip()
            c = cond.strip()
            if sets_best is not None and c.k == "BinaryOperator" and c.op in (">", ">=", "<", "<="):
                target = c
                BEST = sets_best
    if target is None:
        raise AnalysisBroken("_vnacommon_lu: pivot selection comparison not found")
    metric = target.kids[0] if target.op in (">", ">=") else target.kids[1]
    d = D.deg(metric)
    if d == 0:
        R.ok("R34b|%s|_vnacommon_lu|pivot-metric" % FILE, PROPS)
    else:
        R.violated(Finding("R34b", PROPS, FILE, "_vnacommon_lu", "pivot-metric",
                           "pivot metric '%s' has row-scaling degree %s (must be 0): rows are not compared relative to "
                           "their own largest element" % (metric.text(), d), target.line))
    # row swap consistency: in the block that exchanges the pivot row (best_index) with row j, every per-row
    # local array must carry row j's entry to position best_index (position j holds the pivot row from then on
    # and is not searched again); copying the other way overwrites the displaced row's scale
    swap_if = None
    for n in f.walk():
        if n.k == "IfStmt":
            c = [x for x in n.kids if x is not None][0].strip()
            if c.k == "BinaryOperator" and c.op == "!=" and BEST.refdecl in (c.kids[0].strip().refdecl, c.kids[1].strip().refdecl):
                swap_if = n
    if swap_if is None:
        raise AnalysisBroken("_vnacommon_lu: row swap block (best_index != j) not found")
    c = [x for x in swap_if.kids if x is not None][0].strip()
    other = [x.strip() for x in c.kids if x.strip().refdecl != BEST.refdecl][0]
    best = [x.strip() for x in c.kids if x.strip().refdecl == BEST.refdecl][0]
    local_arrays = {v.get("decl"): v.get("name") for v in f.vardecls() if v.d.get("_dims") and "double" in v.ctype and "_Complex" not in v.ctype}
    moves = {}
    for m in swap_if.walk():
        if m.k == "BinaryOperator" and m.op == "=":
            l, r = m.kids[0].strip(), m.kids[1].strip()
            if l.k == "ArraySubscriptExpr" and r.k == "ArraySubscriptExpr" and l.kids[0].strip().k == "DeclRefExpr" and \
                    l.kids[0].strip().refdecl in local_arrays and r.kids[0].strip().refdecl == l.kids[0].strip().refdecl:
                moves.setdefault(local_arrays[l.kids[0].strip().refdecl], []).append(
                    (l.kids[1].strip().refdecl, r.kids[1].strip().refdecl, m))
    for name in sorted(local_arrays.values()):
        mv = moves.get(name, [])
        key = "R34b|%s|_vnacommon_lu|swap:%s" % (FILE, name)
        good = any(a == best.refdecl and b == other.refdecl for (a, b, m) in mv)
        rev = [m for (a, b, m) in mv if a == other.refdecl and b == best.refdecl]
        if good and not rev:
            R.ok(key, PROPS)
        else:
            ln = rev[0].line if rev else swap_if.line
            R.violated(Finding("R34b", PROPS, FILE, "_vnacommon_lu", "swap:" + name,
                               "when rows best_index and %s are exchanged, %s[] must receive %s[%s] at position best_index; found %s" %
                               (other.refname, name, name, other.refname,
                                ", ".join(m.text() for (_, _, m) in mv) or "no move at all"), ln))
    R.counts["degree"] = str(d)
    abs_tol(P, R)
    R.check_floor()
    return R


KERNELS = ("vnacommon_lu.c", "vnacommon_qrd.c", "vnacommon_qr.c", "vnacommon_qrsolve.c", "vnacommon_qrsolve2.c",
           "vnacommon_mldivide.c", "vnacommon_mrdivide.c", "vnacommon_minverse.c")


def abs_tol(P, R):
    """ABS-TOL: the linear-algebra kernels decide nothing by comparing matrix data with a non-zero constant.

    "Singular systems are detected ... regardless of the scale of the data" (C19): a test such as
    `norm2 < DBL_EPSILON` makes the factorisation take a different branch when the same system is given in other
    units.  Data = anything computed (through locals, compound assignments, local arrays) from the elements of a
    double / double complex pointer parameter.  A comparison of data with 0, with other data, or of a ratio
    data/data with a constant is accepted."""
    nex = 0
    for file in KERNELS:
        for f in P.by_file.get(file, []):
            if f.body is None:
                continue
            data_params = {p["decl"] for p in f.params if "double" in p.get("ct", p["t"]) and "*" in p.get("ct", p["t"])}
            if not data_params:
                continue
            tainted = set(data_params)
            changed = True

            def is_data(e):
                for m in e.walk():
                    if m.k == "DeclRefExpr" and m.refdecl in tainted:
                        return True
                return False
            while changed:
                changed = False
                for n in f.walk():
                    tgt = rhs = None
                    if n.k == "VarDecl" and n.kids:
                        tgt, rhs = n.get("decl"), n.kids[0]
                    elif n.k in ("BinaryOperator", "CompoundAssignOperator") and n.op and n.op.endswith("=") and \
                            n.op not in ("==", "!=", "<=", ">="):
                        l = n.kids[0].strip()
                        while l.k in ("ArraySubscriptExpr", "MemberExpr", "UnaryOperator") and l.kids:
                            l = l.kids[0].strip()
                        if l.k == "DeclRefExpr":
                            tgt, rhs = l.refdecl, n.kids[1]
                    if tgt is not None and tgt not in tainted and is_data(rhs):
                        tainted.add(tgt)
                        changed = True
            # EARLY-RETURN: no return of a kernel is controlled by the matrix data.  The result parameter is written on
            # every call (inf/nan for a singular system, which vnaconv(3) documents); a data-dependent early return
            # leaves whatever the buffer held before for the callers that do not test the determinant
            for n in f.walk():
                if n.k == "IfStmt":
                    kids_ = [x for x in n.kids if x is not None]
                    if is_data(kids_[0]) and any(m.k == "ReturnStmt" for br in kids_[1:] for m in br.walk()):
                        R.violated(Finding("R34b", PROPS + ("C04",), file, f.name, "early-return",
                                           "`if (%s)` returns before the result has been written: the output parameter keeps its "
                                           "previous contents when the condition on the matrix data holds, and callers that ignore "
                                           "the returned determinant (vnaconv_*) deliver stale values" % kids_[0].text(), n.line))
            nret = len([m for m in f.walk() if m.k == "ReturnStmt"])
            if nret >= 1 and not any(fd.func == f.name and fd.anchor == "early-return" for fd in R.findings):
                R.ok("R34b|%s|%s|early-return" % (file, f.name), PROPS)
            per = 0
            for n in f.walk():
                if n.k != "BinaryOperator" or n.op not in ("<", ">", "<=", ">=", "==", "!="):
                    continue
                a, b = n.kids[0].strip(), n.kids[1].strip()
                for x, y in ((a, b), (b, a)):
                    if not is_data(x) or (x.ctype or "") in ("int", "_Bool", "bool"):
                        continue
                    if "double" not in (x.ctype or "") and "float" not in (x.ctype or ""):
                        continue
                    nex += 1
                    per += 1
                    key = "R34b|%s|%s|abs-tol#%d" % (file, f.name, per)
                    const = None
                    ys = y
                    if ys.k in ("FloatingLiteral", "IntegerLiteral"):
                        const = ys.val
                    elif ys.k == "UnaryOperator" and ys.op == "-" and ys.kids[0].strip().k in ("FloatingLiteral", "IntegerLiteral"):
                        const = -ys.kids[0].strip().val
                    ratio = x.k == "BinaryOperator" and x.op == "/" and is_data(x.kids[0]) and is_data(x.kids[1])
                    if const is None or const == 0 or ratio:
                        R.ok(key, PROPS)
                    else:
                        R.violated(Finding("R34b", PROPS, file, f.name, "abs-tol#%d" % per,
                                           "`%s` compares a quantity computed from the matrix data with the absolute constant %s%s: "
                                           "the factorisation takes a different branch when the same system is given at another scale" %
                                           (n.text(), const, " (%s)" % "/".join(ys.macros) if ys.macros else ""), n.line))
                    break
    R.counts["kernel_data_comparisons"] = nex
    if nex < 2:
        raise AnalysisBroken("R34b ABS-TOL: only %d data comparisons found in the kernels (3 today)" % nex)

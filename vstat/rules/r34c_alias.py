"""R34c ALIAS / R34d Z0-BOTH, OUT-ONCE (C04): structural clauses of the vnaconv_* conversions.

ALIAS    "passing the same array as input and output gives the same result": on no
         path may a load through the input matrix parameter follow a store through
         an output parameter (or a call that receives the output), except the affine
         case in one counted loop: store out[i] then, in later iterations, load
         in[c*i + d] with c >= 1, d >= 0 (vnaconv_*zin: index of the load never falls
         below the index already written).  A single call receiving both the input
         and an output parameter is reported too (the callee may interleave).
Z0-BOTH  a 2x2 conversion taking z0 reads z0[0] and z0[1]; an n-port one subscripts z0
         with loop variables only.
OUT-ONCE in 2x2 conversions every output element ([0][0],[0][1],[1][0],[1][1] or
         zi[0], zi[1]) is stored exactly once.
"""
from ..core import Finding, RuleResult
from ..flow import Engine, Tracker, TooManyStates
from ..util import base_var

PROPS = ("C04",)
ALIAS_PROPS = ("C04", "C05")


class AliasTracker(Tracker):
    def __init__(self, fn, inp, outs):
        self.fn = fn
        self.inp = inp
        self.outs = outs
        self.bad = []

    def initial(self, fn):
        return False

    def _is_read(self, n):
        p = n.parent
        while p is not None and p.k == "ParenExpr":
            p = p.parent
        return p is not None and p.k == "ImplicitCastExpr" and p.get("cast") == "LValueToRValue"

    def step(self, st, n, ctx):
        k = n.k
        if k in ("ArraySubscriptExpr",) or (k == "UnaryOperator" and n.op == "*"):
            bv = base_var(n)
            if bv is not None and bv.refkind == "param":
                if bv.refdecl == self.inp and st and self._is_read(n):
                    # innermost element access only (s[i][j] : the outer subscript)
                    if not (n.parent is not None and n.parent.strip_parens().k == "ArraySubscriptExpr" and n.parent.kids[0].strip() is n):
                        if not self._affine_ok(n):
                            self.bad.append((n, "load"))
        if k in ("BinaryOperator", "CompoundAssignOperator") and n.op and n.op.endswith("=") and n.op not in ("==", "!=", "<=", ">="):
            l = n.kids[0].strip()
            bv = base_var(l)
            if bv is not None and bv.refkind == "param" and bv.refdecl in self.outs and l.k != "DeclRefExpr":
                return [True]
        if k == "CallExpr":
            has_in = has_out = False
            for a in n.args():
                bv = base_var(a)
                if bv is not None and bv.refkind == "param":
                    if bv.refdecl == self.inp:
                        has_in = True
                    if bv.refdecl in self.outs:
                        has_out = True
            if has_in and has_out:
                self.bad.append((n, "call"))
            if has_in and st:
                self.bad.append((n, "load"))
            if has_out:
                return [True]
        return [st]

    def _affine_ok(self, load):
        """load in[c*i+d] inside a counted loop whose body stores out[i]"""
        loops = [a for a in load.ancestors() if a.k == "ForStmt"]
        if len(loops) != 1:
            return False
        lp = loops[0]
        init = lp.kids[0]
        iv = None
        if init is not None and init.k == "DeclStmt" and init.kids:
            iv = init.kids[0].get("decl")
        elif init is not None and init.strip().k == "BinaryOperator":
            iv = init.strip().kids[0].strip().refdecl
        if iv is None:
            return False
        # every store through an output parameter in the loop has index exactly i
        for m in lp.walk():
            if m.k in ("BinaryOperator", "CompoundAssignOperator") and m.op and m.op.endswith("=") and m.op not in ("==", "!=", "<=", ">="):
                l = m.kids[0].strip()
                bv = base_var(l)
                if bv is not None and bv.refkind == "param" and bv.refdecl in self.outs:
                    if l.k != "ArraySubscriptExpr" or l.kids[1].strip().refdecl != iv:
                        return False
        idx = load.kids[1].strip() if load.k == "ArraySubscriptExpr" else None
        if idx is None:
            return False

        def affine(e):
            """(c_ok) : expression is i, k*i, i*k, (n+1)*i ... with non-negative coefficient and offset"""
            e = e.strip()
            if e.k == "DeclRefExpr":
                return e.refdecl == iv
            if e.k == "BinaryOperator" and e.op == "*":
                a, b = e.kids[0].strip(), e.kids[1].strip()
                for x, y in ((a, b), (b, a)):
                    if x.k == "DeclRefExpr" and x.refdecl == iv:
                        return _nonneg_ge1(y)
                return False
            if e.k == "BinaryOperator" and e.op == "+":
                a, b = e.kids[0].strip(), e.kids[1].strip()
                return (affine(a) and _nonneg(b)) or (affine(b) and _nonneg(a))
            return False
        return affine(idx)


def _nonneg(e):
    e = e.strip()
    if e.cv is not None:
        return e.cv >= 0
    return False


def _nonneg_ge1(e):
    e = e.strip()
    if e.cv is not None:
        return e.cv >= 1
    # n + 1, n (dimension parameter guarded by n <= 0 return)
    if e.k == "BinaryOperator" and e.op == "+" and e.kids[1].strip().cv is not None and e.kids[1].strip().cv >= 1 and \
            e.kids[0].strip().k == "DeclRefExpr":
        return True
    if e.k == "DeclRefExpr" and e.refkind == "param":
        return True
    return False


def run(P, tier="quick"):
    R = RuleResult("R34c", "in every vnaconv_* conversion no load through the input matrix follows a store through an output on "
                   "any path (affine zin exception), both reference impedances are read, every 2x2 output element is stored "
                   "exactly once", floor=150)
    nfun = 0
    for f in P.lib_functions():
        if not f.name.startswith("vnaconv_") or f.cfg is None:
            continue
        nfun += 1
        ptr = [p for p in f.params if p.get("ct", p["t"]).endswith("*") or "(*)" in p.get("ct", p["t"])]
        ins = [p for p in ptr if p.get("ct", p["t"]).startswith("const") and p["name"] != "z0"]
        outs = [p for p in ptr if not p.get("ct", p["t"]).startswith("const")]
        z0 = [p for p in ptr if p["name"] == "z0"]
        if len(ins) != 1 or not outs:
            R.unclassified("R34c|%s|%s" % (f.file, f.name), "cannot identify input/output parameters", set(PROPS))
            continue
        tr = AliasTracker(f, ins[0]["decl"], {p["decl"] for p in outs})
        try:
            Engine(f, tr, 100000).run()
        except TooManyStates as e:
            R.unclassified("R34c|%s|%s" % (f.file, f.name), str(e), set(PROPS))
            continue
        key = "R34c|%s|%s|alias" % (f.file, f.name)
        if tr.bad:
            n, kind = tr.bad[0]
            msg = "input '%s' is read at line %d (%s) after an output element has already been written: in-place conversion " \
                  "(input == output) reads its own result" % (ins[0]["name"], n.line, n.text()[:50]) if kind == "load" else \
                  "%s() receives both the input and the output array" % (n.callee or "call")
            R.violated(Finding("R34c", ALIAS_PROPS, f.file, f.name, "alias", msg, n.line))
        else:
            R.ok(key, set(ALIAS_PROPS))
        is2 = "(*)[2]" in ins[0].get("t", "")
        # Z0-BOTH
        if z0:
            zd = z0[0]["decl"]
            idxs = set()
            nonloop = False
            for n in f.walk():
                if n.k == "ArraySubscriptExpr":
                    b = n.kids[0].strip()
                    if b.k == "DeclRefExpr" and b.refdecl == zd:
                        i = n.kids[1].strip()
                        idxs.add(i.cv if i.cv is not None else "var")
            key = "R34d|%s|%s|z0" % (f.file, f.name)
            if is2:
                if {0, 1} <= idxs:
                    R.ok(key, set(PROPS))
                else:
                    R.violated(Finding("R34d", PROPS, f.file, f.name, "z0-both", "2x2 conversion reads z0 elements %s only: "
                                       "both port impedances must be used (unequal reference impedances)" % sorted(map(str, idxs)), f.line))
            else:
                if "var" in idxs and not (idxs - {"var"}):
                    R.ok(key, set(PROPS))
                else:
                    R.violated(Finding("R34d", PROPS, f.file, f.name, "z0-both", "n-port conversion subscripts z0 with %s: every "
                                       "port's own impedance must be used" % sorted(map(str, idxs)), f.line))
        # OUT-ONCE for 2x2 outputs
        if is2:
            for o in outs:
                od = o["decl"]
                counts = {}
                for n in f.walk():
                    if n.k in ("BinaryOperator",) and n.op == "=":
                        l = n.kids[0].strip()
                        bv = base_var(l)
                        if bv is not None and bv.refdecl == od and l.k == "ArraySubscriptExpr":
                            idx = []
                            x = l
                            while x.k == "ArraySubscriptExpr":
                                idx.append(x.kids[1].strip().cv)
                                x = x.kids[0].strip()
                            counts[tuple(reversed(idx))] = counts.get(tuple(reversed(idx)), 0) + 1
                want = {(0, 0), (0, 1), (1, 0), (1, 1)} if "(*)[2]" in o.get("t", "") else {(0,), (1,)}
                key = "R34d|%s|%s|out-once:%s" % (f.file, f.name, o["name"])
                if set(counts) == want and all(v == 1 for v in counts.values()):
                    R.ok(key, set(PROPS))
                else:
                    R.violated(Finding("R34d", PROPS, f.file, f.name, "out-once:" + o["name"],
                                       "output elements stored: %s; every one of %s must be stored exactly once" %
                                       (dict(sorted(counts.items())), sorted(want)), f.line))
    # NO-ALLOC / NO-EARLY-RETURN: the conversions return void and cannot report a failure, so they must not contain a
    # step that can fail (heap allocation) nor leave before the output is written
    for f in P.lib_functions():
        if not f.name.startswith("vnaconv_") or f.body is None:
            continue
        key = "R34d|%s|%s|total" % (f.file, f.name)
        al = [c for c in f.calls() if c.callee in ("malloc", "calloc", "realloc", "strdup")]
        rets = [r for r in f.returns()]
        int_params = {p["decl"] for p in f.params if p.get("ct", p["t"]).replace("const ", "") in ("int", "unsigned int", "size_t")}

        def arg_guard(r):
            """the return is controlled only by tests of integer parameters against constants (`if (n <= 0) return;`)"""
            ifs = [a for a in r.ancestors() if a.k == "IfStmt"]
            for i_ in ifs:
                c = [x for x in i_.kids if x is not None][0]
                for m in c.walk():
                    if m.k == "DeclRefExpr" and m.refkind != "enum" and m.refdecl not in int_params:
                        return False
                    if m.k in ("CallExpr", "MemberExpr", "ArraySubscriptExpr"):
                        return False
            return True
        early = [r for r in rets if f.ret == "void" and any(a.k in ("IfStmt",) for a in r.ancestors()) and not arg_guard(r)]
        if al:
            R.violated(Finding("R34d", PROPS, f.file, f.name, "alloc",
                               "%s() calls %s(): the conversion has no way to report the failure (it returns %s), so on "
                               "allocation failure the output is not what vnaconv(3) defines" % (f.name, al[0].callee, f.ret), al[0].line))
        elif early:
            R.violated(Finding("R34d", PROPS, f.file, f.name, "early-return",
                               "%s() returns early (line %d) from a void conversion: the output is left unwritten on that path" %
                               (f.name, early[0].line), early[0].line))
        else:
            R.ok(key, set(PROPS))
    R.counts["vnaconv_functions"] = nfun
    if nfun < 85:
        from ..facts import AnalysisBroken
        raise AnalysisBroken("only %d vnaconv_* functions found" % nfun)
    R.check_floor()
    return R

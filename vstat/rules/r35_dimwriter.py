"""R35 DIM-WRITER (C15, C05): the logical dimensions of a vnadata_t are changed only by vnadata_resize.

vnadata_alloc.c states the invariant every getter and every later regrow relies on: "cells beyond the current
frequencies, cells or ports values are always filled with initial values".  vnadata_resize is the function that
maintains it (R14 checks that it resets every cell it vacates).  Any other assignment to vd_rows, vd_columns or
vd_frequencies (an increment only exposes cells the invariant already keeps initial) changes the logical extent
without that bookkeeping: lowering a dimension leaves the old contents
in the vacated cells, and a later resize presents them as if they were freshly initialised (C05: "after conversion
to input impedances the object has the dimensions and contents of a freshly built 1 x ports object").
"""
from ..core import Finding, RuleResult
from ..facts import AnalysisBroken

PROPS = ("C15", "C05")
FIELDS = ("vd_rows", "vd_columns", "vd_frequencies")
OWNER = ("vnadata_resize",)


def run(P, tier="quick"):
    R = RuleResult("R35", "vd_rows, vd_columns and vd_frequencies are stored only by vnadata_resize, which re-initialises the cells "
                   "it vacates", floor=3)
    n = 0
    for f in P.all_functions():
        if f.body is None:
            continue
        for m in f.walk():
            tgt = None
            if m.k in ("BinaryOperator", "CompoundAssignOperator") and m.op and m.op.endswith("=") and m.op not in ("==", "!=", "<=", ">="):
                tgt = m.kids[0].strip()
            elif m.k == "UnaryOperator" and m.op in ("++", "--"):
                tgt = m.kids[0].strip()
            if tgt is None or tgt.k != "MemberExpr" or tgt.member not in FIELDS:
                continue
            n += 1
            key = "R35|%s|%s|store:%s#%d" % (f.file, f.name, tgt.member, n)
            grows = (m.k == "UnaryOperator" and m.op == "++") or \
                    (m.k == "CompoundAssignOperator" and m.op == "+=" and (m.kids[1].strip().cv or 0) > 0)
            if f.name in OWNER or grows:
                # raising a dimension exposes cells the invariant already keeps at their initial values
                R.ok(key, PROPS)
            else:
                R.violated(Finding("R35", PROPS, f.file, f.name, "store:" + tgt.member,
                                   "%s() assigns %s directly (`%s`): the logical extent changes without vnadata_resize's "
                                   "re-initialisation of the vacated cells, so a later resize exposes the old contents instead of "
                                   "initial values" % (f.name, tgt.member, m.text()[:60]), m.line))
    R.counts["dimension_stores"] = n
    if n < 3:
        raise AnalysisBroken("R35: only %d stores to the vnadata dimensions found (vnadata_resize has 3)" % n)
    R.check_floor()
    return R

"""R36 AVERAGE-PAIR (C01): the numerator and the divisor of an average are accumulated under the same conditions.

Instances are discovered from the code: every division `X->f / X->g` (same object, g an integer member) makes
(f, g) an accumulator pair.  For each pair, every `X->f += ...` site and every `++X->g` / `X->g += ...` site in the
library is collected with its *guard signature*: the set of structure members tested by the conditions that
control the site (enclosing if conditions and the early-exit tests `if (c) continue/return/break/goto` that precede
it in the enclosing blocks, with single-definition locals expanded).  The pair is consistent when the numerator
sites and the divisor sites carry the same multiset of signatures: a sample that is skipped when summing (for
example a measurement cell that was not supplied) must be skipped when counting, wherever the counting is done.

Decides a necessary condition of "the outside leakage terms are the mean of the contributing measurements"
(vnlt_sum / vnlt_count in vnacal_new_solve.c); says nothing about which samples ought to contribute.
"""
import re
from ..core import Finding, RuleResult
from ..facts import AnalysisBroken
from ..canon import Canon

PROPS = ("C01",)
EXITS = ("ContinueStmt", "ReturnStmt", "BreakStmt", "GotoStmt")


def only_exits(s):
    if s is None:
        return False
    if s.k in EXITS:
        return True
    if s.k == "CompoundStmt":
        return bool(s.kids) and s.kids[-1] is not None and s.kids[-1].k in EXITS
    return False


def guards_of(n, cn):
    """members tested by the conditions controlling node n"""
    mem = set()
    texts = []
    child = n
    for a in n.ancestors():
        if a.k == "IfStmt":
            kids = [x for x in a.kids if x is not None]
            if child is not kids[0]:
                texts.append(cn.path(kids[0]))
        elif a.k == "CompoundStmt":
            for sib in a.kids:
                if sib is child:
                    break
                if sib is not None and sib.k == "IfStmt":
                    kids = [x for x in sib.kids if x is not None]
                    if len(kids) == 2 and only_exits(kids[1]):
                        texts.append(cn.path(kids[0]))
        elif a.k in ("ForStmt", "WhileStmt"):
            pass
        child = a
    for t in texts:
        for m in re.findall(r"(?:->|\.)([A-Za-z_]\w*)", t):
            mem.add(m)
    return frozenset(mem), texts


def run(P, tier="quick"):
    R = RuleResult("R36", "for every average X->sum / X->count in the library, the sites that add to the sum and the sites that "
                   "increment the count are controlled by tests of the same structure members", floor=1)
    pairs = {}
    for f in P.lib_functions():
        if f.body is None:
            continue
        for n in f.walk():
            if n.k == "BinaryOperator" and n.op == "/":
                a, b = n.kids[0].strip(), n.kids[1].strip()
                if a.k == "MemberExpr" and b.k == "MemberExpr" and a.kids[0].text() == b.kids[0].text() and \
                        (b.ctype or "").replace("const ", "") in ("int", "unsigned int", "long", "size_t"):
                    pairs.setdefault((a.member, b.member), []).append((f, n))
    if not pairs:
        raise AnalysisBroken("R36: no `X->sum / X->count` average found (vnlt_sum / vnlt_count expected)")
    for (fs, fc), divs in sorted(pairs.items()):
        acc, inc = [], []
        for f in P.lib_functions():
            if f.body is None:
                continue
            cn = None
            for n in f.walk():
                tgt = None
                if n.k == "CompoundAssignOperator" and n.op == "+=":
                    tgt = n.kids[0].strip()
                elif n.k == "UnaryOperator" and n.op == "++":
                    tgt = n.kids[0].strip()
                if tgt is None or tgt.k != "MemberExpr" or tgt.member not in (fs, fc):
                    continue
                cn = cn or Canon(f)
                sig, texts = guards_of(n, cn)
                (acc if tgt.member == fs else inc).append((f, n, sig, texts))
        d0f, d0n = divs[0]
        key = "R36|%s|%s|pair:%s/%s" % (d0f.file, d0f.name, fs, fc)
        if not acc or not inc:
            raise AnalysisBroken("R36: %s/%s is divided in %s but %s is never accumulated" % (fs, fc, d0f.name, fs if not acc else fc))
        sa = sorted(sorted(s) for (_, _, s, _) in acc)
        si = sorted(sorted(s) for (_, _, s, _) in inc)
        R.counts["pairs"] = R.counts.get("pairs", 0) + 1
        R.counts["sites"] = R.counts.get("sites", 0) + len(acc) + len(inc)
        if sa == si:
            R.ok(key, PROPS)
        else:
            fa, na, sga, _ = acc[0]
            fi, ni, sgi, _ = inc[0]
            only_sum = sorted(set().union(*[s for (_, _, s, _) in acc]) - set().union(*[s for (_, _, s, _) in inc]))
            only_cnt = sorted(set().union(*[s for (_, _, s, _) in inc]) - set().union(*[s for (_, _, s, _) in acc]))
            R.violated(Finding("R36", PROPS, fi.file, fi.name, "pair:%s/%s" % (fs, fc),
                               "%s (added to at %s:%d) and its divisor %s (incremented at %s:%d) are not accumulated under the same "
                               "conditions: only the sum is guarded by tests of {%s}, only the count by tests of {%s}; the average "
                               "%s/%s at %s:%d is then wrong whenever those tests differ" %
                               (fs, fa.file, na.line, fc, fi.file, ni.line, ", ".join(only_sum) or "-", ", ".join(only_cnt) or "-",
                                fs, fc, d0f.file, d0n.line), ni.line))
    R.check_floor()
    return R

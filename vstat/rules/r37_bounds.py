"""R37 STATED-BOUND and FREQ-NONNEG (C11, C02, C08): an argument test refuses exactly what its own message says.

STATED   A refusal is an `if (cond)` whose body reports a usage error (VNAERR_USAGE report or errno = EINVAL)
         and leaves.  When the message of that report states the bound - "at least N" / "at least one",
         "must be positive", "nonnegative" / "non-negative", "ascending" - every comparison of the condition that
         tests an argument against a number (or two neighbouring elements against each other) must refuse exactly
         the complement of the stated set:
             at least N     refuse  x < N        (for integers x <= N-1 is the same test)
             positive       refuse  x <= 0
             nonnegative    refuse  x < 0
             ascending      refuse  v[i] >= v[i+1]   (equal neighbours are refused)
         `!(x > c)` is read as x <= c and `!(x >= c)` as x < c (NaN aside), operands may be written in either
         order.  The code states one belief in the message and another in the test: one of them is wrong, and the
         value in between (N itself, zero) is either refused although legal or accepted although illegal.
FREQ     Sibling agreement: every refusal of a frequency argument or element (a double whose name contains
         "frequenc") against the constant 0 refuses negative values only; DC (0 Hz) is a legal frequency for every
         entry point that validates frequencies (5 sites, unanimous on the unchanged tree, confirmed by reading).
"""
import re
from ..core import Finding, RuleResult
from ..facts import AnalysisBroken
from ..canon import Canon

SITE_PROPS = {"vnacal_new_set_iteration_limit": ("C02", "C11"), "vnadata_add_frequency": ("C08", "C11")}
DEFAULT_PROPS = ("C11",)
REPORTERS = ("_vnacal_error", "_vnadata_error")
FLIP = {"<": ">", ">": "<", "<=": ">=", ">=": "<="}
NEG = {"<": ">=", ">": "<=", "<=": ">", ">=": "<"}


def top(s):
    """the statements executed unconditionally when the branch is taken"""
    return [x for x in s.kids if x is not None] if s.k == "CompoundStmt" else [s]


def leaves(s):
    return any(n.k in ("ReturnStmt", "GotoStmt") for n in top(s))


def usage_report(s):
    """(is usage refusal, message text)"""
    msg = []
    usage = False
    for t in top(s):
      for n in ([] if t.k in ("IfStmt", "ForStmt", "WhileStmt", "SwitchStmt", "DoStmt") else t.walk()):
        if n.k == "CallExpr" and n.callee in REPORTERS:
            a = n.args()
            if len(a) >= 2 and "VNAERR_USAGE" in (a[1].strip().refname or a[1].text()):
                usage = True
                for m in n.walk():
                    if m.k == "StringLiteral":
                        msg.append(str(m.val))
    return usage, " ".join(msg)


def split_or(e):
    e = e.strip()
    if e.k == "BinaryOperator" and e.op == "||":
        return split_or(e.kids[0]) + split_or(e.kids[1])
    return [e]


def number(n):
    n = n.strip()
    if n.k in ("IntegerLiteral", "FloatingLiteral"):
        return n.val
    if n.k == "UnaryOperator" and n.op == "-" and n.kids[0].strip().k in ("IntegerLiteral", "FloatingLiteral"):
        return -n.kids[0].strip().val
    return None


def normalise(c):
    """-> (subject node, op, constant) for `subject op constant`; or ('pair', lo, op, hi) for neighbours; or None"""
    c = c.strip()
    neg = False
    while c.k == "UnaryOperator" and c.op == "!":
        neg = not neg
        c = c.kids[0].strip()
    if c.k != "BinaryOperator" or c.op not in FLIP:
        return None
    a, b, op = c.kids[0].strip(), c.kids[1].strip(), c.op
    if neg:
        op = NEG[op]
    if number(b) is not None and number(a) is None:
        return (a, op, number(b))
    if number(a) is not None and number(b) is None:
        return (b, FLIP[op], number(a))
    # neighbouring elements of one vector
    if a.k == "ArraySubscriptExpr" and b.k == "ArraySubscriptExpr" and a.kids[0].text() == b.kids[0].text():
        ia, ib = a.kids[1].strip(), b.kids[1].strip()

        def off(i):
            if i.k == "BinaryOperator" and i.op in ("+", "-") and number(i.kids[1]) is not None:
                return i.kids[0].text(), (number(i.kids[1]) if i.op == "+" else -number(i.kids[1]))
            return i.text(), 0
        (ba, oa), (bb, ob) = off(ia), off(ib)
        if ba == bb and abs(oa - ob) == 1:
            return ("pair", a, op, b) if oa < ob else ("pair", b, FLIP[op], a)
    return None


def is_int(n):
    t = (n.ctype or "").replace("const ", "")
    return t in ("int", "unsigned int", "long", "size_t", "unsigned long", "short", "char")


def refuses_below(op, k, integer, N):
    """does `x op k` refuse exactly x < N ?"""
    if op == "<" and k == N:
        return True
    if integer and op == "<=" and k == N - 1:
        return True
    return False


def run(P, tier="quick"):
    R = RuleResult("R37", "argument refusals whose message states the bound (at least N, positive, nonnegative, ascending) test exactly "
                   "that bound; every refusal of a frequency against 0 refuses negatives only", floor=14)
    nstated = nfreq = 0
    for f in P.all_functions():
        if f.body is None:
            continue
        idx = {}
        for n in f.walk():
            if n.k != "IfStmt":
                continue
            kids = [x for x in n.kids if x is not None]
            if len(kids) < 2 or not leaves(kids[1]):
                continue
            usage, msg = usage_report(kids[1])
            einval = any(m.k == "BinaryOperator" and m.op == "=" and m.kids[0].strip().refname == "errno"
                         for t in top(kids[1]) if t.k not in ("IfStmt", "ForStmt", "WhileStmt", "SwitchStmt") for m in t.walk())
            if not usage and not einval:
                continue
            props = SITE_PROPS.get(f.name, DEFAULT_PROPS)
            low = msg.lower()
            want = None
            m = re.search(r"at least (one|\d+)", low)
            if m:
                want = ("atleast", 1 if m.group(1) == "one" else int(m.group(1)))
            elif re.search(r"must be positive", low):
                want = ("positive", 0)
            elif re.search(r"non-?negative", low):
                want = ("nonneg", 0)
            elif "ascending" in low:
                want = ("ascending", 0)
            for c in split_or(kids[0]):
                nz = normalise(c)
                if nz is None:
                    continue
                # ---- FREQ
                if nz[0] != "pair":
                    subj, op, k = nz
                    stxt = subj.text()
                    if k == 0 and ("frequenc" in stxt or "frequenc" in low) and (subj.ctype or "").replace("const ", "") == "double":
                        nfreq += 1
                        i = idx[f.name] = idx.get(f.name, 0) + 1
                        key = "R37|%s|%s|freq-nonneg#%d" % (f.file, f.name, i)
                        if op == "<":
                            R.ok(key, props)
                        else:
                            R.violated(Finding("R37", props, f.file, f.name, "freq-nonneg#%d" % i,
                                               "`%s` refuses %s %s 0: every other entry point that validates a frequency refuses negative "
                                               "values only, 0 Hz (DC) is a legal frequency" % (c.text(), stxt, op), c.line))
                if want is None:
                    continue
                kind, N = want
                nstated += 1
                i = idx[f.name + "/s"] = idx.get(f.name + "/s", 0) + 1
                anchor = "stated:%s#%d" % (kind, i)
                key = "R37|%s|%s|%s" % (f.file, f.name, anchor)
                if kind == "ascending":
                    if nz[0] != "pair":
                        nstated -= 1
                        continue
                    _, lo, op, hi = nz
                    if op == ">=":
                        R.ok(key, props)
                    else:
                        R.violated(Finding("R37", props, f.file, f.name, anchor, "message says the values must be ascending but `%s` "
                                           "refuses only %s %s %s" % (c.text(), lo.text(), op, hi.text()), c.line))
                    continue
                if nz[0] == "pair":
                    nstated -= 1
                    continue
                subj, op, k = nz
                integer = is_int(subj)
                if kind == "atleast":
                    ok = refuses_below(op, k, integer, N)
                    says = "at least %d" % N
                    should = "%s < %d" % (subj.text(), N)
                elif kind == "positive":
                    ok = (op == "<=" and k == 0) or (integer and op == "<" and k == 1)
                    says = "positive"
                    should = "%s <= 0" % subj.text()
                else:
                    ok = refuses_below(op, k, integer, 0)
                    says = "nonnegative"
                    should = "%s < 0" % subj.text()
                if ok:
                    R.ok(key, props)
                else:
                    R.violated(Finding("R37", props, f.file, f.name, anchor,
                                       "the message says the argument must be %s, the test `%s` refuses %s %s %s (the stated bound is "
                                       "refused by `%s`): the boundary value is treated differently from what the report tells the user" %
                                       (says, c.text(), subj.text(), op, k, should), c.line))
    # PRECISION-RANGE: "precision in decimal places (1..n) or *_MAX_PRECISION": every function that stores a caller- or
    # file-supplied value into a *_fprecision / *_dprecision member refuses both values below 1 and values above
    # *_MAX_PRECISION before the store (setters and loaders are siblings: what one accepts the other must accept; the
    # savers size their buffers from the precision)
    nprec = 0
    for f in P.all_functions():
        if f.body is None:
            continue
        for n in f.walk():
            if n.k != "BinaryOperator" or n.op != "=":
                continue
            l, r = n.kids[0].strip(), n.kids[1].strip()
            if l.k != "MemberExpr" or not re.search(r"_[fd]precision$", l.member or "") or r.k != "DeclRefExpr" or \
                    r.refkind not in ("param", "local"):
                continue
            nprec += 1
            low = high = False
            for t in f.walk():
                if t.k == "BinaryOperator" and t.op in ("<", "<=", ">", ">="):
                    nz = normalise(t)
                    if nz is None or nz[0] == "pair":
                        continue
                    subj, op, k_ = nz
                    if subj.k == "DeclRefExpr" and subj.refdecl == r.refdecl and t.line < n.line:
                        if refuses_below(op, k_, True, 1):
                            low = True
                        other = [x.strip() for x in t.kids if x.strip() is not subj]
                        if op in (">", ">=") and any("MAX_PRECISION" in " ".join(x.macros) for o in other for x in o.walk()):
                            high = True
            props = ("C07", "C11") if "vnacal" in f.name or "vc_" in l.member else ("C06", "C11")
            if f.file == "vnadata_load_npd.c":
                props = ("C06", "C09")
            key = "R37|%s|%s|precision-range:%s" % (f.file, f.name, l.member)
            if low and high:
                R.ok(key, props)
            else:
                R.violated(Finding("R37", props, f.file, f.name, "precision-range:" + l.member,
                                   "%s is stored into %s after refusing %s: the documented range is 1..*_MAX_PRECISION, and a value the "
                                   "setter accepts but the loader refuses (or the reverse) cannot be saved and re-loaded; the savers "
                                   "size stack buffers from it" %
                                   (r.refname, l.member, "only values below 1" if low else ("only values above the maximum" if high else "nothing")),
                                   n.line))
    R.counts["precision_stores"] = nprec
    if nprec < 4:
        raise AnalysisBroken("R37: only %d stores of a caller-supplied precision found (6 confirmed by hand)" % nprec)
    # STATED-CLASS: a report that says "unsupported version" is a VNAERR_VERSION report
    nver = 0
    for f in P.all_functions():
        if f.body is None:
            continue
        for c in f.calls():
            if c.callee not in REPORTERS or len(c.args()) < 3:
                continue
            text = " ".join(str(m.val) for m in c.walk() if m.k == "StringLiteral").lower()
            if "unsupported version" in text or "unsupported file version" in text:
                nver += 1
                cat = c.args()[1].strip()
                name = cat.refname or cat.text()
                key = "R37|%s|%s|version-class#%d" % (f.file, f.name, nver)
                if name == "VNAERR_VERSION":
                    R.ok(key, ("C09", "C11"))
                else:
                    R.violated(Finding("R37", ("C09", "C11"), f.file, f.name, "version-class",
                                       "the report \"%s\" is made with category %s: an unsupported file version is documented as "
                                       "VNAERR_VERSION (errno ENOPROTOOPT), not a syntax error" % (text[:50], name), c.line))
    R.counts["version_reports"] = nver
    R.counts["stated_bound_tests"] = nstated
    R.counts["frequency_zero_tests"] = nfreq
    if nfreq < 4:
        raise AnalysisBroken("R37: only %d frequency-vs-0 refusals found (5 confirmed by hand)" % nfreq)
    R.check_floor()
    return R

"""R38 PRECISION-THROUGH (C07, C06): the number of digits printed follows the configured precision, unclamped.

"error terms equal to the saved precision ... for every precision value the setters accept" needs, as a structural
necessary condition, that the precision argument of every `%.*e` / `%.*f` / `%.*g` conversion in the savers is
the configured precision minus a constant for every precision above a small lower clamp: a saver that prints
min(precision, K) digits silently drops the digits the caller asked for.

For each such conversion in vnacal_save.c and vnadata_save.c the `*` argument is taken as an integer function of
the atoms it mentions (parameters, locals that are not single-definition, object fields; single-definition
locals are expanded).  The function must have exactly one atom, and f(P+1) - f(P) == 1 for every P in 3..64
(lower clamps such as MAX(precision, 1) or MAX(dprecision, 3) keep that; an upper clamp breaks it).  When the
atom is a parameter of a static helper, the same is required of the argument at each of its call sites, until an
object field (vc_dprecision, vc_fprecision, vdi_dprecision, vdi_fprecision) is reached.
Only integer arithmetic on the extracted expression is done; nothing is formatted.
"""
import re
from ..core import Finding, RuleResult
from ..facts import AnalysisBroken
from ..canon import Canon

FILES = {"vnacal_save.c": ("C07",), "vnadata_save.c": ("C06",)}
PRINTF = {"sprintf": 1, "fprintf": 1, "snprintf": 2, "printf": 0}
FIELDS = ("vc_dprecision", "vc_fprecision", "vdi_dprecision", "vdi_fprecision")


class NotInt(Exception):
    pass


def atoms(e, cn, out, depth=0):
    e = e.strip()
    if e.k == "DeclRefExpr":
        if e.refkind == "enum":
            return
        sd = cn.single_def(e.refdecl) if (e.refkind == "local" and depth < 6) else None
        if sd is not None:
            atoms(sd, cn, out, depth + 1)
        else:
            out[("var", e.refdecl)] = e
        return
    if e.k == "MemberExpr":
        out[("mem", e.member)] = e
        return
    for k in e.kids:
        if k is not None:
            atoms(k, cn, out, depth)


def ev(e, cn, P, depth=0):
    e = e.strip()
    k = e.k
    if k == "IntegerLiteral":
        return e.val
    if k == "DeclRefExpr":
        if e.refkind == "enum":
            return e.ref["val"]
        sd = cn.single_def(e.refdecl) if (e.refkind == "local" and depth < 6) else None
        if sd is not None:
            return ev(sd, cn, P, depth + 1)
        return P
    if k == "MemberExpr":
        return P
    if k == "UnaryOperator":
        a = ev(e.kids[0], cn, P, depth)
        if e.op == "-":
            return -a
        if e.op == "+":
            return a
        if e.op == "!":
            return int(not a)
        raise NotInt(e.text())
    if k == "BinaryOperator":
        a, b = ev(e.kids[0], cn, P, depth), ev(e.kids[1], cn, P, depth)
        op = e.op
        if op == "+": return a + b
        if op == "-": return a - b
        if op == "*": return a * b
        if op == "/" and b: return int(a / b)
        if op == "<": return int(a < b)
        if op == "<=": return int(a <= b)
        if op == ">": return int(a > b)
        if op == ">=": return int(a >= b)
        if op == "==": return int(a == b)
        if op == "!=": return int(a != b)
        if op == "&&": return int(bool(a) and bool(b))
        if op == "||": return int(bool(a) or bool(b))
        raise NotInt(e.text())
    if k == "ConditionalOperator":
        return ev(e.kids[1], cn, P, depth) if ev(e.kids[0], cn, P, depth) else ev(e.kids[2], cn, P, depth)
    if e.cv is not None:
        return e.cv
    raise NotInt(e.text())


def star_args(call):
    """the `*` precision arguments of %.*[efg] conversions of a printf-family call"""
    pos = PRINTF.get(call.callee)
    a = call.args()
    if pos is None or len(a) <= pos:
        return []
    fm = a[pos].strip()
    if fm.k != "StringLiteral":
        return []
    out = []
    argi = pos + 1
    for m in re.finditer(r"%([-+ #0]*)(\*|\d+)?(?:\.(\*|\d+))?(hh|h|ll|l|L|z|j|t)?([a-zA-Z%])", str(fm.val)):
        flags, width, prec, _, conv = m.groups()
        if conv == "%":
            continue
        if width == "*":
            argi += 1
        if prec == "*":
            if conv in "efgEFG" and argi < len(a):
                out.append(a[argi])
            argi += 1
        argi += 1
    return out


def slope_one(e, cn):
    try:
        vals = [ev(e, cn, P) for P in range(3, 66)]
    except NotInt as x:
        return None, "not an integer expression: %s" % x
    for i in range(len(vals) - 1):
        if vals[i + 1] - vals[i] != 1:
            return False, "precision %d prints %d digits after the point, precision %d prints %d" % (3 + i, vals[i], 4 + i, vals[i + 1])
    return True, ""


def run(P, tier="quick"):
    R = RuleResult("R38", "the `*` precision of every %.*e/%.*f/%.*g in the savers is the configured precision minus a constant "
                   "(slope one for every precision >= 3), followed through helper parameters to the object field", floor=5)
    callers = P.callers()
    nsites = 0
    for f in P.lib_functions():
        if f.file not in FILES or f.body is None:
            continue
        props = FILES[f.file]
        cn = Canon(f)
        per = 0
        for c in f.calls():
            for e in star_args(c):
                nsites += 1
                per += 1
                anchor = "star#%d" % per
                key = "R38|%s|%s|%s" % (f.file, f.name, anchor)
                at = {}
                atoms(e, cn, at)
                if len(at) != 1:
                    R.unclassified(key, "precision argument `%s` depends on %d quantities" % (e.text(), len(at)), props)
                    continue
                ok, why = slope_one(e, cn)
                if ok is None:
                    R.unclassified(key, why, props)
                    continue
                if not ok:
                    R.violated(Finding("R38", props, f.file, f.name, anchor, "the precision argument `%s` of %s() does not follow the "
                                       "configured precision: %s; digits the caller asked for are not written" %
                                       (e.text(), c.callee, why), c.line))
                    continue
                (kind, ident), node = list(at.items())[0]
                # the atom itself must reach the conversion unmodified: an assignment in front of the call that is not a
                # lower clamp (`if (p < K) p = K`) caps or replaces the digits the caller asked for
                if kind == "var":
                    clamp = None
                    for m in f.walk():
                        if m.k in ("BinaryOperator", "CompoundAssignOperator") and m.op and m.op.endswith("=") and \
                                m.op not in ("==", "!=", "<=", ">=") and m.kids[0].strip().k == "DeclRefExpr" and \
                                m.kids[0].strip().refdecl == ident and m.line <= c.line:
                            lower = False
                            for a_ in m.ancestors():
                                if a_.k == "IfStmt":
                                    c0 = [z for z in a_.kids if z is not None][0].strip()
                                    if c0.k == "BinaryOperator" and c0.op in ("<", "<=") and c0.kids[0].strip().k == "DeclRefExpr" and \
                                            c0.kids[0].strip().refdecl == ident:
                                        lower = True
                                    break
                            if not lower:
                                clamp = m
                    if clamp is not None:
                        R.violated(Finding("R38", props, f.file, f.name, anchor,
                                           "the precision `%s` of %s() is assigned at line %d (`%s`) before it is used: the digits the "
                                           "caller configured are capped or replaced" % (e.text(), c.callee, clamp.line, clamp.text()[:40]),
                                           c.line))
                        continue
                # follow a parameter to the callers
                bad = None
                seen = set()
                work = [(f, kind, ident, node)]
                reached_field = False
                while work and bad is None:
                    g, kind, ident, node = work.pop()
                    if kind == "mem":
                        reached_field = reached_field or ident in FIELDS
                        continue
                    if node.refkind != "param":
                        continue
                    pi = g.param_index(node.refname)
                    if pi is None or (g.key(), pi) in seen:
                        continue
                    seen.add((g.key(), pi))
                    for (h, call) in callers.get(g.key(), []):
                        args = call.args()
                        if pi >= len(args):
                            continue
                        hc = Canon(h)
                        at2 = {}
                        atoms(args[pi], hc, at2)
                        if len(at2) != 1:
                            continue
                        ok2, why2 = slope_one(args[pi], hc)
                        if ok2 is False:
                            bad = (h, call, args[pi], why2)
                            break
                        (k2, i2), n2 = list(at2.items())[0]
                        work.append((h, k2, i2, n2))
                if bad is not None:
                    h, call, arg, why2 = bad
                    R.violated(Finding("R38", props, h.file, h.name, "arg:" + f.name, "the precision passed to %s() as `%s` does not "
                                       "follow the configured precision: %s" % (call.callee, arg.text(), why2), call.line))
                else:
                    R.ok(key, props)
    R.counts["star_conversions"] = nsites
    if nsites < 5:
        raise AnalysisBroken("R38: only %d %%.*e conversions found in the savers (6 confirmed by hand)" % nsites)
    R.check_floor()
    return R

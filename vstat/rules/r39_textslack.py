"""R39 TEXT-SLACK (C09, C03): a growable text buffer keeps the byte its terminator needs.

Instances are discovered: an *append site* is a store  S->T[S->L++] = c  (T a char* member, L an integer
member of the same object) preceded in the same function by a *grow guard*  if (L + k >= A) { realloc T; A = ... }.
After the append the object satisfies  L <= A - k.  A *terminator site* is a store  S->T[S->L] = x  that does
not advance L and has no grow guard of its own (end_text writing the NUL): it needs  L < A, i.e. k >= 1 at every
append site of the same buffer.  When no terminator site exists (the NPD scanner appends its NULs through
add_char) k >= 0 is enough.  Two sites that each look fine alone; the contract between them is what is checked.
The guard is normalised from any of  L + k >= A,  L >= A - k,  L + k > A (k-1),  A <= L + k ...
"""
from ..core import Finding, RuleResult
from ..facts import AnalysisBroken

PROPS = ("C09", "C03")
FLIP = {"<": ">", ">": "<", "<=": ">=", ">=": "<="}


def member_of(e):
    e = e.strip()
    return e.member if e.k == "MemberExpr" else None


def lin(e, L):
    """e == L + k  ->  k ; else None"""
    e = e.strip()
    if member_of(e) == L:
        return 0
    if e.k == "BinaryOperator" and e.op in ("+", "-"):
        a, b = e.kids[0].strip(), e.kids[1].strip()
        if member_of(a) == L and b.k == "IntegerLiteral":
            return b.val if e.op == "+" else -b.val
        if e.op == "+" and member_of(b) == L and a.k == "IntegerLiteral":
            return a.val
    return None


def guard_slack(cond, L):
    """grow when cond; returns (k, allocation member) such that the grow happens iff L + k >= A"""
    c = cond.strip()
    if c.k != "BinaryOperator" or c.op not in FLIP:
        return None
    a, b, op = c.kids[0], c.kids[1], c.op
    for (x, y, o) in ((a, b, op), (b, a, FLIP[op])):
        kx = lin(x, L)
        if kx is None:
            continue
        # y == A - j
        ys = y.strip()
        A, j = member_of(ys), 0
        if A is None and ys.k == "BinaryOperator" and ys.op in ("-", "+") and member_of(ys.kids[0]) and \
                ys.kids[1].strip().k == "IntegerLiteral":
            A = member_of(ys.kids[0])
            j = ys.kids[1].strip().val if ys.op == "-" else -ys.kids[1].strip().val
        if A is None:
            continue
        k = kx + j
        if o == ">=":
            return k, A
        if o == ">":
            return k - 1, A
        return None
    return None


def run(P, tier="quick"):
    R = RuleResult("R39", "every append to a growable text buffer leaves room for the terminator that another function stores at "
                   "text[length] without growing", floor=2)
    for file in sorted(P.by_file):
        if not file.endswith(".c"):
            continue
        appends, terms = [], []
        for f in P.by_file[file]:
            if f.body is None:
                continue
            for n in f.walk():
                if n.k != "BinaryOperator" or n.op != "=":
                    continue
                l = n.kids[0].strip()
                if l.k != "ArraySubscriptExpr":
                    continue
                T = member_of(l.kids[0])
                if T is None or "char" not in (l.kids[0].strip().ctype or ""):
                    continue
                i = l.kids[1].strip()
                if i.k == "UnaryOperator" and i.op == "++" and i.get("postfix") and member_of(i.kids[0]):
                    appends.append((f, n, T, member_of(i.kids[0])))
                elif member_of(i):
                    terms.append((f, n, T, member_of(i)))
        for (f, n, T, L) in appends:
            # grow guard: an if before the store, in the same function, comparing L with an allocation member and reallocating
            best = None
            for g in f.walk():
                if g.k == "IfStmt" and g.line <= n.line and not g.is_ancestor_of(n):
                    kids = [x for x in g.kids if x is not None]
                    gs = guard_slack(kids[0], L)
                    if gs is None:
                        continue
                    if any(c.callee == "realloc" for c in kids[1].calls()):
                        best = (gs, g)
            key = "R39|%s|%s|append:%s" % (file, f.name, T)
            if best is None:
                R.unclassified(key, "no grow guard recognised before the append", PROPS)
                continue
            (k, A), g = best
            need = [(tf, tn) for (tf, tn, tT, tL) in terms if tT == T and tL == L and tf is not f and not any(
                x.k == "IfStmt" and guard_slack([y for y in x.kids if y is not None][0], L) for x in tf.walk())]
            R.counts["append_sites"] = R.counts.get("append_sites", 0) + 1
            R.counts["terminator_sites"] = R.counts.get("terminator_sites", 0) + len(need)
            kmin = 1 if need else 0
            if k >= kmin:
                R.ok(key, PROPS)
            else:
                tf, tn = need[0]
                R.violated(Finding("R39", PROPS, file, f.name, "append:" + T,
                                   "the buffer grows only when %s + %d >= %s, so after `%s` %s can equal %s; %s() then stores "
                                   "`%s` (line %d) one byte past the allocation" %
                                   (L, k, A, n.text(), L, A, tf.name, tn.text(), tn.line), g.line))
    if R.counts.get("append_sites", 0) < 2:
        raise AnalysisBroken("R39: %d append sites found (Touchstone and NPD add_char expected)" % R.counts.get("append_sites", 0))
    if R.counts.get("terminator_sites", 0) < 1:
        raise AnalysisBroken("R39: no unguarded terminator store found (end_text in vnadata_load_touchstone.c expected)")
    R.check_floor()
    return R

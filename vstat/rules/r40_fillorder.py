"""R40 FILL-ORDER (C07): matrices read from a calibration file are stored row-major, like the saver writes them.

In vnacal_load.c every loop nest that walks the rows of a YAML sequence and, inside, the columns of each row
stores element (row, column) at cell row * columns + column of the destination (the layout every consumer of
the error-term matrices and vnacal_save use).  The destination cell is accepted when it is
  counter   an integer initialised to 0 before the outer loop and incremented inside the inner loop, or
  formula   A * E + B where A is (derived from) the outer loop's position and B the inner loop's position.
A formula with the roles exchanged (column * rows + row) transposes every non-square or non-symmetric matrix
of the older file versions, which have no saver to be mirrored against (R27 covers the current version).
"""
from ..core import Finding, RuleResult
from ..facts import AnalysisBroken

PROPS = ("C07",)
FILE = "vnacal_load.c"


def loop_var(loop):
    init = loop.kids[0]
    if init is None:
        return None
    if init.k == "DeclStmt":
        for v in init.kids:
            if v.k == "VarDecl":
                return v.get("decl")
        return None
    s = init.strip()
    if s.k == "BinaryOperator" and s.op == "=" and s.kids[0].strip().k == "DeclRefExpr":
        return s.kids[0].strip().refdecl
    return None


def is_item_loop(loop):
    cond = loop.kids[2]
    return cond is not None and ".items.top" in cond.text().replace("->", ".").replace(" ", "")


def derived(e, lv, body):
    """does expression e depend only on loop variable lv (directly or through a local declared in body as lv - start)?"""
    for m in e.walk():
        if m.k == "DeclRefExpr" and m.refkind == "local":
            if m.refdecl == lv:
                return True
            for v in body.walk():
                if v.k == "VarDecl" and v.get("decl") == m.refdecl and v.kids and \
                        any(x.k == "DeclRefExpr" and x.refdecl == lv for x in v.kids[0].walk()):
                    return True
    return False


def run(P, tier="quick"):
    R = RuleResult("R40", "row/column loop nests of vnacal_load.c fill their destination in row-major order (running counter, or "
                   "outer * extent + inner)", floor=2)
    n_nests = 0
    for f in P.by_file.get(FILE, []):
        if f.body is None:
            continue
        loops = [n for n in f.walk() if n.k == "ForStmt" and is_item_loop(n)]

        def innermost(node):
            best = None
            for l in loops:
                if l.is_ancestor_of(node) and (best is None or best.is_ancestor_of(l)):
                    best = l
            return best

        def parent_loop(l):
            best = None
            for m in loops:
                if m is not l and m.is_ancestor_of(l) and (best is None or best.is_ancestor_of(m)):
                    best = m
            return best
        # destination-cell variables by role (not by name): an int local used as a subscript inside a nested item loop
        # that is either a running counter (declared outside every item loop, incremented inside a nested one) or is
        # computed inside the inner loop from the positions of both loops
        cands = {}
        for s_ in f.walk():
            if s_.k == "ArraySubscriptExpr" and innermost(s_) is not None and parent_loop(innermost(s_)) is not None:
                i = s_.kids[1].strip()
                if i.k == "UnaryOperator" and i.op == "++":
                    i = i.kids[0].strip()
                if not (i.k == "DeclRefExpr" and i.refkind == "local" and (i.ctype or "").replace("const ", "") == "int"):
                    continue
                vds_ = [v for v in f.walk() if v.k == "VarDecl" and v.get("decl") == i.refdecl]
                if not vds_:
                    continue
                vd_ = vds_[0]
                if innermost(vd_) is None:
                    if any(m.k == "UnaryOperator" and m.op == "++" and m.kids[0].strip().refdecl == i.refdecl and
                           innermost(m) is not None for m in f.walk()):
                        cands[i.refdecl] = i
                elif vd_.kids:
                    li_, lo_ = innermost(vd_), parent_loop(innermost(vd_))
                    if lo_ is not None and derived(vd_.kids[0], loop_var(li_), li_) and derived(vd_.kids[0], loop_var(lo_), lo_):
                        cands[i.refdecl] = i
        for decl, ref in cands.items():
            key = "R40|%s|%s|fill:%s" % (FILE, f.name, ref.refname)
            vds = [v for v in f.walk() if v.k == "VarDecl" and v.get("decl") == decl]
            if not vds:
                continue
            vd = vds[0]
            n_nests += 1
            if innermost(vd) is None:
                # counter form
                zero = bool(vd.kids) and vd.kids[0].strip().cv == 0
                incs = [m for m in f.walk() if m.k == "UnaryOperator" and m.op == "++" and m.kids[0].strip().refdecl == decl]
                other = [m for m in f.walk() if m.k in ("BinaryOperator", "CompoundAssignOperator") and m.op and m.op.endswith("=")
                         and m.op not in ("==", "!=", "<=", ">=") and m.kids[0].strip().refdecl == decl]
                li = innermost(incs[0]) if len(incs) == 1 else None
                lo = parent_loop(li) if li is not None else None
                if zero and li is not None and lo is not None and parent_loop(lo) is None and not other:
                    R.ok(key, PROPS)
                else:
                    R.violated(Finding("R40", PROPS, FILE, f.name, "fill:" + ref.refname,
                                       "the running cell counter %s must start at 0 before the row loop and be incremented exactly "
                                       "once per column (inside the column loop of the row loop)" % ref.refname, vd.line))
                continue
            inner = innermost(vd)
            outer = parent_loop(inner)
            if outer is None:
                R.unclassified(key, "cell computed in a single loop", PROPS)
                continue
            lo, li = loop_var(outer), loop_var(inner)
            e = vd.kids[0].strip() if vd.kids else None
            ok = False
            if e is not None and e.k == "BinaryOperator" and e.op == "+":
                for (mul, add) in ((e.kids[0].strip(), e.kids[1].strip()), (e.kids[1].strip(), e.kids[0].strip())):
                    if mul.k == "BinaryOperator" and mul.op == "*":
                        for (a_, ext) in ((mul.kids[0], mul.kids[1]), (mul.kids[1], mul.kids[0])):
                            if derived(a_, lo, outer) and not derived(a_, li, inner) and derived(add, li, inner) and \
                                    not derived(add, lo, outer) and not derived(ext, lo, outer) and not derived(ext, li, inner):
                                ok = True
            if ok:
                R.ok(key, PROPS)
            else:
                R.violated(Finding("R40", PROPS, FILE, f.name, "fill:" + ref.refname,
                                   "destination cell `%s = %s` is not (row position) * extent + (column position) for the loop "
                                   "nest rows at line %d / columns at line %d: the matrix is stored transposed" %
                                   (ref.refname, e.text() if e is not None else "?", outer.line, inner.line), vd.line))
    R.counts["row_column_nests"] = n_nests
    if n_nests < 2:
        raise AnalysisBroken("R40: %d row/column fill nests found in vnacal_load.c (parse_old_e_matrix and parse_matrix expected)" % n_nests)
    R.check_floor()
    return R

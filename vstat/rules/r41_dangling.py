"""R41 DANGLING-FIELD (C11, C20, C03): a field whose object was released does not survive the function still pointing at it.

On every CFG path of every library function: after  free(O->f)  or  D(O->f)  (D a library destructor: a function
that frees its first parameter), where O is an object the caller keeps (a parameter, or a local derived from one),
the field O->f is assigned again (NULL or a new object) before the function returns - unless O itself is released or
cleared (memset) on that path.  A return with O->f still holding the released pointer leaves an object that a
retried call or the object's own destructor will free a second time ("a failed solve can be retried", C11/C20).
The rule is path-sensitive (state = set of released-but-not-reassigned fields), so
    free(p->v); p->v = NULL;       and      free(p->v); if ((p->v = malloc(n)) == NULL) return -1;
are both accepted, while releasing the old result *before* an allocation that can fail and returning on that
failure is reported with the path.
"""
import re
from ..core import Finding, RuleResult
from ..facts import AnalysisBroken
from ..flow import Engine, Tracker, TooManyStates
from ..util import base_var
from ..failflow import REPORTERS, FIXED_REPORTERS

PROPS = ("C11", "C20", "C03", "C12")


def destructors(P):
    out = {"free"}
    for f in P.lib_functions():
        if f.body is None or not f.params:
            continue
        p0 = f.params[0]["decl"]
        for c in f.calls("free"):
            a = c.args()[0].strip() if c.args() else None
            if a is not None and a.k == "DeclRefExpr" and a.refdecl == p0:
                out.add(f.name)
    return out


def path_of(m):
    """text of a member path; members of a union share their storage, so the path stops at the union"""
    m = m.strip()
    if m.k == "MemberExpr" and m.kids and (m.kids[0].strip().ctype or "").startswith("union"):
        return m.kids[0].strip().text() + ".<union>"
    return m.text()


def elem_path(a):
    """O->v[i]: the path of the vector (union-aware) plus the subscript as written"""
    return "%s[%s]" % (path_of(a.kids[0]), a.kids[1].text())


class DangTracker(Tracker):
    def __init__(self, fn, dtors, kept):
        self.fn = fn
        self.dtors = dtors
        self.kept = kept          # decls of objects that outlive the call
        self.bad = {}
        self.nsites = 0
        self.sites = set()

    def initial(self, fn):
        return frozenset()

    def step(self, st, n, ctx):
        if n.k == "CallExpr":
            if n.callee in self.dtors and n.args():
                a = n.args()[0].strip()
                if a.k == "MemberExpr":
                    b = base_var(a)
                    if b is not None and b.refdecl in self.kept:
                        self.sites.add(n.id)
                        # the vector goes: its elements are no longer anybody's
                        pre = path_of(a) + "["
                        return [frozenset(x for x in st if not x.startswith(pre)) | {path_of(a)}]
                elif a.k == "ArraySubscriptExpr" and a.kids[0].strip().k == "MemberExpr":
                    # an element of a vector the object owns: O->v[i]
                    b = base_var(a.kids[0].strip())
                    if b is not None and b.refdecl in self.kept:
                        self.sites.add(n.id)
                        return [st | {elem_path(a)}]
                elif a.k == "DeclRefExpr":
                    # the object itself goes away
                    pre = a.refname + "->"
                    return [frozenset(x for x in st if not x.startswith(pre))]
            if n.callee not in self.dtors and st and n.callee not in REPORTERS and n.callee not in FIXED_REPORTERS:     # (an error reporter re-initialises nothing)
                # a callee that is handed the object (or the address of the field) may well re-initialise it
                drop = set()
                for a in n.args():
                    a_s = a.strip()
                    b = base_var(a_s) if a_s.k in ("DeclRefExpr", "UnaryOperator", "MemberExpr") else None
                    if b is not None and (a_s.k == "DeclRefExpr" or (a_s.k == "UnaryOperator" and a_s.op == "&")):
                        pre = (b.refname or "") + "->"
                        drop |= {x for x in st if x.startswith(pre)}
                if drop:
                    return [st - drop]
            if n.callee == "memset" and n.args():
                a = n.args()[0].strip()
                b = base_var(a)
                if b is not None:
                    pre = b.refname + "->"
                    return [frozenset(x for x in st if not x.startswith(pre))]
            return [st]
        if n.k == "BinaryOperator" and n.op == "=":
            l = n.kids[0].strip()
            if l.k == "MemberExpr":
                t = path_of(l)
                pre = t + "["
                if t in st or any(x.startswith(pre) for x in st):
                    return [frozenset(x for x in st if x != t and not x.startswith(pre))]
            elif l.k == "ArraySubscriptExpr" and l.kids[0].strip().k == "MemberExpr" and elem_path(l) in st:
                return [st - {elem_path(l)}]
            return [st]
        if n.k == "ReturnStmt" and st:
            for p in st:
                self.bad.setdefault(p, (n, ctx.trace()))
        return [st]

    def fallthrough(self, st, ctx):
        if st:
            for p in st:
                self.bad.setdefault(p, (None, ctx.trace()))
        return None


def run(P, tier="quick"):
    R = RuleResult("R41", "after free()/destructor of a field of an object the caller keeps, the field is reassigned on every path "
                   "before the function returns (or the object itself is released)", floor=5)
    dtors = destructors(P)
    nsites = 0
    for f in P.lib_functions():
        if f.cfg is None or f.body is None:
            continue
        if not any(c.callee in dtors and c.args() and (c.args()[0].strip().k == "MemberExpr" or (
                c.args()[0].strip().k == "ArraySubscriptExpr" and c.args()[0].strip().kids[0].strip().k == "MemberExpr")) for c in f.calls()):
            continue
        if f.ret == "void" and re.search(r"free|teardown|destroy|cleanup", f.name):
            # a teardown function: the object (or the part of it it owns) ends here; R01/R03 own that territory
            continue
        # objects that outlive the call: pointer parameters and single-definition locals derived from them
        kept = {p["decl"] for p in f.params if "*" in p.get("ct", p["t"])}
        changed = True
        while changed:
            changed = False
            for v in f.vardecls():
                if v.get("decl") not in kept and v.kids and "*" in (v.ctype or ""):
                    r = v.kids[0].strip()
                    if r.k == "CallExpr":
                        continue
                    b = base_var(r) if r.k in ("MemberExpr", "DeclRefExpr", "UnaryOperator") else None
                    if b is None:
                        for m in r.walk():
                            if m.k == "DeclRefExpr" and m.get("marg") and m.refdecl in kept:
                                b = m
                    if b is not None and b.refdecl in kept and r.k != "ArraySubscriptExpr":
                        kept.add(v.get("decl"))
                        changed = True
        tr = DangTracker(f, dtors, kept)
        try:
            Engine(f, tr, 20000).run()
        except TooManyStates:
            R.unclassified("R41|%s|%s|states" % (f.file, f.name), "too many states", PROPS)
            continue
        nsites += len(tr.sites)
        if not tr.sites:
            continue
        if not tr.bad:
            R.ok("R41|%s|%s|fields" % (f.file, f.name), PROPS)
        for p, (ret, trace) in sorted(tr.bad.items()):
            R.violated(Finding("R41", PROPS, f.file, f.name, "dangling:" + p,
                               "%s is released and the function can return%s without assigning it again: the object keeps a pointer "
                               "to freed memory (a retry or the destructor frees it a second time)" %
                               (p, " at line %d" % ret.line if ret is not None else ""), ret.line if ret is not None else f.line, trace))
    R.counts["release_sites"] = nsites
    R.check_floor()
    return R

"""R42 FIELD-OVERWRITE (C03, C12): an object field that holds a fresh allocation is not overwritten by another one.

R01 follows *locals*; ownership that sits in a structure field is invisible to it.  This rule closes the simplest
hole: on one CFG path of one function, `O->f = alloc(...)` (malloc/calloc/strdup or a chained assignment of one)
is executed while O->f still holds the block a previous `O->f = alloc(...)` of the same path stored there - no
free(O->f), no realloc of it, no hand-over (`x = O->f` followed by O->f = NULL is not needed: any plain
reassignment from a non-allocation clears the fact, the rule only claims alloc-over-alloc).  The first block is
unreachable afterwards: a leak on every execution of the path, success paths included.
Subscripted fields (O->v[i]) are ignored (loops assign a different element each time).
"""
from ..core import Finding, RuleResult
from ..flow import Engine, Tracker, TooManyStates

PROPS = ("C03", "C12")
ALLOCS = ("malloc", "calloc", "strdup", "strndup")


def alloc_in(e):
    """the allocation call whose result the expression evaluates to (through chained assignments / casts)"""
    e = e.strip()
    while e.k == "BinaryOperator" and e.op == "=":
        e = e.kids[1].strip()
    return e if e.k == "CallExpr" and e.callee in ALLOCS else None


def targets(n):
    """all member lvalues assigned by a (chained) assignment expression"""
    out = []
    while n.k == "BinaryOperator" and n.op == "=":
        l = n.kids[0].strip()
        if l.k == "MemberExpr":
            out.append(l)
        n = n.kids[1].strip()
    return out


class FTracker(Tracker):
    def __init__(self):
        self.bad = {}
        self.sites = set()

    def initial(self, fn):
        return frozenset()

    @staticmethod
    def _drop_base(st, name):
        return frozenset(x for x in st if not (x[0].startswith(name + "->") or x[0].startswith(name + ".")))

    def step(self, st, n, ctx):
        # the pointer through which the field is reached now designates another object
        if n.k == "VarDecl" and st:
            st = self._drop_base(st, n.get("name") or "")
        if n.k == "BinaryOperator" and n.op == "=" and n.kids[0].strip().k == "DeclRefExpr" and st:
            st = self._drop_base(st, n.kids[0].strip().refname or "")
        if n.k == "UnaryOperator" and n.op in ("++", "--") and n.kids[0].strip().k == "DeclRefExpr" and st:
            st = self._drop_base(st, n.kids[0].strip().refname or "")
        if n.k == "BinaryOperator" and n.op == "=":
            p = n.parent
            while p is not None and p.k in ("ParenExpr", "ImplicitCastExpr"):
                p = p.parent
            if p is not None and p.k == "BinaryOperator" and p.op == "=" and p.kids[1].strip() is n:
                return [st]          # inner part of a chain: handled at the outermost assignment
            tg = targets(n)
            if not tg:
                return [st]
            a = alloc_in(n)
            for l in tg:
                t = l.text()
                held = dict(st).get(t)
                if a is not None:
                    self.sites.add(n.id)
                    if held is not None:
                        self.bad.setdefault(t, (held, n, ctx.trace()))
                    st = frozenset(x for x in st if x[0] != t) | {(t, n.line)}
                else:
                    st = frozenset(x for x in st if x[0] != t)
            return [st]
        if n.k == "CallExpr" and n.callee in ("free", "realloc") and n.args():
            a0 = n.args()[0].strip()
            if a0.k == "MemberExpr":
                t = a0.text()
                return [frozenset(x for x in st if x[0] != t)]
        return [st]

    def branch(self, st, cond, truth, ctx):
        # `(O->f = alloc()) == NULL` true edge / `O->f == NULL` true edge: nothing is held
        c = cond.strip()
        if c.k == "BinaryOperator" and c.op in ("==", "!="):
            for side in c.kids:
                s = side.strip()
                while s.k == "BinaryOperator" and s.op == "=":
                    s = s.kids[0].strip()
                if s.k == "MemberExpr" and any(o.strip().cv == 0 or o.strip().k == "GNUNullExpr" for o in c.kids if o is not side):
                    isnull = (c.op == "==") == truth
                    if isnull:
                        t = s.text()
                        return frozenset(x for x in st if x[0] != t)
        return st


def run(P, tier="quick"):
    R = RuleResult("R42", "no path assigns a fresh allocation to an object field that still holds the fresh allocation an earlier "
                   "statement of the same path stored there", floor=10)
    nsites = 0
    for f in P.lib_functions():
        if f.cfg is None or f.body is None:
            continue
        cand = {}
        for n in f.walk():
            if n.k == "BinaryOperator" and n.op == "=" and alloc_in(n) is not None:
                for l in targets(n):
                    cand.setdefault(l.text(), []).append(n)
        if not cand:
            continue
        tr = FTracker()
        key = "R42|%s|%s|fields" % (f.file, f.name)
        try:
            Engine(f, tr, 20000).run()
        except TooManyStates:
            R.unclassified(key, "too many states", PROPS)
            continue
        nsites += len(tr.sites)
        if not tr.bad:
            R.ok(key, PROPS)
        for t, (line0, n, trace) in sorted(tr.bad.items()):
            R.violated(Finding("R42", PROPS, f.file, f.name, "overwrite:" + t,
                               "%s receives a new allocation at line %d while it still holds the block allocated at line %d on the "
                               "same path: the first block is leaked every time this path runs" % (t, n.line, line0), n.line, trace))
    R.counts["field_allocation_sites"] = nsites
    R.check_floor()
    return R

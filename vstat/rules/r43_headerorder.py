"""R43 HEADER-ORDER (C08): the NPD header keywords may come in any order.

"... or the order of NPD header lines - load to the same ..." (C08).  In `_vnadata_load_npd` the header is read by a
loop around `switch (record type)`; each `case T_K<KEYWORD>` arm is the handler of one header line.  A handler *owns*
the locals it assigns (directly or through an `&local` argument).  A handler that reads a local owned by *another*
handler depends on the order of the lines unless it first tests that local for its "not seen yet" value (the
initialiser, -1) - the documented exception is `#:z0`, which says "ports must come before #:z0" when ports is unset.
Cross-header consistency checks (T/U/H/G/A/B need 2 ports, rows = columns, ...) belong after the loop, where every
header line has been seen.
"""
from ..core import Finding, RuleResult
from ..facts import AnalysisBroken

PROPS = ("C08",)
FILE = "vnadata_load_npd.c"


def case_arms(sw):
    """[(label enumerator names, [statements])] of a switch body"""
    arms = []
    cur = None
    for st in sw.kids[-1].kids:
        t = st
        labels = []
        while t is not None and t.k in ("CaseStmt", "DefaultStmt"):
            if t.k == "CaseStmt":
                labels.append(t.kids[0].strip().refname or str(t.get("val")))
            else:
                labels.append("default")
            t = t.kids[-1]
        if labels:
            cur = (labels, [t] if t is not None else [])
            arms.append(cur)
        elif cur is not None:
            cur[1].append(st)
    return arms


def run(P, tier="quick"):
    R = RuleResult("R43", "no NPD header-line handler reads a variable set by another header line's handler without first testing "
                   "it for its unset value", floor=6)
    f = P.need_func("_vnadata_load_npd", FILE)
    sw = None
    for n in f.walk():
        if n.k == "SwitchStmt":
            c = [x for x in n.kids[:-1] if x is not None][-1]
            if "nss_record_type" in c.text() and any("T_KPORTS" in (a[0][0] or "") or "T_KPORTS" in a[0] for a in case_arms(n)):
                sw = n
                break
    if sw is None:
        raise AnalysisBroken("_vnadata_load_npd: header switch on nss_record_type not found")
    arms = [(l, b) for (l, b) in case_arms(sw) if any(x.startswith("T_K") for x in l)]
    if len(arms) < 6:
        raise AnalysisBroken("_vnadata_load_npd: only %d header keyword arms found" % len(arms))
    # unset values of the function's locals
    unset = {}
    for v in f.vardecls():
        if v.kids and v.kids[0].strip().cv is not None and not sw.is_ancestor_of(v):
            unset[v.get("decl")] = v.kids[0].strip().cv
    owners = {}
    for (labels, body) in arms:
        for st in body:
            for n in st.walk():
                tgt = None
                if n.k in ("BinaryOperator", "CompoundAssignOperator") and n.op and n.op.endswith("=") and \
                        n.op not in ("==", "!=", "<=", ">=") and n.kids[0].strip().k == "DeclRefExpr":
                    tgt = n.kids[0].strip()
                elif n.k == "UnaryOperator" and n.op == "&" and n.kids[0].strip().k == "DeclRefExpr" and \
                        n.parent is not None and n.parent.k in ("CallExpr", "ImplicitCastExpr", "CStyleCastExpr"):
                    tgt = n.kids[0].strip()
                if tgt is not None and tgt.refkind == "local":
                    owners.setdefault(tgt.refdecl, set()).add(labels[0])
    for (labels, body) in arms:
        key = "R43|%s|_vnadata_load_npd|header:%s" % (FILE, labels[0])
        bad = None
        for st in body:
            for n in st.walk():
                if n.k != "DeclRefExpr" or n.refkind != "local":
                    continue
                d = n.refdecl
                own = owners.get(d, set())
                if not own or labels[0] in own or d not in unset:
                    continue
                # a write is not a read
                p = n.parent
                while p is not None and p.k in ("ParenExpr", "ImplicitCastExpr"):
                    p = p.parent
                if p is not None and p.k == "BinaryOperator" and p.op == "=" and p.kids[0].strip() is n:
                    continue
                # is the read itself, or an earlier statement of this arm, a test for the unset value?
                guarded = False
                for st2 in body:
                    for t in st2.walk():
                        if t.k == "BinaryOperator" and t.op in ("<", "==", "!=", ">=", "<=", ">") and t.line <= n.line:
                            a, b = t.kids[0].strip(), t.kids[1].strip()
                            for x, y in ((a, b), (b, a)):
                                if x.k == "DeclRefExpr" and x.refdecl == d and y.cv is not None and \
                                        ((t.op in ("==", "!=") and y.cv == unset[d]) or (t.op in ("<", ">=") and y.cv == unset[d] + 1)):
                                    guarded = True
                if not guarded and bad is None:
                    bad = (n, sorted(own)[0])
        if bad is None:
            R.ok(key, PROPS)
        else:
            n, other = bad
            R.violated(Finding("R43", PROPS, FILE, "_vnadata_load_npd", "header:" + labels[0],
                               "the handler of %s reads '%s' (line %d), which is set by the %s line, without testing it for its unset "
                               "value %s: a file that has the two header lines in the other order is handled differently" %
                               (labels[0], n.refname, n.line, other, unset[n.refdecl]), n.line))
    R.counts["header_arms"] = len(arms)
    R.check_floor()
    return R

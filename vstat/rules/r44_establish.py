"""R44 ASSERT-ESTABLISH (C12, C03): a precondition a callee asserts is established by a *checked* call.

Stated beliefs are discovered: a function A whose body starts with  assert(P->F != 0)  /  assert(P->F != NULL)
(P a parameter) believes its callers guarantee the field.  The *establishers* of F are the library functions that
assign P->F a value other than 0/NULL (e.g. map_expand allocates the table and sets its size) and can fail
(they return -1/NULL on some path).  In every function that calls an establisher E and later A on the same object,
the result of E must be examined (tested, returned, or stored in a variable that is read): discarding it -
`(void)E(p);` or a bare expression statement - lets a failed E (allocation failure) run into A with the
precondition false: division by zero / NULL dereference behind an assert that NDEBUG builds do not even have.
`(void)` discards elsewhere (after the object is in a consistent state, as in hash_insert) are not touched:
only a discard between an establisher and the callee that asserts what it establishes is reported.
"""
from ..core import Finding, RuleResult
from ..facts import AnalysisBroken

PROPS = ("C12", "C03")


def asserted_fields(f):
    """fields F with a leading `assert(P->F != 0)` where P is a parameter"""
    out = set()
    if f.body is None:
        return out
    pdecls = {p["decl"] for p in f.params}
    for n in f.walk():
        if n.k == "CallExpr" and n.callee == "__assert_fail":
            # the enclosing conditional operator carries the asserted expression
            c = n.parent
            while c is not None and c.k not in ("ConditionalOperator", "IfStmt"):
                c = c.parent
            if c is None:
                continue
            cond = [x for x in c.kids if x is not None][0].strip()
            if cond.k == "BinaryOperator" and cond.op == "!=" and any(x.strip().cv == 0 for x in cond.kids):
                for x in cond.kids:
                    x = x.strip()
                    if x.k == "MemberExpr" and x.kids[0].strip().k == "DeclRefExpr" and x.kids[0].strip().refdecl in pdecls:
                        out.add(x.member)
    return out


def run(P, tier="quick"):
    R = RuleResult("R44", "between a call that establishes a field (and can fail) and a callee that asserts that field, the "
                   "establisher's result is examined", floor=1)
    believers = {}
    for f in P.lib_functions():
        for F in asserted_fields(f):
            believers.setdefault(f.key(), (f, set()))[1].add(F)
    if not believers:
        raise AnalysisBroken("R44: no function with an asserted field precondition found")
    establishers = {}
    fields = {F for (_, fs) in believers.values() for F in fs}
    for g in P.lib_functions():
        if g.body is None:
            continue
        # can fail: has a `return -1` / `return NULL`
        if not any(r.kids and (r.kids[0].strip().cv in (-1, 0) and (r.kids[0].strip().cv == -1 or "*" in g.ret)) for r in g.returns()):
            continue
        for n in g.walk():
            if n.k == "BinaryOperator" and n.op == "=" and n.kids[0].strip().k == "MemberExpr" and \
                    n.kids[0].strip().member in fields and n.kids[1].strip().cv != 0:
                establishers.setdefault(n.kids[0].strip().member, set()).add(g.key())
    R.counts["believers"] = len(believers)
    R.counts["establishers"] = sum(len(v) for v in establishers.values())
    npairs = 0
    for c_ in P.lib_functions():
        if c_.body is None:
            continue
        calls = [(c, P.resolve_call(c, c_)) for c in c_.calls()]
        for (ca, A) in calls:
            if A is None or A.key() not in believers:
                continue
            for F in believers[A.key()][1]:
                for (ce, E) in calls:
                    if E is None or E.key() not in establishers.get(F, ()) or ce.line > ca.line or E.key() == c_.key():
                        continue
                    npairs += 1
                    key = "R44|%s|%s|%s-before-%s" % (c_.file, c_.name, E.name, A.name)
                    p = ce.parent
                    while p is not None and p.k in ("ParenExpr", "ImplicitCastExpr"):
                        p = p.parent
                    discarded = p is not None and ((p.k == "CStyleCastExpr" and p.type == "void") or p.k == "CompoundStmt")
                    if discarded:
                        R.violated(Finding("R44", PROPS, c_.file, c_.name, "%s-before-%s" % (E.name, A.name),
                                           "%s() establishes %s, which %s() asserts to be non-zero, but its result is discarded at line %d: "
                                           "when %s() fails (allocation failure) %s() runs with the precondition false" %
                                           (E.name, F, A.name, ce.line, E.name, A.name), ce.line))
                    else:
                        R.ok(key, PROPS)
    R.counts["establisher_believer_pairs"] = npairs
    if npairs < 1:
        raise AnalysisBroken("R44: no caller that both establishes and relies on an asserted field (map_subtree expected)")
    R.check_floor()
    return R

"""R45 SCANNER-PROGRESS (C09): every loop of the text-file parsers consumes input on every cycle.

"Given any byte sequence ... the loader terminates" (C09).  The Touchstone and NPD loaders are hand-written scanners:
their loops end when the scanner state (current token / record / character) reaches some value.  Such a loop
terminates on every input iff *each cycle advances the input* - the file is finite - or is bounded some other way.
Consumers are discovered: a function of the parser file that (transitively, inside the file) calls getc()/fgetc().
For every natural loop (CFG back edges) of those files:
  * if R25 classifies it as counted / list walk / pointer chain and its checks pass, it is bounded;
  * else, if the loop contains a consumer call, **every cycle through the loop must pass a block that calls a
    consumer** (cut check: no path header -> ... -> header avoids all consumer blocks).  A cycle that does not -
    typically a `switch` arm that `break`s out of the switch instead of the loop, or a `continue` placed before the
    advance - repeats forever on the input that selects it (for example an option line that ends at end-of-file);
  * the check is made for the *token-level* functions (those that advance only through next_token()/scan_line());
    inside the character-level scanners themselves a failing cut check is reported as unclassified: they defer the
    advance with state flags and rely on character-class facts a per-cycle argument cannot see;
  * loops of neither kind are unclassified (neither pass nor alarm).
"""
from ..core import Finding, RuleResult
from ..facts import AnalysisBroken
from .r25_loops import natural_loops, every_cycle_passes, classify

PROPS = ("C09",)
FILES = ("vnadata_load_touchstone.c", "vnadata_load_npd.c")
READERS = ("getc", "fgetc", "getc_unlocked", "fread", "fgets")


def consumers(P, file):
    fs = [f for f in P.by_file.get(file, []) if f.body is not None]
    cons = {f.name for f in fs if any(c.callee in READERS or "getc" in (c.callee or "") for c in f.calls())}
    # macros such as GET_CHAR expand to getc in place: any function whose body mentions getc is a reader already
    changed = True
    while changed:
        changed = False
        for f in fs:
            if f.name not in cons and any(c.callee in cons for c in f.calls()):
                cons.add(f.name)
                changed = True
    return cons


def run(P, tier="quick"):
    R = RuleResult("R45", "in the Touchstone and NPD parsers every cycle of every scanner-driven loop passes through a call that "
                   "consumes input (or the loop is counted / a list walk)", floor=15)
    nloops = nscan = 0
    for file in FILES:
        cons = consumers(P, file)
        if not cons:
            raise AnalysisBroken("%s: no function reading the input (getc) found" % file)
        direct = {g.name for g in P.by_file.get(file, []) if g.body is not None and
                  any(c.callee in READERS or "getc" in (c.callee or "") for c in g.calls())}
        for f in P.by_file.get(file, []):
            if f.cfg is None:
                continue
            loops = natural_loops(f.cfg)
            for i, (header, body) in enumerate(sorted(loops.items(), key=lambda kv: -kv[0])):
                nloops += 1
                hb = f.cfg.blocks[header]
                line = hb.cond.line if hb.cond is not None else (hb.elems[0].line if hb.elems else 0)
                key = "R45|%s|%s|loop%d" % (file, f.name, i)
                try:
                    cls, info, ok = classify(f, header, body)
                except Exception:
                    cls, info, ok = None, None, False
                if cls in ("COUNTED", "LISTWALK", "CHAIN") and ok:
                    R.ok(key + ":" + cls, PROPS)
                    continue
                cut = set()
                for bid in body:
                    for el in f.cfg.blocks[bid].elems:
                        if el.k == "CallExpr" and (el.callee in cons or el.callee in READERS or "getc" in (el.callee or "")):
                            cut.add(bid)
                if not cut:
                    R.unclassified(key, "loop at line %d is neither counted nor scanner-driven" % line, PROPS)
                    continue
                nscan += 1
                if every_cycle_passes(f.cfg, header, body, cut):
                    R.ok(key + ":SCANNER", PROPS)
                elif f.name in direct:
                    # character-level scanners defer the advance with state flags (NPD: nss_start_of_line makes the *next*
                    # cycle consume) and rely on character-class facts; a per-cycle cut check cannot decide them
                    R.unclassified(key, "character-level scanner loop at line %d: progress depends on scanner state flags" % line, PROPS)
                else:
                    R.violated(Finding("R45", PROPS, file, f.name, "loop%d:no-progress" % i,
                                       "the loop at line %d has a cycle that consumes no input (no call of %s on that path): on the "
                                       "input that selects that path the loader never returns" %
                                       (line, "/".join(sorted(cons))[:80]), line))
    R.counts["loops"] = nloops
    R.counts["scanner_loops"] = nscan
    if nscan < 8:
        raise AnalysisBroken("R45: only %d scanner-driven loops found" % nscan)
    R.check_floor()
    return R

"""R46 BORROW-GUARD (C03, C16): a pointer that may be borrowed is released only if it is not the one that was borrowed.

Discovered instances: a member F that in one place is *borrowed* (`X->F = S->G`, G a member that S owns - it is
passed to free() somewhere) and in a destructor is released under a guard `if (X->F != R->G) free(X->F)`.
The guard is only right when R designates the same object the borrow took the pointer from.  How S and R are
reached from X is compared by shape:
    direct(k)   k hops along one pointer member from X          (X->other, X->other->other, ...)
    chain-end   a local advanced in a loop `p = p->M` until a test on the node fails (the end of the chain)
A guard that looks one hop away while the borrow took the pointer from the end of the chain frees the borrowed
vector whenever the chain is longer than one link - and its owner frees it again.
"""
from ..core import Finding, RuleResult
from ..facts import AnalysisBroken
from ..util import base_var

PROPS = ("C03", "C16")


def reach(f, e):
    """shape by which expression e (an object pointer) is reached: ('direct', hops, member) / ('chain-end', member) / None"""
    e = e.strip()
    hops = 0
    mem = None
    while e.k == "MemberExpr":
        if "*" in (e.ctype or ""):
            mem = e.member          # a pointer member: one hop to another object
            hops += 1
        e = e.kids[0].strip()       # embedded structures / unions are part of the same object
    if e.k != "DeclRefExpr":
        return None
    if hops:
        return ("direct", hops, mem, e.refdecl)
    # a local: advanced in a loop by p = p->M ?
    for lp in f.walk():
        if lp.k in ("WhileStmt", "ForStmt", "DoStmt"):
            for m in lp.walk():
                if m.k == "BinaryOperator" and m.op == "=" and m.kids[0].strip().k == "DeclRefExpr" and \
                        m.kids[0].strip().refdecl == e.refdecl:
                    r = m.kids[1].strip()
                    bv = base_var(r) if r.k == "MemberExpr" else None
                    if bv is not None and bv.refdecl == e.refdecl and "*" in (r.ctype or ""):
                        return ("chain-end", r.member)
    return ("direct", 0, None, e.refdecl)


def run(P, tier="quick"):
    R = RuleResult("R46", "a conditional free `if (X->F != R->G) free(X->F)` reaches R the same way the borrowing store "
                   "`X->F = S->G` reached S", floor=1)
    owned = set()
    for f in P.lib_functions():
        if f.body is None:
            continue
        for c in f.calls("free"):
            a = c.args()[0].strip() if c.args() else None
            if a is not None and a.k == "MemberExpr":
                owned.add(a.member)
    borrows = {}
    for f in P.lib_functions():
        if f.body is None:
            continue
        for n in f.walk():
            if n.k == "BinaryOperator" and n.op == "=":
                l, r = n.kids[0].strip(), n.kids[1].strip()
                if l.k == "MemberExpr" and r.k == "MemberExpr" and r.member in owned and l.member != r.member and \
                        "*" in (l.ctype or ""):
                    borrows.setdefault(l.member, []).append((f, n, r))
    npairs = 0
    for f in P.lib_functions():
        if f.body is None:
            continue
        for n in f.walk():
            if n.k != "IfStmt":
                continue
            kids = [x for x in n.kids if x is not None]
            c = kids[0].strip()
            if c.k != "BinaryOperator" or c.op != "!=":
                continue
            a, b = c.kids[0].strip(), c.kids[1].strip()
            for x, y in ((a, b), (b, a)):
                if x.k == "MemberExpr" and y.k == "MemberExpr" and x.member in borrows and y.member in owned and \
                        any(fc.args() and fc.args()[0].strip().k == "MemberExpr" and fc.args()[0].strip().member == x.member
                            for fc in kids[1].calls("free")):
                    for (bf, bn, src) in borrows[x.member]:
                        if src.member != y.member:
                            continue
                        npairs += 1
                        key = "R46|%s|%s|guard:%s" % (f.file, f.name, x.member)
                        rg, rs = reach(f, y.kids[0]), reach(bf, src.kids[0])
                        same = rg is not None and rs is not None and rg[0] == rs[0] and (rg[0] != "direct" or rg[1] == rs[1])
                        if same:
                            R.ok(key, PROPS)
                        else:
                            R.violated(Finding("R46", PROPS, f.file, f.name, "guard:" + x.member,
                                               "%s is released unless it equals %s (%s), but %s() borrowed it from `%s` (%s): when the "
                                               "two differ the borrowed vector is freed here and again by its owner" %
                                               (x.member, y.text(), "one hop" if rg and rg[0] == "direct" else "end of the chain",
                                                bf.name, src.text(), "the end of the %s chain" % rs[1] if rs and rs[0] == "chain-end"
                                                else "direct"), n.line))
    R.counts["guard_borrow_pairs"] = npairs
    if npairs < 1:
        raise AnalysisBroken("R46: no borrowed-pointer release guard found (_vnacal_free_parameter expected)")
    R.check_floor()
    return R

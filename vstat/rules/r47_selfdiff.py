"""R47 SELF-DIFFERENCE (C02): a convergence measure is not the difference of a vector with its own copy.

Path-sensitive: after  memcpy(A, B, ...)  the arrays A and B hold the same values until one of them is written
(an element store, another memcpy into it, or being handed to a function through a non-const pointer).  A
difference  B[i] - A[i]  (or A[i] - B[i]) evaluated while that fact holds is identically zero.  In the iterative
solvers such a difference feeds the "change in the error terms is below vn_et_tolerance" test: if it is zero by
construction the tolerance has no effect ("both tolerances must be met", vnacal_new(3); "tightening the tolerances
tightens the result", C02).
Instances: every element-wise difference of two local/parameter arrays in the solver files.
"""
from ..core import Finding, RuleResult
from ..facts import AnalysisBroken
from ..flow import Engine, Tracker, TooManyStates
from ..util import base_var

PROPS = ("C02",)
FILES = ("vnacal_new_solve_auto.c", "vnacal_new_solve_simple.c", "vnacal_new_solve_trl.c")


def arr_decl(e):
    b = base_var(e)
    return b.refdecl if b is not None and b.refkind in ("local", "param") else None


class EqTracker(Tracker):
    def __init__(self):
        self.bad = {}
        self.ndiff = 0
        self.seen = set()

    def initial(self, fn):
        return frozenset()

    def kill(self, st, d):
        return frozenset(p for p in st if d not in p) if d is not None else st

    def step(self, st, n, ctx):
        if n.k == "CallExpr":
            if n.callee == "memcpy" and len(n.args()) >= 2:
                a, b = arr_decl(n.args()[0]), arr_decl(n.args()[1])
                st = self.kill(st, a)
                if a is not None and b is not None and a != b:
                    st = st | {frozenset((a, b))}
                return [st]
            for a in n.args():
                a_s = a.strip()
                if a_s.k in ("DeclRefExpr", "UnaryOperator", "ArraySubscriptExpr") and "const" not in (a_s.ctype or "") and \
                        "*" in (a_s.ctype or "") + ("*" if a_s.k == "UnaryOperator" and a_s.op == "&" else ""):
                    st = self.kill(st, arr_decl(a_s))
            return [st]
        if n.k in ("BinaryOperator", "CompoundAssignOperator") and n.op and n.op.endswith("=") and n.op not in ("==", "!=", "<=", ">="):
            l = n.kids[0].strip()
            if l.k == "ArraySubscriptExpr":
                st = self.kill(st, arr_decl(l))
            return [st]
        if n.k == "BinaryOperator" and n.op == "-":
            a, b = n.kids[0].strip(), n.kids[1].strip()
            if a.k == "ArraySubscriptExpr" and b.k == "ArraySubscriptExpr" and a.kids[1].text() == b.kids[1].text():
                da, db = arr_decl(a), arr_decl(b)
                if da is not None and db is not None and da != db:
                    if n.id not in self.seen:
                        self.seen.add(n.id)
                        self.ndiff += 1
                    if frozenset((da, db)) in st:
                        self.bad.setdefault(n.id, (n, ctx.trace()))
        return [st]


def run(P, tier="quick"):
    R = RuleResult("R47", "no element-wise difference A[i] - B[i] in the iterative solvers is evaluated while B is still an unmodified "
                   "memcpy of A", floor=1)
    nd = 0
    for file in FILES:
        for f in P.by_file.get(file, []):
            if f.cfg is None or not f.calls("memcpy"):
                continue
            tr = EqTracker()
            try:
                Engine(f, tr, 200000).run()
            except TooManyStates:
                R.unclassified("R47|%s|%s|states" % (file, f.name), "too many states", PROPS)
                continue
            nd += tr.ndiff
            good = tr.seen - set(tr.bad)
            for i, _ in enumerate(sorted(good)):
                R.ok("R47|%s|%s|diff#%d" % (file, f.name, i), PROPS)
            for nid, (n, trace) in sorted(tr.bad.items()):
                a, b = n.kids[0].strip(), n.kids[1].strip()
                R.violated(Finding("R47", PROPS, file, f.name, "self-diff:%s-%s" % (base_var(a).refname, base_var(b).refname),
                                   "`%s` is evaluated on a path where %s is still an unmodified copy of %s (memcpy earlier on the path): "
                                   "the difference is identically zero, so the tolerance test it feeds can never fail" %
                                   (n.text()[:60], base_var(b).refname, base_var(a).refname), n.line, trace))
    R.counts["elementwise_differences"] = nd
    if nd < 1:
        raise AnalysisBroken("R47: no element-wise vector difference found in the iterative solvers")
    R.check_floor()
    return R

"""R48 MODULO-INDEX (C03, C16): a hash bucket selected by `key % size` is reached only with a non-negative key.

In C the remainder of a negative left operand is negative: `table[key % size]` with key = -5 reads table[-5].
For every subscript whose index is `E % N` with E a *signed* integer expression over a parameter of the function,
a test of that parameter against 0 (`< 0`, `>= 0`, `<= -1`, ...) must be executed on every path to the subscript,
in the function itself or - when the function is static - on every path to each call, followed up the call graph
until a non-static function is reached.  A handle that comes straight from the caller of a public function (an
invalid parameter index) otherwise indexes in front of the table before anyone has validated it.
Unsigned keys (hash values of type uint32_t / size_t) take no part.
"""
from ..core import Finding, RuleResult
from ..facts import AnalysisBroken

PROPS = ("C03", "C16")


def signed_int(n):
    t = (n.ctype or "").replace("const ", "")
    return t in ("int", "long", "short", "long long", "ssize_t")


def dominates(cfg, a, b):
    pa, pb = cfg.pos_of(a), cfg.pos_of(b)
    if pa is None or pb is None:
        return False
    if pa[0] == pb[0]:
        return pa[1] <= pb[1]
    return cfg.block_dominates(pa[0], pb[0])


def guarded(f, decl, site):
    """a comparison of the variable with 0 / -1 dominates the site"""
    if f.cfg is None:
        return False
    for n in f.walk():
        if n.k == "BinaryOperator" and n.op in ("<", "<=", ">", ">="):
            a, b = n.kids[0].strip(), n.kids[1].strip()
            for x, y in ((a, b), (b, a)):
                if x.k == "DeclRefExpr" and x.refdecl == decl and y.cv in (0, -1) and dominates(f.cfg, n, site):
                    return True
    return False


def run(P, tier="quick"):
    R = RuleResult("R48", "every `table[key % size]` with a signed key derived from a parameter is reached only after the key was "
                   "compared with 0, in the function or in all its callers up to the first non-static function", floor=1)
    callers = P.callers()
    nsites = 0
    for f in P.lib_functions():
        if f.body is None:
            continue
        for n in f.walk():
            if n.k != "ArraySubscriptExpr":
                continue
            i = n.kids[1].strip()
            if i.k != "BinaryOperator" or i.op != "%":
                continue
            key = i.kids[0].strip()
            if key.k != "DeclRefExpr" or not signed_int(key):
                continue
            # follow a single-definition local back to a parameter
            src = key
            if key.refkind == "local":
                defs = [v for v in f.vardecls() if v.get("decl") == key.refdecl and v.kids]
                if len(defs) == 1 and defs[0].kids[0].strip().k == "DeclRefExpr":
                    src = defs[0].kids[0].strip()
            if src.refkind != "param":
                continue
            nsites += 1
            anchor = "mod-index:%s" % n.kids[0].text()[-30:]
            k_ = "R48|%s|%s|%s" % (f.file, f.name, anchor)
            # search up the call graph
            bad = None
            seen = set()
            work = [(f, src.refdecl, n)]
            while work and bad is None:
                g, decl, site = work.pop()
                if (g.key(), decl) in seen:
                    continue
                seen.add((g.key(), decl))
                if guarded(g, decl, site):
                    continue
                if not g.static or not callers.get(g.key()):
                    bad = (g, site)
                    break
                pi = [j for j, p in enumerate(g.params) if p["decl"] == decl]
                for (h, call) in callers.get(g.key(), []):
                    if not pi or pi[0] >= len(call.args()):
                        continue
                    a = call.args()[pi[0]].strip()
                    if a.k == "DeclRefExpr" and a.refkind in ("param", "local"):
                        work.append((h, a.refdecl, call))
                    elif a.cv is not None and a.cv >= 0:
                        continue
                    else:
                        # an expression (e.g. a structure member holding a validated index): accept members, flag the rest
                        if a.k == "MemberExpr" or any(m.k == "MemberExpr" for m in a.walk()):
                            continue
                        bad = (h, call)
                        break
            if bad is None:
                R.ok(k_, PROPS)
            else:
                g, site = bad
                R.violated(Finding("R48", PROPS, f.file, f.name, anchor,
                                   "`%s` selects a bucket with a signed key that reaches it unvalidated through %s() (line %d): a "
                                   "negative index from the caller gives a negative remainder and reads in front of the table" %
                                   (n.text()[:60], g.name, site.line), n.line))
    R.counts["modulo_subscripts"] = nsites
    if nsites < 1:
        raise AnalysisBroken("R48: no `table[key % size]` subscript with a signed key found")
    R.check_floor()
    return R
